// lockscan checks the locking discipline of the moss `collection` and `Store`
// structs: every read and write of a field declared after
//
//	m sync.Mutex // Protects the fields that follow.
//
// must be justified by one of a small number of reasons (the owner's mutex is
// held here, every caller holds it, the object is not published yet, ...).
//
// It prints one line per access, a summary, and `UNJUSTIFIED <n>`; with -coq
// it also writes the access table as a Coq file checked by Moss.Locks.
package main

import (
	"flag"
	"fmt"
	"go/ast"
	"go/token"
	"go/types"
	"os"
	"sort"
	"strings"

	"golang.org/x/tools/go/packages"
)

// structNames are the structs whose mutex discipline is checked.
var structNames = []string{"collection", "Store"}

const protectsComment = "Protects the fields that follow"

func main() {
	dir := flag.String("dir", "/repo", "directory of the package to scan")
	coqOut := flag.String("coq", "", "write the access table as a Coq file")
	tags := flag.String("tags", "", "build tags (default: none)")
	verbose := flag.Bool("v", false, "also list the accesses of immutable fields and the assumptions")
	flag.Parse()

	cfg := &packages.Config{
		Mode: packages.NeedName | packages.NeedFiles | packages.NeedCompiledGoFiles |
			packages.NeedSyntax | packages.NeedTypes | packages.NeedTypesInfo |
			packages.NeedImports | packages.NeedDeps,
		Dir:   *dir,
		Tests: false,
	}
	if *tags != "" {
		cfg.BuildFlags = []string{"-tags=" + *tags}
	}
	pkgs, err := packages.Load(cfg, ".")
	if err != nil {
		fmt.Fprintf(os.Stderr, "lockscan: load: %v\n", err)
		os.Exit(2)
	}
	if len(pkgs) != 1 {
		fmt.Fprintf(os.Stderr, "lockscan: expected 1 package, got %d\n", len(pkgs))
		os.Exit(2)
	}
	pkg := pkgs[0]
	if len(pkg.Errors) > 0 {
		for _, e := range pkg.Errors {
			fmt.Fprintf(os.Stderr, "lockscan: %v\n", e)
		}
		os.Exit(2)
	}

	t := newTool(pkg)
	t.verbose = *verbose
	if err := t.findStructs(); err != nil {
		fmt.Fprintf(os.Stderr, "lockscan: %v\n", err)
		os.Exit(2)
	}
	t.collectFuncs()
	t.scanAll()
	t.solve()
	t.report(os.Stdout)
	if *coqOut != "" {
		if err := t.writeCoq(*coqOut); err != nil {
			fmt.Fprintf(os.Stderr, "lockscan: %v\n", err)
			os.Exit(2)
		}
	}
}

// ---------------------------------------------------------------------

type structSpec struct {
	name      string
	named     *types.Named
	mutex     *types.Var
	after     []*types.Var // fields declared after the mutex
	immutable map[*types.Var]string
}

type funcInfo struct {
	decl     *ast.FuncDecl
	obj      *types.Func
	name     string       // "collection.snapshot" or "NewCollection"
	params   []*types.Var // receiver first
	paramIdx map[*types.Var]int
	results  *types.Tuple
	// static facts
	exported    bool
	usedAsValue bool
	inInterface bool
	hasGoto     bool
	callSites   int
}

type tool struct {
	pkg     *packages.Package
	fset    *token.FileSet
	info    *types.Info
	verbose bool

	structs     []*structSpec
	fieldOwner  map[*types.Var]*structSpec // every field after a mutex
	mutexOwner  map[*types.Var]*structSpec
	trackedType map[*types.Named]*structSpec

	funcs      []*funcInfo
	funcOf     map[*types.Func]*funcInfo
	ifaceMeths map[string]bool

	// assumptions
	assumps   []*assumption
	assumpKey map[string]*assumption

	// results of the scans, keyed by syntax node so that re-scans of loop
	// bodies overwrite earlier, more optimistic, passes.
	accesses   map[ast.Node]*accessRec
	calls      map[ast.Node]*callRec
	cbInvokes  map[ast.Node]*cbInvoke
	returns    map[ast.Node]*retRec
	condPats   map[ast.Node]*condPat
	warnings   map[string]bool
	locksParam map[string]bool // "func/paramIdx": the function locks that parameter's own mutex
	infos      map[string]bool

	final []*finalAccess
}

func newTool(pkg *packages.Package) *tool {
	return &tool{
		pkg: pkg, fset: pkg.Fset, info: pkg.TypesInfo,
		fieldOwner:  map[*types.Var]*structSpec{},
		mutexOwner:  map[*types.Var]*structSpec{},
		trackedType: map[*types.Named]*structSpec{},
		funcOf:      map[*types.Func]*funcInfo{},
		ifaceMeths:  map[string]bool{},
		assumpKey:   map[string]*assumption{},
		accesses:    map[ast.Node]*accessRec{},
		calls:       map[ast.Node]*callRec{},
		cbInvokes:   map[ast.Node]*cbInvoke{},
		returns:     map[ast.Node]*retRec{},
		condPats:    map[ast.Node]*condPat{},
		warnings:    map[string]bool{},
		locksParam:  map[string]bool{},
		infos:       map[string]bool{},
	}
}

func (t *tool) pos(p token.Pos) string {
	pp := t.fset.Position(p)
	f := pp.Filename
	if i := strings.LastIndex(f, "/"); i >= 0 {
		f = f[i+1:]
	}
	return fmt.Sprintf("%s:%d", f, pp.Line)
}

func (t *tool) warn(p token.Pos, format string, a ...interface{}) {
	t.warnings[t.pos(p)+": "+fmt.Sprintf(format, a...)] = true
}

func (t *tool) note(p token.Pos, format string, a ...interface{}) {
	t.infos[t.pos(p)+": "+fmt.Sprintf(format, a...)] = true
}

func isTestFile(name string) bool { return strings.HasSuffix(name, "_test.go") }

// findStructs locates the structs, their mutex and the fields declared
// after the "Protects the fields that follow" comment.
func (t *tool) findStructs() error {
	for _, name := range structNames {
		obj := t.pkg.Types.Scope().Lookup(name)
		if obj == nil {
			continue // a package without this struct (used by the tests of the tool)
		}
		tn, ok := obj.(*types.TypeName)
		if !ok {
			continue
		}
		named, ok := tn.Type().(*types.Named)
		if !ok {
			continue
		}
		st, ok := named.Underlying().(*types.Struct)
		if !ok {
			continue
		}
		spec := &structSpec{name: name, named: named, immutable: map[*types.Var]string{}}
		// Find the syntax of the struct to read the comment.
		var stx *ast.StructType
		for _, f := range t.pkg.Syntax {
			ast.Inspect(f, func(n ast.Node) bool {
				ts, ok := n.(*ast.TypeSpec)
				if ok && t.info.Defs[ts.Name] == obj {
					if s, ok := ts.Type.(*ast.StructType); ok {
						stx = s
					}
				}
				return true
			})
		}
		if stx == nil {
			return fmt.Errorf("no syntax for struct %s", name)
		}
		var mutexIdent *ast.Ident
		for _, fld := range stx.Fields.List {
			if fld.Comment != nil && strings.Contains(fld.Comment.Text(), protectsComment) && len(fld.Names) == 1 {
				mutexIdent = fld.Names[0]
			}
		}
		if mutexIdent == nil {
			return fmt.Errorf("struct %s: no field commented %q", name, protectsComment)
		}
		mv, _ := t.info.Defs[mutexIdent].(*types.Var)
		if mv == nil || mv.Type().String() != "sync.Mutex" {
			return fmt.Errorf("struct %s: field %s is not a sync.Mutex", name, mutexIdent.Name)
		}
		spec.mutex = mv
		seen := false
		for i := 0; i < st.NumFields(); i++ {
			f := st.Field(i)
			if f == mv {
				seen = true
				continue
			}
			if seen {
				spec.after = append(spec.after, f)
				t.fieldOwner[f] = spec
			}
		}
		t.mutexOwner[mv] = spec
		t.trackedType[named] = spec
		t.structs = append(t.structs, spec)
	}
	if len(t.structs) == 0 {
		return fmt.Errorf("none of the structs %v found", structNames)
	}
	return nil
}

// trackedPtr reports whether typ is *collection / *Store.
func (t *tool) trackedPtr(typ types.Type) *structSpec {
	p, ok := typ.(*types.Pointer)
	if !ok {
		return nil
	}
	n, ok := p.Elem().(*types.Named)
	if !ok {
		return nil
	}
	return t.trackedType[n]
}

// isChildField: a field of a tracked struct that holds pointers to objects
// of the same struct (collection.childCollections).  Such children have no
// lock of their own: they are protected by the lock protecting the parent.
func (t *tool) isChildField(f *types.Var) bool {
	owner := t.fieldOwner[f]
	if owner == nil {
		return false
	}
	elem := f.Type()
	switch u := elem.Underlying().(type) {
	case *types.Map:
		elem = u.Elem()
	case *types.Slice:
		elem = u.Elem()
	}
	return t.trackedPtr(elem) == owner
}

func (t *tool) collectFuncs() {
	// interface method names declared in this package
	for _, f := range t.pkg.Syntax {
		ast.Inspect(f, func(n ast.Node) bool {
			it, ok := n.(*ast.InterfaceType)
			if !ok {
				return true
			}
			if tv, ok := t.info.Types[it]; ok {
				if iface, ok := tv.Type.Underlying().(*types.Interface); ok {
					for i := 0; i < iface.NumMethods(); i++ {
						t.ifaceMeths[iface.Method(i).Name()] = true
					}
				}
			}
			return true
		})
	}
	for _, f := range t.pkg.Syntax {
		fname := t.fset.Position(f.Pos()).Filename
		if isTestFile(fname) {
			continue
		}
		for _, d := range f.Decls {
			fd, ok := d.(*ast.FuncDecl)
			if !ok || fd.Body == nil {
				continue
			}
			obj, _ := t.info.Defs[fd.Name].(*types.Func)
			if obj == nil {
				continue
			}
			fi := &funcInfo{decl: fd, obj: obj, paramIdx: map[*types.Var]int{}}
			sig := obj.Type().(*types.Signature)
			fi.name = fd.Name.Name
			if r := sig.Recv(); r != nil {
				fi.params = append(fi.params, r)
				rt := r.Type()
				if p, ok := rt.(*types.Pointer); ok {
					rt = p.Elem()
				}
				if n, ok := rt.(*types.Named); ok {
					fi.name = n.Obj().Name() + "." + fd.Name.Name
				}
				fi.inInterface = t.ifaceMeths[fd.Name.Name]
			}
			for i := 0; i < sig.Params().Len(); i++ {
				fi.params = append(fi.params, sig.Params().At(i))
			}
			for i, p := range fi.params {
				fi.paramIdx[p] = i
			}
			fi.results = sig.Results()
			fi.exported = ast.IsExported(fd.Name.Name)
			ast.Inspect(fd.Body, func(n ast.Node) bool {
				if b, ok := n.(*ast.BranchStmt); ok && b.Tok == token.GOTO {
					fi.hasGoto = true
				}
				return true
			})
			t.funcs = append(t.funcs, fi)
			t.funcOf[obj] = fi
		}
	}
	// Functions used as values (anything but the callee of a call).
	for _, f := range t.pkg.Syntax {
		callFun := map[*ast.Ident]bool{}
		ast.Inspect(f, func(n ast.Node) bool {
			if c, ok := n.(*ast.CallExpr); ok {
				switch fn := unparen(c.Fun).(type) {
				case *ast.Ident:
					callFun[fn] = true
				case *ast.SelectorExpr:
					callFun[fn.Sel] = true
				}
			}
			return true
		})
		isTest := isTestFile(t.fset.Position(f.Pos()).Filename)
		ast.Inspect(f, func(n ast.Node) bool {
			id, ok := n.(*ast.Ident)
			if !ok {
				return true
			}
			fo, ok := t.info.Uses[id].(*types.Func)
			if !ok {
				return true
			}
			fi := t.funcOf[fo]
			if fi == nil {
				return true
			}
			if !callFun[id] && !isTest {
				fi.usedAsValue = true
			}
			return true
		})
	}
	sort.SliceStable(t.funcs, func(i, j int) bool {
		return t.funcs[i].decl.Pos() < t.funcs[j].decl.Pos()
	})
}

func unparen(e ast.Expr) ast.Expr {
	for {
		p, ok := e.(*ast.ParenExpr)
		if !ok {
			return e
		}
		e = p.X
	}
}
