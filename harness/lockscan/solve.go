package main

import (
	"fmt"
	"go/ast"
	"go/token"
	"go/types"
	"io"
	"os"
	"sort"
	"strings"
)

type finalAccess struct {
	rec    *accessRec
	where  string
	fn     string
	field  string
	kind   string
	just   string
	detail string
}

func lockedName(fi *funcInfo) bool { return strings.HasSuffix(fi.decl.Name.Name, "LOCKED") }

// solve fills in the requirements of every assumption from the records of
// the scans and computes their greatest fixed point.
func (t *tool) solve() {
	callsOf := map[*funcInfo][]*callRec{}
	for _, c := range t.calls {
		callsOf[c.callee] = append(callsOf[c.callee], c)
	}
	for _, fi := range t.funcs {
		fi.callSites = len(callsOf[fi])
		sort.Slice(callsOf[fi], func(i, j int) bool { return callsOf[fi][i].pos < callsOf[fi][j].pos })
	}
	staticFails := func(fi *funcInfo) []req {
		var out []req
		if fi.exported {
			out = append(out, req{fail: true, pos: fi.decl.Pos(), why: "exported: it can be called from outside the package"})
		}
		if fi.usedAsValue {
			out = append(out, req{fail: true, pos: fi.decl.Pos(), why: "used as a function value: not all calls are visible"})
		}
		if fi.inInterface {
			out = append(out, req{fail: true, pos: fi.decl.Pos(), why: "may be called through an interface of this package"})
		}
		if fi.hasGoto {
			out = append(out, req{fail: true, pos: fi.decl.Pos(), why: "uses goto"})
		}
		if fi.name == "init" || fi.name == "main" {
			out = append(out, req{fail: true, pos: fi.decl.Pos(), why: "called by the runtime"})
		}
		return out
	}
	argReq := func(c *callRec, idx int) req {
		a, ok := c.args[idx]
		where := fmt.Sprintf("call at %s in %s", t.pos(c.pos), c.caller.name)
		if c.mode != "" {
			return req{fail: true, pos: c.pos, why: where + " is a " + c.mode + " statement: it does not run inside the caller's critical section"}
		}
		if !ok || !a.protected {
			return req{fail: true, pos: c.pos, why: where + ": " + a.desc}
		}
		return req{deps: a.deps, pos: c.pos, why: where}
	}

	// paramHeld
	for _, fi := range t.funcs {
		for idx, p := range fi.params {
			if t.trackedPtr(p.Type()) == nil {
				continue
			}
			a := t.paramHeld(fi, idx)
			a.reqs = append(a.reqs, staticFails(fi)...)
			for _, c := range callsOf[fi] {
				a.reqs = append(a.reqs, argReq(c, idx))
			}
			if len(callsOf[fi]) == 0 && !lockedName(fi) {
				a.reqs = append(a.reqs, req{fail: true, pos: fi.decl.Pos(), why: "no call site in the package and no LOCKED suffix"})
			}
		}
	}
	// condHeld
	seenCond := map[string]bool{}
	for _, cp := range t.condPats {
		a := t.condHeld(cp.fn, cp.idx, cp.boolIdx)
		if seenCond[a.key] {
			continue
		}
		seenCond[a.key] = true
		a.reqs = append(a.reqs, staticFails(cp.fn)...)
		for _, c := range callsOf[cp.fn] {
			if b := c.bools[cp.boolIdx]; b != nil && !*b {
				a.reqs = append(a.reqs, req{pos: c.pos, why: fmt.Sprintf("call at %s passes false", t.pos(c.pos))})
				continue
			}
			if c.mode != "" {
				a.reqs = append(a.reqs, req{fail: true, pos: c.pos, why: "go/defer call not passing constant false"})
				continue
			}
			a.reqs = append(a.reqs, argReq(c, cp.idx))
		}
	}
	// cbHeld
	for _, a := range append([]*assumption(nil), t.assumps...) {
		if !strings.HasPrefix(a.key, "cb/") {
			continue
		}
		var fi *funcInfo
		var cbIdx, idx int
		for _, f := range t.funcs {
			for ci := range f.params {
				for pi := range f.params {
					if a.key == fmt.Sprintf("cb/%s/%d/%d", f.name, ci, pi) {
						fi, cbIdx, idx = f, ci, pi
					}
				}
			}
		}
		if fi == nil {
			a.reqs = append(a.reqs, req{fail: true, why: "callee not found"})
			continue
		}
		cbVar := fi.params[cbIdx]
		if _, ok := cbVar.Type().Underlying().(*types.Signature); !ok {
			a.reqs = append(a.reqs, req{fail: true, why: "not a func parameter"})
			continue
		}
		invokes := map[*ast.Ident]bool{}
		for node, inv := range t.cbInvokes {
			if inv.fn != fi || inv.cbIdx != cbIdx {
				continue
			}
			call := node.(*ast.CallExpr)
			invokes[unparen(call.Fun).(*ast.Ident)] = true
			where := "invocation at " + t.pos(inv.pos)
			if inv.inLit || inv.mode != "" {
				a.reqs = append(a.reqs, req{fail: true, pos: inv.pos, why: where + " is in a closure or a go/defer statement"})
				continue
			}
			h := inv.held[idx]
			if !h.protected {
				a.reqs = append(a.reqs, req{fail: true, pos: inv.pos, why: where + ": " + h.desc})
				continue
			}
			a.reqs = append(a.reqs, req{deps: h.deps, pos: inv.pos, why: where})
		}
		// any other use of the parameter (stored, passed on, ...) defeats
		// the reasoning; comparisons with nil are fine.
		nilCmp := map[*ast.Ident]bool{}
		ast.Inspect(fi.decl.Body, func(n ast.Node) bool {
			if b, ok := n.(*ast.BinaryExpr); ok && (b.Op == token.EQL || b.Op == token.NEQ) {
				for _, pr := range [][2]ast.Expr{{b.X, b.Y}, {b.Y, b.X}} {
					if id, ok := unparen(pr[0]).(*ast.Ident); ok {
						if nid, ok := unparen(pr[1]).(*ast.Ident); ok {
							if _, isNil := t.info.Uses[nid].(*types.Nil); isNil {
								nilCmp[id] = true
							}
						}
					}
				}
			}
			return true
		})
		ast.Inspect(fi.decl.Body, func(n ast.Node) bool {
			if id, ok := n.(*ast.Ident); ok && t.info.Uses[id] == cbVar && !invokes[id] && !nilCmp[id] {
				a.reqs = append(a.reqs, req{fail: true, pos: id.Pos(),
					why: fmt.Sprintf("%s is used other than by a direct call at %s", cbVar.Name(), t.pos(id.Pos()))})
			}
			return true
		})
		if _, assigned := fi.paramIdx[cbVar]; assigned {
			// reassignment of the parameter shows up as a non-call use above
		}
	}
	// freshRet
	for _, a := range append([]*assumption(nil), t.assumps...) {
		if !strings.HasPrefix(a.key, "fresh/") {
			continue
		}
		name := strings.TrimPrefix(a.key, "fresh/")
		n := 0
		for _, r := range t.returns {
			if r.fn.name != name {
				continue
			}
			n++
			if !r.ok {
				a.reqs = append(a.reqs, req{fail: true, pos: r.pos, why: "return at " + t.pos(r.pos) + " " + r.why})
			} else {
				a.reqs = append(a.reqs, req{deps: r.deps, pos: r.pos})
			}
		}
		if n == 0 {
			a.reqs = append(a.reqs, req{fail: true, why: "no return statement seen"})
		}
	}
	// atomicOnly: created below for fields with atomic accesses
	byField := map[*types.Var][]*accessRec{}
	for _, r := range t.accesses {
		if r.field != nil {
			byField[r.field] = append(byField[r.field], r)
		}
	}
	for f, recs := range byField {
		hasAtomic := false
		for _, r := range recs {
			if r.atomic {
				hasAtomic = true
			}
		}
		if !hasAtomic {
			continue
		}
		a := t.atomicOnly(f)
		for _, r := range recs {
			switch {
			case r.atomic, r.lit:
			case r.st != nil && r.st.kind == kExcl:
				a.reqs = append(a.reqs, req{deps: r.st.deps, pos: r.pos})
			default:
				a.reqs = append(a.reqs, req{fail: true, pos: r.pos, why: "plain access at " + t.pos(r.pos)})
			}
		}
	}

	// Child objects have no lock of their own: handing one to a function
	// that locks its parameter's own mutex would "protect" it with a mutex
	// nobody else uses.
	for changed := true; changed; {
		changed = false
		for _, c := range t.calls {
			for j, a := range c.args {
				if a.callerParam > 0 && t.locksParam[fmt.Sprintf("%s/%d", c.callee.name, j)] {
					k := fmt.Sprintf("%s/%d", c.caller.name, a.callerParam-1)
					if !t.locksParam[k] {
						t.locksParam[k] = true
						changed = true
					}
				}
			}
		}
	}
	for node, c := range t.calls {
		for j, a := range c.args {
			if a.derived && t.locksParam[fmt.Sprintf("%s/%d", c.callee.name, j)] {
				t.accesses[node] = &accessRec{node: node, pos: c.pos, fn: c.caller,
					owner: t.trackedPtr(c.callee.params[j].Type()), pseudo: "child-object-passed-to-a-function-that-locks-its-own-mutex",
					base: c.callee.name, write: true}
			}
		}
	}

	// greatest fixed point
	for changed := true; changed; {
		changed = false
		for _, a := range t.assumps {
			if !a.valid {
				continue
			}
			for _, r := range a.reqs {
				bad := ""
				if r.fail {
					bad = r.why
				} else {
					for _, d := range r.deps {
						if !t.assumps[d].valid {
							bad = r.why + " relies on: " + t.assumps[d].desc + " -- which fails: " + t.assumps[d].why
							break
						}
					}
				}
				if bad != "" {
					a.valid = false
					a.why = bad
					changed = true
					break
				}
			}
		}
	}

	// classification
	var all []*finalAccess
	for _, r := range t.accesses {
		fa := &finalAccess{rec: r, where: t.pos(r.pos), fn: r.fn.name}
		if r.inLit {
			fa.fn += " (func literal)"
		}
		if r.field != nil {
			fa.field = r.owner.name + "." + r.field.Name()
		} else {
			fa.field = r.owner.name + ".m"
		}
		fa.kind = "r"
		if r.write {
			fa.kind = "w"
		}
		switch {
		case r.pseudo != "":
			fa.kind = "!"
			fa.just = "JNone"
			fa.detail = r.pseudo + " on " + r.base
		case r.lit:
			fa.just = "JConstructor"
			fa.detail = "field of a composite literal"
		case r.atomic:
			if t.atomicOnly(r.field).valid {
				fa.just = "JAtomic"
			} else {
				fa.just = "JNone"
				fa.detail = "atomic access, but the field is also accessed non-atomically: " + t.atomicOnly(r.field).why
			}
		case r.st == nil:
			fa.just = "JNone"
			fa.detail = "the lock protecting " + r.base + " is not held here"
		default:
			bad := ""
			for _, d := range r.st.deps {
				if !t.assumps[d].valid {
					bad = "needs: " + t.assumps[d].desc + " -- fails: " + t.assumps[d].why
					break
				}
			}
			if bad != "" {
				fa.just = "JNone"
				fa.detail = bad
			} else {
				fa.just = r.st.kind.just()
				fa.detail = r.base + ": " + r.st.kind.String()
				if r.st.derived {
					fa.detail += ", child object protected by the parent's lock"
				}
				if r.st.kind == kParam {
					if lockedName(r.fn) {
						fa.detail += fmt.Sprintf(" (LOCKED suffix; %d call sites checked)", r.fn.callSites)
					} else {
						fa.detail += fmt.Sprintf(" (inferred: all %d call sites hold the lock)", r.fn.callSites)
					}
				}
			}
		}
		if r.note != "" {
			fa.detail += " [" + r.note + "]"
		}
		all = append(all, fa)
	}
	sort.Slice(all, func(i, j int) bool {
		pi, pj := t.fset.Position(all[i].rec.pos), t.fset.Position(all[j].rec.pos)
		if pi.Filename != pj.Filename {
			return pi.Filename < pj.Filename
		}
		if pi.Line != pj.Line {
			return pi.Line < pj.Line
		}
		return pi.Column < pj.Column
	})

	// Fields that are never written after construction need no lock.
	for _, sp := range t.structs {
		for _, f := range sp.after {
			immutable := true
			n := 0
			for _, fa := range all {
				if fa.rec.field != f {
					continue
				}
				n++
				if fa.rec.atomic {
					immutable = false
				}
				if fa.rec.write && fa.just != "JConstructor" {
					immutable = false
				}
			}
			if immutable {
				sp.immutable[f] = fmt.Sprintf("%d accesses, written only while the object is being constructed", n)
			}
		}
	}
	for _, fa := range all {
		if fa.rec.field != nil {
			if _, imm := fa.rec.owner.immutable[fa.rec.field]; imm {
				continue
			}
		}
		t.final = append(t.final, fa)
	}
	_ = all
}

var justOrder = []string{"JHolds", "JLockedFunc", "JGotLockParam", "JCallbackUnderLock", "JConstructor", "JAtomic", "JNone"}

func (t *tool) report(w io.Writer) {
	for _, sp := range t.structs {
		var prot, imm []string
		for _, f := range sp.after {
			if why, ok := sp.immutable[f]; ok {
				imm = append(imm, fmt.Sprintf("%s (%s)", f.Name(), why))
			} else {
				prot = append(prot, f.Name())
			}
		}
		fmt.Fprintf(w, "STRUCT %s mutex %s\n", sp.name, sp.mutex.Name())
		fmt.Fprintf(w, "  PROTECTED %s\n", strings.Join(prot, " "))
		for _, s := range imm {
			fmt.Fprintf(w, "  IMMUTABLE %s\n", s)
		}
	}
	fmt.Fprintln(w)
	counts := map[string]int{}
	for _, fa := range t.final {
		counts[fa.just]++
		fmt.Fprintf(w, "%-24s %-44s %-36s %s %-18s %s\n", fa.where, fa.fn, fa.field, fa.kind, fa.just, fa.detail)
	}
	fmt.Fprintln(w)
	if t.verbose {
		for _, a := range t.assumps {
			v := "valid"
			if !a.valid {
				v = "INVALID: " + a.why
			}
			fmt.Fprintf(w, "ASSUMPTION %s: %s\n", a.desc, v)
		}
		fmt.Fprintln(w)
	}
	for _, fi := range t.funcs {
		if lockedName(fi) && fi.callSites == 0 {
			fmt.Fprintf(w, "NOTE %s: %s has the LOCKED suffix and no call site in non-test files\n", t.pos(fi.decl.Pos()), fi.name)
		}
	}
	var lines []string
	for s := range t.infos {
		lines = append(lines, "INFO "+s)
	}
	sort.Strings(lines)
	for _, s := range lines {
		fmt.Fprintln(w, s)
	}
	lines = nil
	for s := range t.warnings {
		lines = append(lines, "WARNING "+s)
	}
	sort.Strings(lines)
	for _, s := range lines {
		fmt.Fprintln(w, s)
	}
	fmt.Fprintf(w, "TOTAL %d\n", len(t.final))
	for _, j := range justOrder {
		fmt.Fprintf(w, "COUNT %-20s %d\n", j, counts[j])
	}
	fmt.Fprintf(w, "UNJUSTIFIED %d\n", counts["JNone"])
}

func (t *tool) writeCoq(path string) error {
	var b strings.Builder
	b.WriteString("(* Generated by lockscan -- do not edit.\n")
	b.WriteString("   The table of every access to a lock-protected field of moss's\n")
	b.WriteString("   collection and Store structs, with the justification found for it. *)\n\n")
	b.WriteString("From Coq Require Import List.\nImport ListNotations.\nFrom Moss Require Import Locks.\n\n")
	fieldNo := map[string]int{}
	var fieldNames []string
	for _, sp := range t.structs {
		for _, f := range sp.after {
			if _, imm := sp.immutable[f]; imm {
				continue
			}
			fieldNo[sp.name+"."+f.Name()] = len(fieldNames)
			fieldNames = append(fieldNames, sp.name+"."+f.Name())
		}
		fieldNo[sp.name+".m"] = len(fieldNames)
		fieldNames = append(fieldNames, sp.name+".m")
	}
	funcNo := map[string]int{}
	var funcNames []string
	for _, fa := range t.final {
		if _, ok := funcNo[fa.fn]; !ok {
			funcNo[fa.fn] = len(funcNames)
			funcNames = append(funcNames, fa.fn)
		}
	}
	b.WriteString("(* Fields:\n")
	for i, n := range fieldNames {
		fmt.Fprintf(&b, "   %3d  %s\n", i, n)
	}
	b.WriteString("   Functions:\n")
	for i, n := range funcNames {
		fmt.Fprintf(&b, "   %3d  %s\n", i, n)
	}
	b.WriteString("*)\n\n")
	b.WriteString("Definition current_table : list access := [\n")
	for i, fa := range t.final {
		sep := ";"
		if i == len(t.final)-1 {
			sep = ""
		}
		w := "false"
		if fa.kind != "r" {
			w = "true"
		}
		fmt.Fprintf(&b, "  Access %d %d %s %s%s (* %s %s %s %s *)\n",
			fieldNo[fa.field], funcNo[fa.fn], w, fa.just, sep, fa.where, fa.fn, fa.field, fa.kind)
	}
	b.WriteString("].\n\n")
	fmt.Fprintf(&b, "Example table_size : length current_table = %d.\nProof. vm_compute. reflexivity. Qed.\n\n", len(t.final))
	b.WriteString("Example table_ok : check_table current_table = true.\nProof. vm_compute. reflexivity. Qed.\n")
	return os.WriteFile(path, []byte(b.String()), 0644)
}
