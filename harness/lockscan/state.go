package main

import (
	"fmt"
	"go/ast"
	"go/token"
	"go/types"
	"sort"
	"strings"
)

// kind says why the object a variable points to is protected at a program
// point.
type kind int

const (
	kLocal    kind = iota // this function body called X.m.Lock() and has not unlocked
	kParam                // parameter/receiver: every caller holds the lock (assumption)
	kCond                 // `if !gotLock { X.m.Lock() }`: held here if callers passing true hold it
	kCallback             // inside a func literal that the callee invokes under the lock
	kExcl                 // freshly allocated here and not published yet
)

func (k kind) String() string {
	return [...]string{"local-lock", "caller-holds", "lock-unless-param", "callback", "fresh"}[k]
}

func (k kind) just() string {
	return [...]string{"JHolds", "JLockedFunc", "JGotLockParam", "JCallbackUnderLock", "JConstructor"}[k]
}

// status of one variable.  roots identifies the group of variables that
// lose their status together (on Unlock of / escape of any root).
type status struct {
	kind    kind
	roots   []*types.Var
	deps    []int      // ids of the assumptions this status relies on
	derived bool       // reached through a child field (collection.childCollections)
	cond    *types.Var // kCond: the bool parameter
}

func (s *status) clone() *status {
	c := *s
	c.roots = append([]*types.Var(nil), s.roots...)
	c.deps = append([]int(nil), s.deps...)
	return &c
}

func (s *status) sharesRoot(o *status) bool {
	for _, a := range s.roots {
		for _, b := range o.roots {
			if a == b {
				return true
			}
		}
	}
	return false
}

func unionVars(a, b []*types.Var) []*types.Var {
	out := append([]*types.Var(nil), a...)
	for _, v := range b {
		found := false
		for _, w := range out {
			if w == v {
				found = true
			}
		}
		if !found {
			out = append(out, v)
		}
	}
	sort.Slice(out, func(i, j int) bool { return out[i].Pos() < out[j].Pos() })
	return out
}

func unionInts(a, b []int) []int {
	m := map[int]bool{}
	for _, x := range a {
		m[x] = true
	}
	for _, x := range b {
		m[x] = true
	}
	out := make([]int, 0, len(m))
	for x := range m {
		out = append(out, x)
	}
	sort.Ints(out)
	return out
}

func (s *status) key() string {
	var b strings.Builder
	fmt.Fprintf(&b, "%d/%v/", s.kind, s.derived)
	for _, r := range s.roots {
		fmt.Fprintf(&b, "%d,", r.Pos())
	}
	b.WriteString("/")
	for _, d := range s.deps {
		fmt.Fprintf(&b, "%d,", d)
	}
	if s.cond != nil {
		fmt.Fprintf(&b, "/%d", s.cond.Pos())
	}
	return b.String()
}

// state maps variables to their status; a nil state means "unreachable".
type state map[*types.Var]*status

func (st state) clone() state {
	if st == nil {
		return nil
	}
	c := make(state, len(st))
	for k, v := range st {
		c[k] = v.clone()
	}
	return c
}

// meet is the join of two control-flow paths: a variable stays protected
// only if it is protected, for the same kind of reason, on both.
func meet(a, b state) state {
	if a == nil {
		return b.clone()
	}
	if b == nil {
		return a.clone()
	}
	out := state{}
	for v, sa := range a {
		sb, ok := b[v]
		if !ok || sa.kind != sb.kind || sa.cond != sb.cond {
			continue
		}
		m := sa.clone()
		m.roots = unionVars(sa.roots, sb.roots)
		m.deps = unionInts(sa.deps, sb.deps)
		m.derived = sa.derived || sb.derived
		out[v] = m
	}
	return out
}

func equalState(a, b state) bool {
	if (a == nil) != (b == nil) {
		return false
	}
	if len(a) != len(b) {
		return false
	}
	for v, sa := range a {
		sb, ok := b[v]
		if !ok || sa.key() != sb.key() {
			return false
		}
	}
	return true
}

// killGroup removes every variable that shares a root with s.
func (st state) killGroup(s *status) {
	for v, o := range st {
		if o.sharesRoot(s) {
			delete(st, v)
		}
	}
}

// ---------------------------------------------------------------------
// Assumptions: facts about callers that are checked globally after all
// function bodies have been scanned (greatest fixed point).

type req struct {
	fail bool
	deps []int
	pos  token.Pos
	why  string
}

type assumption struct {
	id    int
	key   string
	desc  string
	reqs  []req
	valid bool
	why   string // why it is invalid
}

func (t *tool) assume(key, desc string) *assumption {
	if a, ok := t.assumpKey[key]; ok {
		return a
	}
	a := &assumption{id: len(t.assumps), key: key, desc: desc, valid: true}
	t.assumps = append(t.assumps, a)
	t.assumpKey[key] = a
	return a
}

func (t *tool) paramHeld(fi *funcInfo, idx int) *assumption {
	return t.assume(fmt.Sprintf("param/%s/%d", fi.name, idx),
		fmt.Sprintf("every call of %s has the lock protecting %s held", fi.name, fi.params[idx].Name()))
}

func (t *tool) condHeld(fi *funcInfo, idx, boolIdx int) *assumption {
	return t.assume(fmt.Sprintf("cond/%s/%d/%d", fi.name, idx, boolIdx),
		fmt.Sprintf("every call of %s passing %s=true has the lock protecting %s held",
			fi.name, fi.params[boolIdx].Name(), fi.params[idx].Name()))
}

func (t *tool) cbHeld(fi *funcInfo, cbIdx, idx int) *assumption {
	return t.assume(fmt.Sprintf("cb/%s/%d/%d", fi.name, cbIdx, idx),
		fmt.Sprintf("%s only invokes its parameter %s directly, with the lock protecting %s held",
			fi.name, fi.params[cbIdx].Name(), fi.params[idx].Name()))
}

func (t *tool) freshRet(fi *funcInfo) *assumption {
	return t.assume("fresh/"+fi.name,
		fmt.Sprintf("%s returns a freshly allocated, unpublished object", fi.name))
}

func (t *tool) atomicOnly(f *types.Var) *assumption {
	return t.assume(fmt.Sprintf("atomic/%s/%d", f.Name(), f.Pos()),
		fmt.Sprintf("field %s is only accessed through sync/atomic", f.Name()))
}

// ---------------------------------------------------------------------
// Records produced by the scans.

type accessRec struct {
	node   ast.Node
	pos    token.Pos
	fn     *funcInfo
	inLit  bool
	owner  *structSpec
	field  *types.Var // nil for pseudo accesses
	pseudo string     // e.g. "unbalanced-unlock"
	write  bool
	base   string
	st     *status // status of the base variable, nil if none
	lit    bool    // key of a composite literal
	atomic bool
	note   string
}

type argInfo struct {
	isNil       bool
	protected   bool
	deps        []int
	desc        string
	derived     bool // the argument is a child object (protected by its parent's lock)
	callerParam int  // 1 + index of the caller's parameter passed unchanged, or 0
}

type callRec struct {
	pos    token.Pos
	caller *funcInfo
	callee *funcInfo
	mode   string          // "", "go", "defer"
	args   map[int]argInfo // tracked params of the callee
	bools  map[int]*bool   // constant bool arguments
}

type cbInvoke struct {
	pos   token.Pos
	fn    *funcInfo
	cbIdx int
	held  map[int]argInfo // tracked params of fn at this point
	inLit bool
	mode  string
}

type retRec struct {
	pos  token.Pos
	fn   *funcInfo
	ok   bool
	deps []int
	why  string
}

type condPat struct {
	fn      *funcInfo
	idx     int
	boolIdx int
}
