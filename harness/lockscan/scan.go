package main

import (
	"fmt"
	"go/ast"
	"go/constant"
	"go/token"
	"go/types"
	"strings"
)

type loopCtx struct {
	label     string
	isLoop    bool
	breaks    []state
	continues []state
}

type scanner struct {
	t        *tool
	fn       *funcInfo
	litDepth int
	noTrack  bool // function uses goto: nothing is tracked

	poisoned       map[*types.Var]bool // assigned in a closure or address taken: never tracked
	captured       map[*types.Var]bool // referenced by a closure: never "fresh"
	assignedParams map[*types.Var]bool

	loops        []*loopCtx
	pendingLabel string
}

func (t *tool) scanAll() {
	for _, fi := range t.funcs {
		t.scanFunc(fi)
	}
}

func (t *tool) scanFunc(fi *funcInfo) {
	s := &scanner{t: t, fn: fi,
		poisoned:       map[*types.Var]bool{},
		captured:       map[*types.Var]bool{},
		assignedParams: map[*types.Var]bool{},
	}
	s.prepass()
	st := state{}
	if fi.hasGoto {
		s.noTrack = true
		t.warn(fi.decl.Pos(), "%s uses goto: no lock state is tracked in it", fi.name)
	} else {
		for i, p := range fi.params {
			if t.trackedPtr(p.Type()) == nil || s.poisoned[p] || p.Name() == "" || p.Name() == "_" {
				continue
			}
			st[p] = &status{kind: kParam, roots: []*types.Var{p}, deps: []int{t.paramHeld(fi, i).id}}
		}
	}
	s.block(fi.decl.Body.List, st)
}

// trackable: only local variables (parameters included) that are never
// assigned in a closure and never have their address taken carry a status.
func (s *scanner) trackable(v *types.Var) bool {
	if v == nil || s.noTrack || s.poisoned[v] || v.IsField() {
		return false
	}
	if v.Pkg() == nil || v.Parent() == nil || v.Parent() == v.Pkg().Scope() {
		return false // package-level variable
	}
	return true
}

func (s *scanner) varOf(id *ast.Ident) *types.Var {
	if id == nil {
		return nil
	}
	if v, ok := s.t.info.Uses[id].(*types.Var); ok {
		return v
	}
	if v, ok := s.t.info.Defs[id].(*types.Var); ok {
		return v
	}
	return nil
}

// prepass finds the variables that cannot be tracked flow-sensitively.
func (s *scanner) prepass() {
	body := s.fn.decl.Body
	lhsIdents := func(n ast.Node, f func(*ast.Ident)) {
		switch n := n.(type) {
		case *ast.AssignStmt:
			for _, l := range n.Lhs {
				if id, ok := unparen(l).(*ast.Ident); ok {
					f(id)
				}
			}
		case *ast.IncDecStmt:
			if id, ok := unparen(n.X).(*ast.Ident); ok {
				f(id)
			}
		case *ast.RangeStmt:
			if id, ok := n.Key.(*ast.Ident); ok {
				f(id)
			}
			if id, ok := n.Value.(*ast.Ident); ok {
				f(id)
			}
		}
	}
	ast.Inspect(body, func(n ast.Node) bool {
		switch n := n.(type) {
		case *ast.UnaryExpr:
			if n.Op == token.AND {
				if id, ok := unparen(n.X).(*ast.Ident); ok {
					if v := s.varOf(id); v != nil {
						s.poisoned[v] = true
					}
				}
			}
		case *ast.FuncLit:
			outside := func(v *types.Var) bool { return v.Pos() < n.Pos() || v.Pos() > n.End() }
			ast.Inspect(n.Body, func(m ast.Node) bool {
				if id, ok := m.(*ast.Ident); ok {
					if v, ok := s.t.info.Uses[id].(*types.Var); ok && !v.IsField() && outside(v) {
						s.captured[v] = true
					}
				}
				lhsIdents(m, func(id *ast.Ident) {
					if v, ok := s.t.info.Uses[id].(*types.Var); ok && outside(v) {
						s.poisoned[v] = true
					}
				})
				return true
			})
		}
		lhsIdents(n, func(id *ast.Ident) {
			if v, ok := s.t.info.Uses[id].(*types.Var); ok {
				if _, isParam := s.fn.paramIdx[v]; isParam {
					s.assignedParams[v] = true
				}
			}
		})
		return true
	})
}

// ---------------------------------------------------------------------
// Statements.

func (s *scanner) block(list []ast.Stmt, st state) state {
	dead := false
	for _, x := range list {
		if st == nil {
			// Unreachable code: still record its accesses, with no
			// protection at all.
			dead = true
			st = state{}
		}
		st = s.stmt(x, st)
		if dead {
			st = nil
		}
	}
	return st
}

func (s *scanner) takeLabel() string {
	l := s.pendingLabel
	s.pendingLabel = ""
	return l
}

func (s *scanner) stmt(n ast.Stmt, st state) state {
	if st == nil {
		st = state{}
	}
	if _, ok := n.(*ast.LabeledStmt); !ok {
		switch n.(type) {
		case *ast.ForStmt, *ast.RangeStmt, *ast.SwitchStmt, *ast.TypeSwitchStmt, *ast.SelectStmt:
		default:
			s.pendingLabel = ""
		}
	}
	switch n := n.(type) {
	case nil:
		return st
	case *ast.EmptyStmt:
		return st
	case *ast.LabeledStmt:
		s.pendingLabel = n.Label.Name
		return s.stmt(n.Stmt, st)
	case *ast.BlockStmt:
		return s.block(n.List, st)
	case *ast.ExprStmt:
		if call, ok := unparen(n.X).(*ast.CallExpr); ok {
			if base, op, owner := s.mutexCall(call); owner != nil {
				s.lockOp(call, base, op, owner, st, false)
				return st
			}
			if id, ok := unparen(call.Fun).(*ast.Ident); ok {
				if b, ok := s.t.info.Uses[id].(*types.Builtin); ok && b.Name() == "panic" {
					s.exprs(call.Args, st, nil)
					return nil
				}
			}
		}
		s.exprs([]ast.Expr{n.X}, st, nil)
		return st
	case *ast.SendStmt:
		s.exprs([]ast.Expr{n.Chan, n.Value}, st, nil)
		return st
	case *ast.IncDecStmt:
		s.escapes(n.X, st, nil)
		s.lhs(n.X, st)
		return st
	case *ast.AssignStmt:
		s.assign(n.Lhs, n.Rhs, n.Tok, st)
		return st
	case *ast.DeclStmt:
		gd, ok := n.Decl.(*ast.GenDecl)
		if !ok {
			return st
		}
		for _, sp := range gd.Specs {
			vs, ok := sp.(*ast.ValueSpec)
			if !ok {
				continue
			}
			var lhs []ast.Expr
			for _, id := range vs.Names {
				lhs = append(lhs, id)
			}
			if len(vs.Values) > 0 {
				s.assign(lhs, vs.Values, token.DEFINE, st)
			} else {
				for _, id := range vs.Names {
					if v := s.varOf(id); v != nil {
						delete(st, v)
					}
				}
			}
		}
		return st
	case *ast.GoStmt:
		s.goDefer(n.Call, st, "go")
		return st
	case *ast.DeferStmt:
		if base, op, owner := s.mutexCall(n.Call); owner != nil {
			s.lockOp(n.Call, base, op, owner, st, true)
			return st
		}
		s.goDefer(n.Call, st, "defer")
		return st
	case *ast.ReturnStmt:
		if s.litDepth == 0 {
			s.recordReturn(n, st)
		}
		s.exprs(n.Results, st, nil)
		return nil
	case *ast.BranchStmt:
		return s.branch(n, st)
	case *ast.IfStmt:
		return s.ifStmt(n, st)
	case *ast.ForStmt:
		label := s.takeLabel()
		if n.Init != nil {
			st = s.stmt(n.Init, st)
			if st == nil {
				st = state{}
			}
		}
		head := func(h state) state {
			if n.Cond != nil {
				s.exprs([]ast.Expr{n.Cond}, h, nil)
			}
			return h
		}
		return s.loop(label, st, head, n.Body, n.Post, n.Cond != nil)
	case *ast.RangeStmt:
		label := s.takeLabel()
		s.exprs([]ast.Expr{n.X}, st, nil)
		head := func(h state) state {
			s.rangeAssign(n, h)
			return h
		}
		return s.loop(label, st, head, n.Body, nil, true)
	case *ast.SwitchStmt:
		label := s.takeLabel()
		if n.Init != nil {
			st = s.stmt(n.Init, st)
			if st == nil {
				st = state{}
			}
		}
		if n.Tag != nil {
			s.exprs([]ast.Expr{n.Tag}, st, nil)
		}
		return s.clauses(label, n.Body, st)
	case *ast.TypeSwitchStmt:
		label := s.takeLabel()
		if n.Init != nil {
			st = s.stmt(n.Init, st)
			if st == nil {
				st = state{}
			}
		}
		switch a := n.Assign.(type) {
		case *ast.ExprStmt:
			s.exprs([]ast.Expr{a.X}, st, nil)
		case *ast.AssignStmt:
			s.exprs(a.Rhs, st, nil)
		}
		return s.clauses(label, n.Body, st)
	case *ast.SelectStmt:
		label := s.takeLabel()
		return s.clauses(label, n.Body, st)
	default:
		s.t.warn(n.Pos(), "unsupported statement %T", n)
		return st
	}
}

func (s *scanner) branch(n *ast.BranchStmt, st state) state {
	find := func(needLoop bool) *loopCtx {
		for i := len(s.loops) - 1; i >= 0; i-- {
			c := s.loops[i]
			if n.Label != nil {
				if c.label == n.Label.Name {
					return c
				}
				continue
			}
			if !needLoop || c.isLoop {
				return c
			}
		}
		return nil
	}
	switch n.Tok {
	case token.BREAK:
		if c := find(false); c != nil {
			c.breaks = append(c.breaks, st.clone())
		}
		return nil
	case token.CONTINUE:
		if c := find(true); c != nil {
			c.continues = append(c.continues, st.clone())
		}
		return nil
	case token.GOTO:
		return nil
	case token.FALLTHROUGH:
		return st
	}
	return st
}

func (s *scanner) loop(label string, entry state, head func(state) state,
	body *ast.BlockStmt, post ast.Stmt, exitAtHead bool) state {
	cur := entry.clone()
	if cur == nil {
		cur = state{}
	}
	for iter := 0; ; iter++ {
		if iter > 100 {
			panic("lockscan: loop analysis does not converge")
		}
		ctx := &loopCtx{label: label, isLoop: true}
		s.loops = append(s.loops, ctx)
		hs := head(cur.clone())
		out := s.block(body.List, hs.clone())
		for _, c := range ctx.continues {
			out = meet(out, c)
		}
		if post != nil && out != nil {
			out = s.stmt(post, out)
		}
		s.loops = s.loops[:len(s.loops)-1]
		next := meet(cur, out)
		if equalState(next, cur) {
			var exit state
			if exitAtHead {
				exit = hs
			}
			for _, b := range ctx.breaks {
				exit = meet(exit, b)
			}
			return exit
		}
		cur = next
	}
}

func (s *scanner) clauses(label string, body *ast.BlockStmt, st state) state {
	ctx := &loopCtx{label: label}
	s.loops = append(s.loops, ctx)
	var exit, ft state
	hasDefault := false
	for _, c := range body.List {
		var list []ast.Stmt
		in := st.clone()
		switch c := c.(type) {
		case *ast.CaseClause:
			if c.List == nil {
				hasDefault = true
			}
			s.exprs(c.List, in, nil)
			list = c.Body
		case *ast.CommClause:
			if c.Comm == nil {
				hasDefault = true
			} else {
				in = s.stmt(c.Comm, in)
			}
			// A select without default blocks until one case is ready:
			// treat it like a switch with a default for the exit state.
			hasDefault = true
			list = c.Body
		}
		if ft != nil {
			in = meet(in, ft)
			ft = nil
		}
		out := s.block(list, in)
		if len(list) > 0 {
			if b, ok := list[len(list)-1].(*ast.BranchStmt); ok && b.Tok == token.FALLTHROUGH {
				ft = out
				continue
			}
		}
		exit = meet(exit, out)
	}
	s.loops = s.loops[:len(s.loops)-1]
	if !hasDefault || len(body.List) == 0 {
		exit = meet(exit, st)
	}
	for _, b := range ctx.breaks {
		exit = meet(exit, b)
	}
	return exit
}

func (s *scanner) ifStmt(n *ast.IfStmt, st state) state {
	if s.condPattern(n, st) {
		return st
	}
	if n.Init != nil {
		st = s.stmt(n.Init, st)
		if st == nil {
			st = state{}
		}
	}
	s.exprs([]ast.Expr{n.Cond}, st, nil)
	thenOut := s.block(n.Body.List, st.clone())
	var elseOut state
	if n.Else != nil {
		elseOut = s.stmt(n.Else, st.clone())
	} else {
		elseOut = st
	}
	if thenOut == nil && elseOut == nil {
		return nil
	}
	return meet(thenOut, elseOut)
}

// condPattern recognises
//
//	if !gotLock { X.m.Lock() }     and     if !gotLock { X.m.Unlock() }
//
// where gotLock is a bool parameter (never assigned) and X a parameter of
// the enclosing function.
func (s *scanner) condPattern(n *ast.IfStmt, st state) bool {
	if s.noTrack || s.litDepth > 0 || n.Init != nil || n.Else != nil || len(n.Body.List) != 1 {
		return false
	}
	un, ok := unparen(n.Cond).(*ast.UnaryExpr)
	if !ok || un.Op != token.NOT {
		return false
	}
	pid, ok := unparen(un.X).(*ast.Ident)
	if !ok {
		return false
	}
	pv := s.varOf(pid)
	boolIdx, isParam := s.fn.paramIdx[pv]
	if pv == nil || !isParam || s.assignedParams[pv] || s.poisoned[pv] {
		return false
	}
	if b, ok := pv.Type().Underlying().(*types.Basic); !ok || b.Kind() != types.Bool {
		return false
	}
	es, ok := n.Body.List[0].(*ast.ExprStmt)
	if !ok {
		return false
	}
	call, ok := unparen(es.X).(*ast.CallExpr)
	if !ok {
		return false
	}
	base, op, owner := s.mutexCall(call)
	if owner == nil {
		return false
	}
	xid, ok := unparen(base).(*ast.Ident)
	if !ok {
		return false
	}
	xv := s.varOf(xid)
	xIdx, isParam := s.fn.paramIdx[xv]
	if xv == nil || !isParam || s.assignedParams[xv] || s.poisoned[xv] {
		return false
	}
	switch op {
	case "Lock":
		if cur := st[xv]; cur != nil {
			if cur.derived || cur.kind == kLocal {
				return false
			}
			delete(st, xv)
		}
		a := s.t.condHeld(s.fn, xIdx, boolIdx)
		st[xv] = &status{kind: kCond, roots: []*types.Var{xv}, deps: []int{a.id}, cond: pv}
		s.t.condPats[n] = &condPat{fn: s.fn, idx: xIdx, boolIdx: boolIdx}
		return true
	case "Unlock":
		cur := st[xv]
		if cur == nil || cur.kind != kCond || cur.cond != pv || cur.derived {
			return false
		}
		st.killGroup(cur)
		return true
	}
	return false
}

// mutexCall recognises X.m.Lock() / X.m.Unlock() / X.m.TryLock() on the
// mutex of a tracked struct.
func (s *scanner) mutexCall(call *ast.CallExpr) (ast.Expr, string, *structSpec) {
	sel, ok := unparen(call.Fun).(*ast.SelectorExpr)
	if !ok {
		return nil, "", nil
	}
	switch sel.Sel.Name {
	case "Lock", "Unlock", "TryLock":
	default:
		return nil, "", nil
	}
	inner, ok := unparen(sel.X).(*ast.SelectorExpr)
	if !ok {
		return nil, "", nil
	}
	fs := s.t.info.Selections[inner]
	if fs == nil || fs.Kind() != types.FieldVal {
		return nil, "", nil
	}
	mv, _ := fs.Obj().(*types.Var)
	owner := s.t.mutexOwner[mv]
	if owner == nil {
		return nil, "", nil
	}
	return inner.X, sel.Sel.Name, owner
}

func (s *scanner) pseudo(node ast.Node, owner *structSpec, what, base string) {
	s.t.accesses[node] = &accessRec{node: node, pos: node.Pos(), fn: s.fn, inLit: s.litDepth > 0,
		owner: owner, pseudo: what, base: base, write: true}
}

func (s *scanner) lockOp(call *ast.CallExpr, base ast.Expr, op string, owner *structSpec, st state, deferred bool) {
	baseStr := types.ExprString(base)
	s.walk(base, st) // the base may itself contain accesses
	id, ok := unparen(base).(*ast.Ident)
	if !ok {
		s.t.warn(call.Pos(), "%s of %s.m: base is not a plain variable, ignored", op, baseStr)
		if op == "Unlock" {
			s.pseudo(call, owner, "unlock-of-untracked-lock", baseStr)
		}
		return
	}
	v := s.varOf(id)
	if v == nil {
		return
	}
	switch op {
	case "TryLock":
		s.t.warn(call.Pos(), "TryLock on %s.m is not understood, ignored", baseStr)
	case "Lock":
		if deferred {
			s.t.warn(call.Pos(), "deferred Lock of %s.m, ignored", baseStr)
			return
		}
		if s.noTrack {
			return
		}
		if s.poisoned[v] {
			s.t.warn(call.Pos(), "Lock of %s.m: %s is reassigned in a closure or has its address taken, not tracked", baseStr, baseStr)
			return
		}
		if cur := st[v]; cur != nil {
			if cur.derived {
				s.t.warn(call.Pos(), "Lock of %s.m: %s is a child object protected by its parent's lock; its own mutex protects nothing", baseStr, baseStr)
				return
			}
			delete(st, v)
		}
		st[v] = &status{kind: kLocal, roots: []*types.Var{v}}
		if idx, isParam := s.fn.paramIdx[v]; isParam {
			s.t.locksParam[fmt.Sprintf("%s/%d", s.fn.name, idx)] = true
		}
	case "Unlock":
		cur := st[v]
		if cur == nil || cur.kind != kLocal || cur.derived {
			// Unlocking a mutex that this function body did not lock
			// itself: the caller's critical section ends here, which the
			// scan of the caller cannot see.
			s.pseudo(call, owner, "unlock-of-lock-not-taken-here", baseStr)
		}
		if deferred {
			return
		}
		if cur != nil {
			st.killGroup(cur)
		}
	}
}

func (s *scanner) goDefer(call *ast.CallExpr, st state, mode string) {
	s.escapes(call, st, nil)
	s.call(call, st, mode)
}

func (s *scanner) rangeAssign(n *ast.RangeStmt, st state) {
	for _, kv := range []ast.Expr{n.Key, n.Value} {
		if kv == nil {
			continue
		}
		if id, ok := unparen(kv).(*ast.Ident); ok {
			if v := s.varOf(id); v != nil {
				delete(st, v)
			}
		} else {
			s.lhs(kv, st)
		}
	}
	if s.noTrack {
		return
	}
	vid, ok := n.Value.(*ast.Ident)
	if !ok || vid.Name == "_" {
		return
	}
	v := s.varOf(vid)
	if v == nil || s.poisoned[v] {
		return
	}
	if h := s.childSource(n.X, st); h != nil {
		d := h.clone()
		d.derived = true
		st[v] = d
	}
}

// childSource: e is H.childField (or H.childField[k]) with H protected;
// returns H's status.
func (s *scanner) childSource(e ast.Expr, st state) *status {
	e = unparen(e)
	if ix, ok := e.(*ast.IndexExpr); ok {
		e = unparen(ix.X)
	}
	sel, ok := e.(*ast.SelectorExpr)
	if !ok {
		return nil
	}
	fs := s.t.info.Selections[sel]
	if fs == nil || fs.Kind() != types.FieldVal || len(fs.Index()) != 1 {
		return nil
	}
	f, _ := fs.Obj().(*types.Var)
	if f == nil || !s.t.isChildField(f) {
		return nil
	}
	hid, ok := unparen(sel.X).(*ast.Ident)
	if !ok {
		return nil
	}
	hv := s.varOf(hid)
	if hv == nil {
		return nil
	}
	return st[hv]
}

// assign handles assignments and definitions.
func (s *scanner) assign(lhs, rhs []ast.Expr, tok token.Token, st state) {
	pair := func(i int) ast.Expr {
		if len(lhs) == len(rhs) {
			return rhs[i]
		}
		if len(rhs) == 1 && i == 0 {
			return rhs[0]
		}
		return nil
	}
	skip := map[*ast.Ident]bool{}
	type transfer struct {
		v    *types.Var
		into ast.Expr
	}
	var transfers []transfer
	for i, l := range lhs {
		r := pair(i)
		if r == nil {
			continue
		}
		r = unparen(r)
		if lid, ok := unparen(l).(*ast.Ident); ok {
			if lid.Name == "_" {
				continue
			}
			// alias / type assertion of a tracked variable
			switch rr := r.(type) {
			case *ast.Ident:
				skip[rr] = true
			case *ast.TypeAssertExpr:
				if id, ok := unparen(rr.X).(*ast.Ident); ok {
					skip[id] = true
				}
			}
			continue
		}
		// ownership transfer: H.children[k] = v with H protected, v fresh.
		if rid, ok := r.(*ast.Ident); ok && (tok == token.ASSIGN) {
			rv := s.varOf(rid)
			if rv == nil {
				continue
			}
			cur := st[rv]
			if cur == nil || cur.kind != kExcl {
				continue
			}
			if h := s.childSource(l, st); h != nil {
				skip[rid] = true
				transfers = append(transfers, transfer{rv, l})
			}
		}
	}
	for _, r := range rhs {
		s.escapes(r, st, skip)
	}
	for _, l := range lhs {
		if _, ok := unparen(l).(*ast.Ident); !ok {
			s.escapes(l, st, skip)
		}
	}
	for _, r := range rhs {
		s.walk(r, st)
	}
	for _, l := range lhs {
		if _, ok := unparen(l).(*ast.Ident); !ok {
			s.lhs(l, st)
		}
	}
	// New statuses of assigned variables.
	type plan struct {
		v  *types.Var
		ns *status
	}
	var plans []plan
	for i, l := range lhs {
		lid, ok := unparen(l).(*ast.Ident)
		if !ok || lid.Name == "_" {
			continue
		}
		v := s.varOf(lid)
		if v == nil {
			continue
		}
		var ns *status
		if tok == token.ASSIGN || tok == token.DEFINE {
			ns = s.rhsStatus(pair(i), st, v)
		}
		if !s.trackable(v) {
			ns = nil
		}
		plans = append(plans, plan{v, ns})
		if ns == nil {
			// A fresh object copied into a variable that is not tracked:
			// from here on it can be published through that variable.
			var src *ast.Ident
			switch rr := unparen(pair(i)).(type) {
			case *ast.Ident:
				src = rr
			case *ast.TypeAssertExpr:
				src, _ = unparen(rr.X).(*ast.Ident)
			}
			if sv := s.varOf(src); sv != nil {
				if cur := st[sv]; cur != nil && cur.kind == kExcl {
					st.killGroup(cur)
				}
			}
		}
	}
	for _, p := range plans {
		delete(st, p.v)
	}
	for _, p := range plans {
		if p.ns != nil {
			st[p.v] = p.ns
		}
	}
	for _, tr := range transfers {
		h := s.childSource(tr.into, st)
		cur := st[tr.v]
		if h == nil || cur == nil {
			if cur != nil {
				st.killGroup(cur)
			}
			continue
		}
		d := h.clone()
		d.derived = true
		d.deps = unionInts(d.deps, cur.deps)
		// every alias of the transferred object follows it
		for w, o := range st {
			if o.kind == kExcl && o.sharesRoot(cur) && w != tr.v {
				delete(st, w)
			}
		}
		st[tr.v] = d
	}
}

// rhsStatus: the status a variable gets when it is assigned r.
func (s *scanner) rhsStatus(r ast.Expr, st state, v *types.Var) *status {
	if r == nil {
		return nil
	}
	r = unparen(r)
	fresh := func(deps []int) *status {
		if s.captured[v] {
			return nil
		}
		return &status{kind: kExcl, roots: []*types.Var{v}, deps: deps}
	}
	switch r := r.(type) {
	case *ast.Ident:
		if src := s.varOf(r); src != nil {
			if cur := st[src]; cur != nil {
				if cur.kind == kExcl && s.captured[v] {
					return nil
				}
				return cur.clone()
			}
		}
	case *ast.TypeAssertExpr:
		if id, ok := unparen(r.X).(*ast.Ident); ok {
			if src := s.varOf(id); src != nil {
				if cur := st[src]; cur != nil && cur.kind == kExcl && !s.captured[v] {
					return cur.clone()
				}
			}
		}
	case *ast.IndexExpr, *ast.SelectorExpr:
		if _, isIdx := r.(*ast.IndexExpr); !isIdx {
			// H.child where the field itself is a pointer to a child
			sel := r.(*ast.SelectorExpr)
			fs := s.t.info.Selections[sel]
			if fs == nil || s.t.trackedPtr(fs.Type()) == nil {
				return nil
			}
		}
		if h := s.childSource(r, st); h != nil {
			d := h.clone()
			d.derived = true
			return d
		}
	case *ast.UnaryExpr:
		if r.Op == token.AND {
			if cl, ok := unparen(r.X).(*ast.CompositeLit); ok && s.trackedLit(cl) != nil {
				return fresh(nil)
			}
		}
	case *ast.CallExpr:
		if id, ok := unparen(r.Fun).(*ast.Ident); ok {
			if b, ok := s.t.info.Uses[id].(*types.Builtin); ok && b.Name() == "new" && len(r.Args) == 1 {
				if tv, ok := s.t.info.Types[r.Args[0]]; ok {
					if n, ok := tv.Type.(*types.Named); ok && s.t.trackedType[n] != nil {
						return fresh(nil)
					}
				}
				return nil
			}
		}
		if callee := s.staticCallee(r); callee != nil && callee.results.Len() > 0 {
			rt := callee.results.At(0).Type()
			if s.t.trackedPtr(rt) != nil || types.IsInterface(rt) {
				return fresh([]int{s.t.freshRet(callee).id})
			}
		}
	}
	return nil
}

func (s *scanner) trackedLit(cl *ast.CompositeLit) *structSpec {
	tv, ok := s.t.info.Types[cl]
	if !ok {
		return nil
	}
	n, ok := tv.Type.(*types.Named)
	if !ok {
		return nil
	}
	return s.t.trackedType[n]
}

func (s *scanner) staticCallee(call *ast.CallExpr) *funcInfo {
	var id *ast.Ident
	switch f := unparen(call.Fun).(type) {
	case *ast.Ident:
		id = f
	case *ast.SelectorExpr:
		id = f.Sel
	default:
		return nil
	}
	fo, ok := s.t.info.Uses[id].(*types.Func)
	if !ok {
		return nil
	}
	return s.t.funcOf[fo]
}

func (s *scanner) recordReturn(n *ast.ReturnStmt, st state) {
	fi := s.fn
	if fi.results.Len() == 0 {
		return
	}
	rec := &retRec{pos: n.Pos(), fn: fi}
	s.t.returns[n] = rec
	classify := func(v *types.Var) {
		cur := st[v]
		if cur != nil && cur.kind == kExcl && !cur.derived {
			rec.ok = true
			rec.deps = cur.deps
		} else {
			rec.why = "returns " + v.Name() + ", which is not a fresh object here"
		}
	}
	if len(n.Results) == 0 {
		classify(fi.results.At(0))
		return
	}
	r := unparen(n.Results[0])
	switch r := r.(type) {
	case *ast.Ident:
		if _, isNil := s.t.info.Uses[r].(*types.Nil); isNil {
			rec.ok = true
			return
		}
		if v := s.varOf(r); v != nil {
			classify(v)
			return
		}
	case *ast.UnaryExpr:
		if r.Op == token.AND {
			if cl, ok := unparen(r.X).(*ast.CompositeLit); ok && s.trackedLit(cl) != nil {
				rec.ok = true
				return
			}
		}
	case *ast.CallExpr:
		if callee := s.staticCallee(r); callee != nil {
			rec.ok = true
			rec.deps = []int{s.t.freshRet(callee).id}
			return
		}
	}
	rec.why = "returns " + types.ExprString(r)
}

// ---------------------------------------------------------------------
// Expressions.

// exprs evaluates expressions in read context.
func (s *scanner) exprs(list []ast.Expr, st state, skip map[*ast.Ident]bool) {
	for _, e := range list {
		s.escapes(e, st, skip)
	}
	for _, e := range list {
		s.walk(e, st)
	}
}

// escapes ends the "fresh" status of every object that is used other than
// through a field selection.
func (s *scanner) escapes(e ast.Node, st state, skip map[*ast.Ident]bool) {
	if e == nil {
		return
	}
	ast.Inspect(e, func(n ast.Node) bool {
		switch n := n.(type) {
		case *ast.FuncLit:
			return false
		case *ast.SelectorExpr:
			if id, ok := unparen(n.X).(*ast.Ident); ok {
				if fs := s.t.info.Selections[n]; fs != nil && fs.Kind() == types.FieldVal {
					_ = id
					return false
				}
			}
		case *ast.Ident:
			if skip[n] {
				return true
			}
			if v, ok := s.t.info.Uses[n].(*types.Var); ok {
				if cur := st[v]; cur != nil && cur.kind == kExcl {
					st.killGroup(cur)
				}
			}
		}
		return true
	})
}

// lhs evaluates an assignment target.
func (s *scanner) lhs(e ast.Expr, st state) {
	e = unparen(e)
	switch e := e.(type) {
	case *ast.SelectorExpr:
		s.selector(e, st, true, "")
	case *ast.IndexExpr:
		if sel, ok := unparen(e.X).(*ast.SelectorExpr); ok && s.trackedField(sel) != nil {
			s.selector(sel, st, true, "element store")
			s.walk(e.Index, st)
			return
		}
		s.walk(e.X, st)
		s.walk(e.Index, st)
	default:
		s.walk(e, st)
	}
}

func (s *scanner) trackedField(sel *ast.SelectorExpr) *types.Var {
	fs := s.t.info.Selections[sel]
	if fs == nil || fs.Kind() != types.FieldVal {
		return nil
	}
	f, _ := fs.Obj().(*types.Var)
	if f == nil || s.t.fieldOwner[f] == nil {
		return nil
	}
	return f
}

func (s *scanner) selector(e *ast.SelectorExpr, st state, write bool, note string) {
	fs := s.t.info.Selections[e]
	if fs != nil && fs.Kind() == types.FieldVal {
		f, _ := fs.Obj().(*types.Var)
		if owner := s.t.fieldOwner[f]; owner != nil {
			rec := &accessRec{node: e, pos: e.Sel.Pos(), fn: s.fn, inLit: s.litDepth > 0,
				owner: owner, field: f, write: write, base: types.ExprString(e.X), note: note}
			base := unparen(e.X)
			if star, ok := base.(*ast.StarExpr); ok {
				base = unparen(star.X)
			}
			if id, ok := base.(*ast.Ident); ok && len(fs.Index()) == 1 {
				if v := s.varOf(id); v != nil {
					if cur := st[v]; cur != nil {
						rec.st = cur.clone()
					}
				}
			}
			s.t.accesses[e] = rec
		}
		if owner := s.t.mutexOwner[f]; owner != nil {
			// e.g. a method value X.m.Unlock, or &X.m handed to some helper:
			// locking done through it is invisible to the scan.
			s.pseudo(e, owner, "mutex-used-other-than-by-Lock/Unlock", types.ExprString(e.X))
		}
	}
	s.walk(e.X, st)
}

func (s *scanner) walk(e ast.Expr, st state) {
	switch e := e.(type) {
	case nil:
	case *ast.Ident, *ast.BasicLit:
	case *ast.ParenExpr:
		s.walk(e.X, st)
	case *ast.FuncLit:
		s.scanLit(e, state{})
	case *ast.CompositeLit:
		s.compositeLit(e, st)
	case *ast.SelectorExpr:
		s.selector(e, st, false, "")
	case *ast.IndexExpr:
		s.walk(e.X, st)
		s.walk(e.Index, st)
	case *ast.IndexListExpr:
		s.walk(e.X, st)
		for _, i := range e.Indices {
			s.walk(i, st)
		}
	case *ast.SliceExpr:
		s.walk(e.X, st)
		s.walk(e.Low, st)
		s.walk(e.High, st)
		s.walk(e.Max, st)
	case *ast.TypeAssertExpr:
		s.walk(e.X, st)
	case *ast.CallExpr:
		s.call(e, st, "")
	case *ast.StarExpr:
		if tv, ok := s.t.info.Types[e]; ok && tv.IsValue() {
			if n, ok := tv.Type.(*types.Named); ok {
				if owner := s.t.trackedType[n]; owner != nil {
					s.pseudo(e, owner, "whole-struct-copy", types.ExprString(e.X))
				}
			}
		}
		s.walk(e.X, st)
	case *ast.UnaryExpr:
		if e.Op == token.AND {
			if sel, ok := unparen(e.X).(*ast.SelectorExpr); ok && s.trackedField(sel) != nil {
				s.selector(sel, st, true, "address taken")
				s.t.warn(e.Pos(), "address of %s taken: later uses of the pointer are not checked", types.ExprString(sel))
				return
			}
		}
		s.walk(e.X, st)
	case *ast.BinaryExpr:
		s.walk(e.X, st)
		s.walk(e.Y, st)
	case *ast.KeyValueExpr:
		s.walk(e.Key, st)
		s.walk(e.Value, st)
	case *ast.ArrayType, *ast.MapType, *ast.ChanType, *ast.FuncType, *ast.InterfaceType,
		*ast.StructType, *ast.Ellipsis:
	default:
		s.t.warn(e.Pos(), "unsupported expression %T", e)
	}
}

func (s *scanner) compositeLit(e *ast.CompositeLit, st state) {
	owner := s.trackedLit(e)
	var stct *types.Struct
	if owner != nil {
		stct = owner.named.Underlying().(*types.Struct)
	}
	for i, el := range e.Elts {
		if kv, ok := el.(*ast.KeyValueExpr); ok {
			if owner != nil {
				if id, ok := kv.Key.(*ast.Ident); ok {
					if f, ok := s.t.info.Uses[id].(*types.Var); ok && s.t.fieldOwner[f] == owner {
						s.t.accesses[kv] = &accessRec{node: kv, pos: kv.Pos(), fn: s.fn, inLit: s.litDepth > 0,
							owner: owner, field: f, write: true, lit: true, base: "composite literal"}
					}
				}
				s.walk(kv.Value, st)
			} else {
				s.walk(kv.Key, st)
				s.walk(kv.Value, st)
			}
			continue
		}
		if owner != nil && i < stct.NumFields() {
			if f := stct.Field(i); s.t.fieldOwner[f] == owner {
				s.t.accesses[el] = &accessRec{node: el, pos: el.Pos(), fn: s.fn, inLit: s.litDepth > 0,
					owner: owner, field: f, write: true, lit: true, base: "composite literal"}
			}
		}
		s.walk(el, st)
	}
}

func (s *scanner) scanLit(lit *ast.FuncLit, init state) {
	saveLoops, saveLabel := s.loops, s.pendingLabel
	s.loops, s.pendingLabel = nil, ""
	s.litDepth++
	if s.noTrack {
		init = state{}
	}
	s.block(lit.Body.List, init)
	s.litDepth--
	s.loops, s.pendingLabel = saveLoops, saveLabel
}

func (s *scanner) argInfo(e ast.Expr, st state) argInfo {
	e = unparen(e)
	id, ok := e.(*ast.Ident)
	if !ok {
		return argInfo{desc: types.ExprString(e) + " is not a plain variable"}
	}
	if _, isNil := s.t.info.Uses[id].(*types.Nil); isNil {
		return argInfo{isNil: true, protected: true, desc: "nil"}
	}
	v := s.varOf(id)
	if v == nil {
		return argInfo{desc: id.Name + " is not a variable"}
	}
	cur := st[v]
	if cur == nil {
		return argInfo{desc: "the lock protecting " + id.Name + " is not held"}
	}
	return argInfo{protected: true, deps: append([]int(nil), cur.deps...), desc: id.Name + ": " + cur.kind.String(),
		derived: cur.derived}
}

func (s *scanner) call(e *ast.CallExpr, st state, mode string) {
	fun := unparen(e.Fun)

	// Lock/Unlock buried in an expression.
	if base, op, owner := s.mutexCall(e); owner != nil {
		s.t.warn(e.Pos(), "%s of %s.m inside an expression", op, types.ExprString(base))
		s.lockOp(e, base, op, owner, st, mode == "defer")
		return
	}

	// conversions
	if tv, ok := s.t.info.Types[fun]; ok && tv.IsType() {
		for _, a := range e.Args {
			s.walk(a, st)
		}
		return
	}

	// builtins
	if id, ok := fun.(*ast.Ident); ok {
		if b, ok := s.t.info.Uses[id].(*types.Builtin); ok {
			if b.Name() == "delete" && len(e.Args) == 2 {
				if sel, ok := unparen(e.Args[0]).(*ast.SelectorExpr); ok && s.trackedField(sel) != nil {
					s.selector(sel, st, true, "delete")
				} else {
					s.walk(e.Args[0], st)
				}
				s.walk(e.Args[1], st)
				return
			}
			for _, a := range e.Args {
				s.walk(a, st)
			}
			return
		}
		// invocation of a func-typed parameter
		if v, ok := s.t.info.Uses[id].(*types.Var); ok {
			if idx, isParam := s.fn.paramIdx[v]; isParam {
				if _, isFunc := v.Type().Underlying().(*types.Signature); isFunc {
					inv := &cbInvoke{pos: e.Pos(), fn: s.fn, cbIdx: idx, held: map[int]argInfo{},
						inLit: s.litDepth > 0, mode: mode}
					for j, p := range s.fn.params {
						if s.t.trackedPtr(p.Type()) == nil {
							continue
						}
						if cur := st[p]; cur != nil {
							inv.held[j] = argInfo{protected: true, deps: append([]int(nil), cur.deps...), desc: cur.kind.String()}
						} else {
							inv.held[j] = argInfo{desc: "the lock protecting " + p.Name() + " is not held"}
						}
					}
					s.t.cbInvokes[e] = inv
					for _, a := range e.Args {
						s.walk(a, st)
					}
					return
				}
			}
		}
	}

	// callee identity
	var calleeObj *types.Func
	var recv ast.Expr
	methodExpr := false
	switch f := fun.(type) {
	case *ast.Ident:
		calleeObj, _ = s.t.info.Uses[f].(*types.Func)
	case *ast.SelectorExpr:
		calleeObj, _ = s.t.info.Uses[f.Sel].(*types.Func)
		if fs := s.t.info.Selections[f]; fs != nil {
			switch fs.Kind() {
			case types.MethodVal:
				recv = f.X
			case types.MethodExpr:
				methodExpr = true
			}
		}
	}

	if calleeObj != nil && calleeObj.Pkg() != nil {
		switch calleeObj.Pkg().Path() {
		case "sync/atomic":
			for _, a := range e.Args {
				if u, ok := unparen(a).(*ast.UnaryExpr); ok && u.Op == token.AND {
					if sel, ok := unparen(u.X).(*ast.SelectorExpr); ok {
						if f := s.trackedField(sel); f != nil {
							write := !strings.HasPrefix(calleeObj.Name(), "Load")
							s.t.accesses[sel] = &accessRec{node: sel, pos: sel.Sel.Pos(), fn: s.fn,
								inLit: s.litDepth > 0, owner: s.t.fieldOwner[f], field: f, write: write,
								atomic: true, base: types.ExprString(sel.X)}
							s.walk(sel.X, st)
							continue
						}
					}
				}
				s.walk(a, st)
			}
			return
		case "sync":
			if calleeObj.Name() == "NewCond" && len(e.Args) == 1 {
				if u, ok := unparen(e.Args[0]).(*ast.UnaryExpr); ok && u.Op == token.AND {
					if sel, ok := unparen(u.X).(*ast.SelectorExpr); ok {
						if fs := s.t.info.Selections[sel]; fs != nil {
							if mv, ok := fs.Obj().(*types.Var); ok && s.t.mutexOwner[mv] != nil {
								s.t.note(e.Pos(), "sync.NewCond(&%s): the condition variable is built on the tracked mutex", types.ExprString(sel))
								s.walk(sel.X, st)
								return
							}
						}
					}
				}
			}
			if calleeObj.Name() == "Wait" && recv != nil {
				if tv, ok := s.t.info.Types[recv]; ok && tv.Type.String() == "*sync.Cond" {
					s.t.note(e.Pos(), "%s.Wait(): returns with the cond's mutex held again; no lock tracked here is left released by it", types.ExprString(recv))
				}
			}
		}
	}

	callee := s.t.funcOf[calleeObj]
	if callee == nil || calleeObj == nil {
		// external function, interface method or function value
		if lit, ok := fun.(*ast.FuncLit); ok {
			s.scanLit(lit, state{})
		} else {
			s.walk(e.Fun, st)
		}
		for _, a := range e.Args {
			s.walk(a, st)
		}
		return
	}

	// static call of a function of this package
	off := 0
	if len(callee.params) > 0 && callee.obj.Type().(*types.Signature).Recv() != nil {
		off = 1
	}
	argOf := func(j int) ast.Expr {
		if methodExpr {
			return nil
		}
		if off == 1 && j == 0 {
			return recv
		}
		k := j - off
		sig := callee.obj.Type().(*types.Signature)
		if sig.Variadic() && k >= sig.Params().Len()-1 {
			return nil
		}
		if k < 0 || k >= len(e.Args) {
			return nil
		}
		return e.Args[k]
	}
	rec := &callRec{pos: e.Pos(), caller: s.fn, callee: callee, mode: mode,
		args: map[int]argInfo{}, bools: map[int]*bool{}}
	for j, p := range callee.params {
		a := argOf(j)
		if s.t.trackedPtr(p.Type()) != nil {
			if a == nil {
				rec.args[j] = argInfo{desc: "argument not identified"}
			} else {
				ai := s.argInfo(a, st)
				if id, ok := unparen(a).(*ast.Ident); ok {
					if v := s.varOf(id); v != nil {
						if pi, isParam := s.fn.paramIdx[v]; isParam && !s.assignedParams[v] {
							ai.callerParam = pi + 1
						}
					}
				}
				rec.args[j] = ai
			}
		}
		if b, ok := p.Type().Underlying().(*types.Basic); ok && b.Kind() == types.Bool && a != nil {
			if tv, ok := s.t.info.Types[a]; ok && tv.Value != nil && tv.Value.Kind() == constant.Bool {
				v := constant.BoolVal(tv.Value)
				rec.bools[j] = &v
			}
		}
	}
	s.t.calls[e] = rec

	if recv != nil {
		s.walk(recv, st)
	} else if sel, ok := fun.(*ast.SelectorExpr); ok {
		s.walk(sel.X, st)
	}
	for k, a := range e.Args {
		lit, ok := unparen(a).(*ast.FuncLit)
		if !ok {
			s.walk(a, st)
			continue
		}
		// A func literal handed to a function of this package: inside it,
		// the objects passed for the callee's parameters are protected if
		// the callee only invokes the literal while they are.
		init := state{}
		pk := k + off
		if mode == "" && !methodExpr && pk < len(callee.params) {
			for j, p := range callee.params {
				if s.t.trackedPtr(p.Type()) == nil {
					continue
				}
				aj := argOf(j)
				if aj == nil {
					continue
				}
				id, ok := unparen(aj).(*ast.Ident)
				if !ok {
					continue
				}
				y := s.varOf(id)
				if y == nil || s.poisoned[y] {
					continue
				}
				init[y] = &status{kind: kCallback, roots: []*types.Var{y},
					deps: []int{s.t.cbHeld(callee, pk, j).id}}
			}
		}
		s.scanLit(lit, init)
	}
}
