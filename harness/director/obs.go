package main

import (
	"bytes"
	"sort"

	"github.com/couchbase/moss"
)

// Observation helpers: structural dump and public-API reads as s-expressions.

func entrySx(e moss.VerifEntry) sx {
	switch e.Op {
	case moss.OperationSet:
		return L("s", e.Key, e.Val)
	case moss.OperationDel:
		return L("d", e.Key)
	case moss.OperationMerge:
		return L("m", e.Key, e.Val)
	}
	return L("bad", int64(e.Op>>56))
}

func stackSx(s *moss.VerifStack) sx {
	if s == nil || s.Nil {
		return "nil"
	}
	segs := []sx{"segs"}
	for _, seg := range s.Segs {
		es := []sx{"seg"}
		for _, e := range seg {
			es = append(es, entrySx(e))
		}
		segs = append(segs, es)
	}
	kids := []sx{"kids"}
	var names []string
	for n := range s.Children {
		names = append(names, n)
	}
	sort.Strings(names)
	for _, n := range names {
		kids = append(kids, L([]byte(n), stackSx(s.Children[n])))
	}
	return L("ss", s.IncarNum, s.HasLL, segs, kids)
}

func collSx(c *moss.VerifColl) sx {
	out := []sx{"cn", c.IncarNum, c.HighestIncarNum}
	var names []string
	for n := range c.Children {
		names = append(names, n)
	}
	sort.Strings(names)
	for _, n := range names {
		out = append(out, L([]byte(n), collSx(c.Children[n])))
	}
	return out
}

func dumpSx(d *moss.VerifDump) sx {
	ll := sx("none")
	if d.LLPresent {
		ll = stackSx(d.LL)
	}
	return L("dump", L("top", stackSx(d.Top)), L("mid", stackSx(d.Mid)), L("base", stackSx(d.Base)),
		L("clean", stackSx(d.Clean)), L("ll", ll), L("coll", collSx(d.Coll)), L("cached", d.HasCached))
}

func lvlTree(s *moss.VerifStack) sx {
	if s == nil || s.Nil {
		return L("lt", 0)
	}
	lvl := len(s.Segs) - 1
	if lvl < 0 {
		lvl = 0
	}
	out := []sx{"lt", lvl}
	var names []string
	for n := range s.Children {
		names = append(names, n)
	}
	sort.Strings(names)
	for _, n := range names {
		out = append(out, L([]byte(n), lvlTree(s.Children[n])))
	}
	return out
}

func errSx(err error) sx {
	switch err {
	case nil:
		return "ok"
	case moss.ErrIteratorDone:
		return "done"
	case moss.ErrClosed:
		return "closed"
	case moss.ErrKeyTooLarge:
		return "keytoolarge"
	case moss.ErrValueTooLarge:
		return "valtoolarge"
	case moss.ErrMergeOperatorNil:
		return "mergeopnil"
	}
	return "err"
}

// readsSx reads a snapshot through the public API: Get for every universe
// key, a full iteration, and the same for every child, recursively.
func readsSx(ss moss.Snapshot, universe [][]byte, depth int) sx {
	gets := []sx{"gets"}
	for _, k := range universe {
		v, err := ss.Get(k, moss.ReadOptions{})
		if err != nil {
			gets = append(gets, L(k, errSx(err)))
		} else {
			gets = append(gets, L(k, v))
			if retainHook != nil {
				retainHook("Snapshot.Get", v)
			}
		}
		v2, err2 := ss.Get(k, moss.ReadOptions{NoCopyValue: true})
		if (err == nil) != (err2 == nil) || !bytes.Equal(v, v2) || (v == nil) != (v2 == nil) {
			gets = append(gets, L([]byte("!NoCopyValue-get-differs"), cp(v2)))
		}
	}
	iterS := []sx{"iter"}
	it, err := ss.StartIterator(nil, nil, moss.IteratorOptions{})
	if err != nil {
		iterS = append(iterS, errSx(err))
	} else if it != nil {
		for n := 0; n < 100000; n++ {
			k, v, err := it.Current()
			if err == moss.ErrIteratorDone {
				break
			}
			if err != nil {
				iterS = append(iterS, errSx(err))
				break
			}
			iterS = append(iterS, L(cp(k), cp(v)))
			if err := it.Next(); err != nil {
				if err != moss.ErrIteratorDone {
					iterS = append(iterS, errSx(err))
				}
				break
			}
		}
		// seek back to the first entry (the iterator re-creates its cursors) and look at it
		// again; a wrong answer is reported as an extra entry, which no model iteration has
		if len(iterS) > 1 {
			if first, ok := iterS[1].([]sx); ok && len(first) == 2 {
				fk, _ := first[0].([]byte)
				// ... seeking to the smallest possible key (so that deleted keys below the first
				// entry lie in between), or to the first entry itself
				target := fk
				if len(fk)%2 == 0 {
					target = []byte{}
				}
				err := it.SeekTo(target)
				k, v, err2 := it.Current()
				fv, _ := first[1].([]byte)
				if err != nil || err2 != nil || !bytes.Equal(k, fk) || !bytes.Equal(v, fv) || (v == nil) != (fv == nil) {
					iterS = append(iterS, L([]byte("!seek-back-to-first-entry-differs"), cp(k), cp(v), errSx(err), errSx(err2)))
				}
			}
		}
		it.Close()
	}
	kids := []sx{"kids"}
	if depth < 4 {
		names, _ := ss.ChildCollectionNames()
		sort.Strings(names)
		for _, n := range names {
			cs, err := ss.ChildCollectionSnapshot(n)
			if err != nil || cs == nil {
				kids = append(kids, L([]byte(n), "nil"))
				continue
			}
			kids = append(kids, L([]byte(n), readsSx(cs, universe, depth+1)))
			cs.Close()
		}
	}
	return L("r", gets, iterS, kids)
}

// cp copies a byte slice, keeping nil distinct from empty.
func cp(b []byte) []byte {
	if b == nil {
		return nil
	}
	return append([]byte{}, b...)
}
