package main

import (
	"bufio"
	"bytes"
	"fmt"
	"os"
	"path/filepath"
	"reflect"
	"runtime/debug"
	"sort"
	"strings"
	"sync"
	"time"

	"github.com/couchbase/moss"
)

// Family "refs" (C15): handles of every kind opened and closed at arbitrary
// points relative to persistence, compaction and Close calls, in every close
// order; every open handle is re-read after every step; reference-count
// events go to the monitor; at the end nothing of the directory may still be
// open or mapped and only the current data file may remain.

type refRec struct {
	mu     sync.Mutex
	ids    map[uintptr]int
	keep   []interface{}
	events [][2]int
	kinds  map[int]string
}

func (rr *refRec) hook(kind string, obj interface{}, after int) {
	p := reflect.ValueOf(obj).Pointer()
	rr.mu.Lock()
	id, ok := rr.ids[p]
	if !ok {
		id = len(rr.ids) + 1
		rr.ids[p] = id
		rr.keep = append(rr.keep, obj) // keep the address from being reused
		rr.kinds[id] = kind
	}
	rr.events = append(rr.events, [2]int{id, after})
	rr.mu.Unlock()
}

type handle struct {
	id      int
	kind    string
	snap    moss.Snapshot
	iter    moss.Iterator
	content string // what it read when it was opened
	parent  int
}

func readSnap(ss moss.Snapshot) (s string) {
	defer func() {
		if r := recover(); r != nil {
			s = fmt.Sprintf("PANIC %v", r)
		}
	}()
	return sxString(readsSx(ss, baseUniverse, 0))
}

// readIterRest: what an open iterator shows - everything from the start of its range, read by
// seeking back to the smallest key (the iterator re-creates its cursors from its snapshot's
// stack) and scanning to the end.
var farSeekToggle int

func readIterRest(it moss.Iterator) (s string) {
	defer debug.SetPanicOnFault(debug.SetPanicOnFault(true))
	defer func() {
		if r := recover(); r != nil {
			s = fmt.Sprintf("PANIC %v", r)
		}
	}()
	var sb strings.Builder
	farSeekToggle++
	if farSeekToggle%2 == 0 {
		// every other time: first a seek far ahead, past every key of every level, with one naive
		// steps - the iterator re-creates its cursors and the new ones have no lower-level iterator
		// (what becomes of the old one is the reference monitor's business); then back to the start
		// (from the start of the range, where the lower-level iterator is still alive: an iterator that
		// was scanned to its end has closed it already)
		it.SeekTo([]byte{})
		old := moss.DefaultNaiveSeekToMaxTries
		moss.DefaultNaiveSeekToMaxTries = 1
		e := it.SeekTo([]byte{0xff, 0xff, 0xff, 0xff})
		moss.DefaultNaiveSeekToMaxTries = old
		if e != nil && e != moss.ErrIteratorDone {
			fmt.Fprintf(&sb, "<far seek: %v>", e)
		}
	}
	err := it.SeekTo([]byte{})
	for n := 0; err == nil && n < 10000; n++ {
		k, v, e := it.Current()
		if e != nil {
			fmt.Fprintf(&sb, "<%v>", e)
			break
		}
		fmt.Fprintf(&sb, "%q=%q ", k, v)
		err = it.Next()
	}
	if err != nil && err != moss.ErrIteratorDone {
		fmt.Fprintf(&sb, "<%v>", err)
	}
	return sb.String()
}

func famRefs(w *bufio.Writer, seed uint64, n int) error {
	emit := func(v sx) { w.WriteString(sxString(v)); w.WriteByte('\n') }
	defer func() { moss.VerifOnRef = nil }()
	for i := 0; i < n; i++ {
		cs := seed*1000003 + uint64(i)
		r := newRng(cs ^ 0xa5)
		dir := mustMkdirTemp(workDir, "refs")
		rr := &refRec{ids: map[uintptr]int{}, kinds: map[int]string{}}
		moss.VerifOnRef = rr.hook
		cfg := Config{LL: "store", MMPn: 8, MMPd: 10, MaxPre: 4, LevelMaxSegs: 1 + r.intn(2), LevelMult: 3, PctN: 99, PctD: 100}
		cfg.CachePersisted = r.chance(1, 3)
		// a third of the cases are shaped for leveled (partial) compaction: threshold 1.0, a big
		// first round, small ones afterwards
		leveled := r.chance(1, 3)
		if leveled {
			cfg.PctN, cfg.PctD, cfg.LevelMult = 1, 1, 2+r.intn(2)
		}
		children := r.chance(1, 2) && os.Getenv("VERIF_NOCHILD") == ""
		g := &gen{r: r, o: genOpts{mergeW: 10}, universe: baseUniverse}
		if children {
			g.o.childPct = 60
		}
		// a quarter of the cases with children keep ALL data in child collections (the top-level
		// collection never gets a segment: file bookkeeping then hangs on the child footers)
		childOnly := children && r.chance(1, 2)
		var s *moss.Store
		var c moss.Collection
		var lastSO moss.StoreOptions
		var lastPO moss.StorePersistOptions
		open := func(concern int) error {
			cfg.Concern = concern
			h := newH(cfg, dir)
			h.gating = 0
			so, po := h.storeOptions()
			so.CollectionOptions.MergerIdleRunTimeoutMS = -1
			lastSO, lastPO = so, po
			var err error
			s, c, err = moss.OpenStoreCollection(dir, so, po)
			return err
		}
		if err := open(r.pick([]int{5, 3, 2})); err != nil {
			return err
		}
		var handles []*handle
		nextID := 0
		var problems []string
		note := func(f string, a ...interface{}) { problems = append(problems, fmt.Sprintf(f, a...)) }
		addSnap := func(kind string, ss moss.Snapshot, parent int) {
			nextID++
			handles = append(handles, &handle{id: nextID, kind: kind, snap: ss, content: readSnap(ss), parent: parent})
		}
		recheck := func(step string) {
			for _, h := range handles {
				if h.snap != nil {
					if got := readSnap(h.snap); got != h.content {
						note("%s: handle %d (%s) changed or became unreadable: %.120s", step, h.id, h.kind, got)
						h.content = got
					}
				}
				if h.iter != nil {
					if got := readIterRest(h.iter); got != h.content {
						note("%s: iterator %d changed: %.80s", step, h.id, got)
						h.content = got
					}
				}
			}
		}
		closeHandle := func(j int) {
			h := handles[j]
			if h.iter != nil {
				h.iter.Close()
			}
			if h.snap != nil && h.iter == nil {
				h.snap.Close()
			}
			handles = append(handles[:j], handles[j+1:]...)
		}
		steps := 8 + r.intn(12)
		emptyFooters := 0
		witnessRounds := 0
		bigDone := false
		lastFile, lastCompactions := "", uint64(0)
		var labels []sx
		collOpen, storeOpen := true, true
		// noteFile looks at the file of the store's current footer after every step (rounds may be in
		// flight, reverts and re-opened collections write too): a new file without a compaction in
		// between is the file switch of known finding F31.
		noteFile := func() {
			if !storeOpen || s == nil {
				return
			}
			if fs, err := s.Snapshot(); err == nil && fs != nil {
				name := moss.VerifDumpFooter(fs).FileName
				fs.Close()
				st, _ := s.Stats()
				nc, _ := st["total_compactions"].(uint64)
				if lastFile != "" && name != "" && name != lastFile && nc == lastCompactions {
					emptyFooters++
				}
				if name != "" {
					lastFile = name
				}
				lastCompactions = nc
			}
		}
		for st := 0; st < steps; st++ {
			choice := r.pick([]int{30, 12, 8, 14, 10, 6, 18, 4, 3, 3, 6, 7, 8})
			if i == 0 {
				choice = 0
			}
			switch choice {
			case 0: // a persisted round
				if !collOpen {
					continue
				}
				b := g.nonEmptyBatch()
				if i == 0 {
					// case 0 of every shard is the witness of known finding F31: all data in one child
					// collection, the child dropped and re-created, so that a round keeps nothing of
					// the old footer and the store moves on to a new data file
					witness := []*tbatch{
						{kids: []kid{{name: "c1", b: &tbatch{ops: []bop{{'s', []byte("k0"), []byte("a")}}}}}},
						{kids: []kid{{name: "c1", del: true}}},
						{kids: []kid{{name: "c1", b: &tbatch{ops: []bop{{'s', []byte("k0"), []byte("b")}}}}}},
					}
					b = witness[witnessRounds%len(witness)]
					witnessRounds++
				} else if childOnly {
					b.ops = nil
					if len(b.kids) == 0 {
						b.kids = []kid{{name: childNames[0], b: &tbatch{ops: []bop{{'s', []byte("k0"), g.value()}}}}}
					}
				}
				if leveled && witnessRounds == 0 && i != 0 && bigDone == false {
					b.ops = append(b.ops, bop{'s', []byte("k9"), bytes.Repeat([]byte("B"), 2000+r.intn(1500))})
					bigDone = true
				}
				if err := (&H{coll: c}).execBatch(b); err != nil {
					note("ExecuteBatch: %v", err)
					continue
				}
				if r.chance(1, 5) && i != 0 {
					// do not wait: a later step (close of the collection, of the store) may then
					// arrive while the persistence round is in flight
					labels = append(labels, L("round-nowait"))
					break
				}
				waitPersisted(c)
				labels = append(labels, L("round"))
				if os.Getenv("VERIF_DEBUG_REFS") != "" {
					fs, _ := s.Snapshot()
					fmt.Fprintf(os.Stderr, "case %d round: batch %s\n   files %v footer %s\n", i, sxString(b.sx()), listDataFiles(dir), sxString(stackSx(moss.VerifDumpFooter(fs))))
					fs.Close()
				}
				// did this round make the store start a NEW data file without compacting?  That happens
				// when nothing of the old footer survives into the new one (every collection that held
				// persisted data was dropped): the old file then has no owner left (known finding F31)
				noteFile()
			case 1: // collection snapshot
				if !collOpen {
					continue
				}
				ss, err := c.Snapshot()
				if err == nil {
					addSnap("coll-snapshot", ss, 0)
					labels = append(labels, L("snap"))
				}
			case 2: // child snapshot of a held snapshot
				for _, h := range handles {
					if h.snap != nil && h.iter == nil {
						names, _ := h.snap.ChildCollectionNames()
						if len(names) > 0 {
							sort.Strings(names)
							cs, _ := h.snap.ChildCollectionSnapshot(names[r.intn(len(names))])
							if cs != nil {
								addSnap("child-of-"+h.kind, cs, h.id)
								labels = append(labels, L("childsnap", h.kind))
							}
						}
						break
					}
				}
			case 3: // iterator on a held snapshot, advanced a bit
				for _, h := range handles {
					if h.snap != nil && h.iter == nil {
						it, err := h.snap.StartIterator(nil, nil, moss.IteratorOptions{})
						if err == nil && it != nil {
							for a := 0; a < r.intn(3); a++ {
								it.Next()
							}
							nextID++
							handles = append(handles, &handle{id: nextID, kind: "iter-on-" + h.kind, iter: it, content: readIterRest(it), parent: h.id})
							labels = append(labels, L("iter", h.kind))
						}
						break
					}
				}
			case 4: // store snapshot
				if !storeOpen {
					continue
				}
				fs, err := s.Snapshot()
				if err == nil && fs != nil {
					addSnap("store-snapshot", fs, 0)
					labels = append(labels, L("storesnap"))
				}
			case 5: // previous snapshot of a held store snapshot
				if !storeOpen {
					continue
				}
				for _, h := range handles {
					if h.kind == "store-snapshot" {
						ps, err := s.SnapshotPrevious(h.snap)
						if err == nil && ps != nil {
							addSnap("store-snapshot", ps, h.id)
							labels = append(labels, L("previous"))
						}
						break
					}
				}
			case 6: // close some handle
				if len(handles) > 0 {
					j := r.intn(len(handles))
					labels = append(labels, L("closehandle", handles[j].kind))
					closeHandle(j)
				}
			case 7:
				if collOpen {
					c.(interface {
						NotifyMerger(string, bool) error
					}).NotifyMerger("mergeAll", true)
					labels = append(labels, L("mergeall"))
				}
			case 8: // close the collection, handles stay open
				if collOpen {
					c.Close()
					collOpen = false
					labels = append(labels, L("closecoll"))
				}
			case 10: // close and reopen under another compaction concern (only without open handles)
				if collOpen && storeOpen && len(handles) == 0 {
					c.Close()
					s.Close()
					sleepMicros(3000)
					if err := open(r.pick([]int{3, 3, 4})); err != nil {
						note("reopen: %v", err)
						collOpen, storeOpen = false, false
					} else {
						lastFile, lastCompactions = "", 0
						labels = append(labels, L("reopen", cfg.Concern))
					}
				}
			case 11:
				// an iterator that outlives its snapshot: a batch that is (most likely) still in memory,
				// a snapshot over it and the persisted data, a heap iterator on it run to its end, the
				// snapshot closed at once.  Later rounds drop the collection's cached copy of the stack,
				// so the iterator alone keeps it (and its lower level) alive for the re-reads
				if !collOpen || i == 0 {
					continue
				}
				b := g.nonEmptyBatch()
				if childOnly {
					continue
				}
				if err := (&H{coll: c}).execBatch(b); err != nil {
					note("ExecuteBatch: %v", err)
					continue
				}
				if ss, err := c.Snapshot(); err == nil && ss != nil {
					if it, err := ss.StartIterator(nil, nil, moss.IteratorOptions{}); err == nil && it != nil {
						nextID++
						handles = append(handles, &handle{id: nextID, kind: "iter-outliving-its-snapshot", iter: it, content: readIterRest(it), parent: 0})
						labels = append(labels, L("round-nowait"), L("iter-outliving-snapshot"))
					}
					ss.Close()
				}
			case 12:
				// revert to the previous persisted state while that previous snapshot stays open: the
				// collection is closed, Store.SnapshotRevert() writes a footer equal to the older one, a
				// new collection is opened on the store and goes on; the held previous snapshot (and its
				// child collections) must keep reading the same through the rounds that follow
				if !collOpen || !storeOpen || i == 0 {
					continue
				}
				waitPersisted(c)
				c.Close()
				collOpen = false
				labels = append(labels, L("closecoll"))
				if cur, err := s.Snapshot(); err == nil && cur != nil {
					prev, err := s.SnapshotPrevious(cur)
					cur.Close()
					if err == nil && prev != nil {
						addSnap("store-snapshot", prev, 0)
						if err := s.SnapshotRevert(prev); err == nil {
							labels = append(labels, L("revert"))
						} else {
							labels = append(labels, L("revert-refused"))
						}
					}
				}
				if nc, err := s.OpenCollection(lastSO, lastPO); err == nil && nc != nil {
					c = nc
					collOpen = true
					labels = append(labels, L("opencoll"))
				} else {
					note("OpenCollection after a revert: %v", err)
				}
			case 9: // close the store too
				if !collOpen && storeOpen {
					s.Close()
					storeOpen = false
					labels = append(labels, L("closestore"))
				}
			}
			noteFile()
			recheck(fmt.Sprintf("step %d", st))
		}
		// close everything that is left, in a random order
		for len(handles) > 0 {
			closeHandle(r.intn(len(handles)))
			recheck("closing")
		}
		if collOpen {
			c.Close()
		}
		if storeOpen {
			s.Close()
		}
		// asynchronous unlinks and finalisation
		var fds, maps, files []string
		deadline := time.Now().Add(20 * time.Second)
		for {
			fds, maps, files = nil, nil, nil
			ents, _ := os.ReadDir("/proc/self/fd")
			for _, e := range ents {
				if l, err := os.Readlink(filepath.Join("/proc/self/fd", e.Name())); err == nil && strings.HasPrefix(l, dir) {
					fds = append(fds, l)
				}
			}
			if b, err := os.ReadFile("/proc/self/maps"); err == nil {
				for _, ln := range strings.Split(string(b), "\n") {
					if strings.Contains(ln, dir) {
						maps = append(maps, ln)
					}
				}
			}
			dents, _ := os.ReadDir(dir)
			for _, e := range dents {
				files = append(files, e.Name())
			}
			if (len(fds) == 0 && len(maps) == 0 && len(files) <= 1) || time.Now().After(deadline) {
				break
			}
			time.Sleep(5 * time.Millisecond)
		}
		moss.VerifOnRef = nil
		rr.mu.Lock()
		evs := []sx{"events"}
		for _, e := range rr.events {
			evs = append(evs, L(e[0], e[1]))
		}
		kinds := []sx{"kinds"}
		for id := 1; id <= len(rr.ids); id++ {
			kinds = append(kinds, L(id, rr.kinds[id]))
		}
		rr.mu.Unlock()
		emit(L("case", i, int64(cs), cfg.sx(), L("universe", L())))
		emit(L("refs", append([]sx{"labels"}, labels...), L("problems", len(problems), fmt.Sprintf("%q", fmt.Sprint(problems))),
			L("fds", len(fds)), L("maps", len(maps)), L("files", len(files), fmt.Sprintf("%q", strings.Join(files, ","))), L("emptyfooters", emptyFooters),
			kinds, evs))
		emit(L("end"))
		os.RemoveAll(dir)
	}
	return nil
}

func listDataFiles(dir string) []string {
	var out []string
	es, _ := os.ReadDir(dir)
	for _, e := range es {
		if strings.HasPrefix(e.Name(), "data-") && strings.HasSuffix(e.Name(), ".moss") {
			out = append(out, e.Name())
		}
	}
	return out
}
