package main

import (
	"bufio"
	"bytes"
	"crypto/sha256"
	"fmt"
	"io"
	"os"
	"path/filepath"
	"sort"
	"sync/atomic"

	"github.com/couchbase/moss"
)

// Family "readonly" (C18) and the directory-level behaviour of openStore:
// directory states a previous run or crash can leave, opened read-only and
// read-write, with every file operation recorded.

type dirEntry struct {
	name string
	size int64
	sum  [32]byte
}

func listDir(dir string) []dirEntry {
	var out []dirEntry
	ents, _ := os.ReadDir(dir)
	for _, e := range ents {
		p := filepath.Join(dir, e.Name())
		f, err := os.Open(p)
		if err != nil {
			continue
		}
		h := sha256.New()
		n, _ := io.Copy(h, f)
		f.Close()
		var s [32]byte
		copy(s[:], h.Sum(nil))
		out = append(out, dirEntry{e.Name(), n, s})
	}
	sort.Slice(out, func(i, j int) bool { return out[i].name < out[j].name })
	return out
}

func sameDir(a, b []dirEntry) bool {
	if len(a) != len(b) {
		return false
	}
	for i := range a {
		if a[i] != b[i] {
			return false
		}
	}
	return true
}

func copyDir(src, dst string) {
	os.MkdirAll(dst, 0o755)
	ents, _ := os.ReadDir(src)
	for _, e := range ents {
		b, _ := os.ReadFile(filepath.Join(src, e.Name()))
		os.WriteFile(filepath.Join(dst, e.Name()), b, 0o600)
	}
}

// buildHistory persists a random history and returns the reference content.
func buildHistory(r *rng, dir string, keep bool) (map[string][]byte, error) {
	cfg := Config{LL: "store", MMPn: 8, MMPd: 10, MaxPre: 4, KeepFiles: keep}
	h := newH(cfg, dir)
	h.gating = 0
	so, _ := h.storeOptions()
	so.CollectionOptions.MergerIdleRunTimeoutMS = -1
	ref := map[string][]byte{}
	rounds := 1 + r.intn(4)
	for round := 0; round < rounds; round++ {
		po := moss.StorePersistOptions{CompactionConcern: moss.CompactionConcern([]int{0, 0, 2}[r.intn(3)])}
		s, c, err := moss.OpenStoreCollection(dir, so, po)
		if err != nil {
			return nil, err
		}
		nb := 1 + r.intn(3)
		for bi := 0; bi < nb; bi++ {
			b, _ := c.NewBatch(0, 0)
			for _, k := range baseUniverse {
				switch r.intn(4) {
				case 0:
					v := []byte(fmt.Sprintf("r%d.%d", round, bi))
					b.Set(k, v)
					ref[string(k)] = v
				case 1:
					b.Del(k)
					delete(ref, string(k))
				}
			}
			c.ExecuteBatch(b, moss.WriteOptions{})
			b.Close()
			waitPersisted(c)
		}
		c.Close()
		s.Close()
	}
	return ref, nil
}

func seqOf(name string) int64 {
	s, err := moss.ParseFNameSeq(name)
	if err != nil {
		return -1
	}
	return s
}

func famReadOnly(w *bufio.Writer, seed uint64, n int) error {
	emit := func(v sx) { w.WriteString(sxString(v)); w.WriteByte('\n') }
	for i := 0; i < n; i++ {
		cs := seed*1000003 + uint64(i)
		r := newRng(cs ^ 0x3f)
		dir := mustMkdirTemp(workDir, "ro")
		ref, err := buildHistory(r, dir, true)
		if err != nil {
			return err
		}
		// async unlink goroutines of compactions: none with KeepFiles... the
		// compaction removes superseded files on close regardless; wait a moment
		sleepMicros(20000)
		states := map[int64]string{}
		var valid []string
		for _, e := range listDir(dir) {
			if s := seqOf(e.name); s >= 0 {
				states[s] = "valid"
				valid = append(valid, e.name)
			}
		}
		var maxSeq int64
		for s := range states {
			if s > maxSeq {
				maxSeq = s
			}
		}
		// an older valid file (stale content) next to the current one
		if len(valid) >= 1 && r.chance(1, 2) {
			b, _ := os.ReadFile(filepath.Join(dir, valid[0]))
			_ = b
		}
		variant := r.pick([]int{2, 2, 2, 2, 1, 4, 2})
		addFile := func(seq int64, data []byte, st string) {
			os.WriteFile(filepath.Join(dir, moss.FormatFName(seq)), data, 0o600)
			states[seq] = st
		}
		var goodHeader []byte
		if len(valid) > 0 {
			b, _ := os.ReadFile(filepath.Join(dir, valid[len(valid)-1]))
			if len(b) >= 4096 {
				goodHeader = b[:4096]
			}
		}
		switch variant {
		case 1: // newer file with an incomplete header page
			addFile(maxSeq+1, []byte("moss-data-store:\n{\"Version\":4"), "badheader")
		case 2: // newer file: full header, no footer (crash during first persist of a compaction)
			if goodHeader != nil {
				addFile(maxSeq+1, append(append([]byte{}, goodHeader...), bytes.Repeat([]byte{7}, 5000)...), "nofooter")
			}
		case 3: // both
			addFile(maxSeq+1, []byte{}, "badheader")
			if goodHeader != nil {
				addFile(maxSeq+2, goodHeader, "nofooter")
			}
		case 4: // junk
			os.WriteFile(filepath.Join(dir, "notes.txt"), []byte("junk"), 0o600)
			os.WriteFile(filepath.Join(dir, "data-zz.moss"), []byte("junk"), 0o600)
			os.WriteFile(filepath.Join(dir, "data-.moss"), []byte{}, 0o600)
		case 6: // no data file at all (empty directory, or only junk)
			for _, name := range valid {
				os.Remove(filepath.Join(dir, name))
				delete(states, seqOf(name))
			}
			valid, maxSeq, goodHeader = nil, 0, nil
			ref = map[string][]byte{}
			if r.chance(1, 2) {
				os.WriteFile(filepath.Join(dir, "notes.txt"), []byte("junk"), 0o600)
			}
		case 5: // an older copy of the data under a lower sequence number
			if len(valid) > 0 && seqOf(valid[0]) >= 1 {
				b, _ := os.ReadFile(filepath.Join(dir, valid[0]))
				addFile(seqOf(valid[0])-1, b, "valid")
			}
		}
		// unparseable names match prefix/suffix and are candidates too
		for _, e := range listDir(dir) {
			if seqOf(e.name) < 0 && len(e.name) >= 10 && e.name[:5] == "data-" && filepath.Ext(e.name) == ".moss" {
				states[-int64(len(e.name))] = "badname:" + e.name
			}
		}
		for _, readonly := range []bool{true, false} {
			keep := r.chance(1, 3)
			work := dir
			if !readonly {
				work = dir + ".rw"
				copyDir(dir, work)
			}
			before := listDir(work)
			cfg := Config{LL: "store", MMPn: 8, MMPd: 10, MaxPre: 4, ReadOnly: readonly, KeepFiles: keep,
				Concern: []int{0, 1, 2}[r.intn(3)]}
			if r.chance(1, 2) {
				cfg.IndexMin, cfg.IndexMax = 1, 40
			}
			h := newH(cfg, work)
			h.gating = 0
			h.files = &fileRecorder{record: true}
			so, po := h.storeOptions()
			so.CollectionOptions.MergerIdleRunTimeoutMS = -1
			s, c, err := moss.OpenStoreCollection(work, so, po)
			opened := "failed"
			contentOK := true
			if err == nil {
				opened = "ok"
				ss, _ := c.Snapshot()
				for _, k := range baseUniverse {
					v, _ := ss.Get(k, moss.ReadOptions{})
					want, present := ref[string(k)]
					if present != (v != nil) || (present && !bytes.Equal(v, want)) {
						contentOK = false
					}
				}
				ss.Close()
				if readonly {
					// whatever is executed against the read-only collection
					for bi := 0; bi < 1+r.intn(2); bi++ {
						b, _ := c.NewBatch(0, 0)
						b.Set([]byte("ro"), []byte("x"))
						c.ExecuteBatch(b, moss.WriteOptions{})
						b.Close()
					}
					c.(interface {
						NotifyMerger(string, bool) error
					}).NotifyMerger("mergeAll", false)
					s.Persist(nil, moss.StorePersistOptions{CompactionConcern: moss.CompactionForce})
					ss2, _ := c.Snapshot()
					if ss2 != nil {
						s.Persist(ss2, moss.StorePersistOptions{CompactionConcern: moss.CompactionForce})
						ss2.Close()
					}
				}
				c.Close()
				s.Close()
			}
			sleepMicros(20000)
			after := listDir(work)
			eff := []sx{"effects"}
			mutating := 0
			h.files.mu.Lock()
			for _, op := range h.files.ops {
				switch op.Kind {
				case "open", "create":
					ro := op.Flag&(os.O_RDWR|os.O_WRONLY|os.O_CREATE|os.O_TRUNC|os.O_APPEND) == 0
					eff = append(eff, L("open", seqOf(op.File), ro, op.Err))
					if !ro {
						mutating++
					}
				case "write", "truncate", "sync":
					mutating++
				case "remove":
					eff = append(eff, L("remove", seqOf(op.File)))
					mutating++
				}
			}
			h.files.mu.Unlock()
			ds := []sx{"dir"}
			var seqs []int64
			for s := range states {
				seqs = append(seqs, s)
			}
			sort.Slice(seqs, func(a, b int) bool { return seqs[a] < seqs[b] })
			for _, s := range seqs {
				ds = append(ds, L(s, states[s]))
			}
			emit(L("case", i*2+b2i(!readonly), int64(cs), L("cfg", L("readonly", readonly), L("keep", keep), L("variant", variant)), L("universe", L())))
			emit(L("ro", ds, L("opened", opened), eff, L("dirsame", sameDir(before, after)), L("content", contentOK), L("mutating", mutating),
				L("onerr", int(atomic.LoadInt32(&h.onErrors)))))
			emit(L("end"))
			if !readonly {
				os.RemoveAll(work)
			}
		}
		os.RemoveAll(dir)
	}
	return nil
}

func b2i(b bool) int {
	if b {
		return 1
	}
	return 0
}
