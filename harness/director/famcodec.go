package main

import (
	"bufio"
	"bytes"
	"fmt"
	"os"
	"path/filepath"

	"github.com/couchbase/moss"
)

// Family "codec" (C19): function level (op/keyLen/valLen word, page
// alignment) and byte level (a persisted segment's file bytes parsed by the
// model's load_segment), plus limit checks through the public Batch API.

func famCodec(w *bufio.Writer, seed uint64, n int) error {
	emit := func(v sx) { w.WriteString(sxString(v)); w.WriteByte('\n') }
	r := newRng(seed ^ 0x77aa)
	// ---- function level ----
	bounds := []int{0, 1, 2, 255, 256, 4095, 4096, 4097, 1<<16 - 1, 1 << 16, 1<<24 - 2, 1<<24 - 1, 1 << 24, 1<<24 + 1,
		1<<28 - 1, 1 << 28, 1<<28 + 1, 1<<31 - 1}
	ops := []uint64{moss.OperationSet, moss.OperationDel, moss.OperationMerge}
	words := []sx{"words"}
	for i := 0; i < 400; i++ {
		kl := bounds[r.intn(len(bounds))]
		vl := bounds[r.intn(len(bounds))]
		if r.chance(1, 2) {
			kl = r.intn(1 << 25)
		}
		if r.chance(1, 2) {
			vl = r.intn(1 << 29)
		}
		op := ops[r.intn(3)]
		wd := moss.VerifEncode(op, kl, vl)
		o2, k2, v2 := moss.VerifDecode(wd)
		words = append(words, L(int64(op>>56), kl, vl, wd, int64(o2>>56), k2, v2))
	}
	aligns := []sx{"aligns"}
	for i := 0; i < 200; i++ {
		pos := int64(r.intn(1 << 20))
		if r.chance(1, 3) {
			pos = int64(r.intn(64)) * 4096
		}
		aligns = append(aligns, L(pos, moss.VerifPageAlignCeil(pos), moss.VerifPageAlignFloor(pos), moss.VerifPageOffset(pos, 4096)))
	}
	emit(L("case", 0, int64(seed), L("cfg"), L("universe", L())))
	emit(L("codec", words, aligns))
	emit(L("end"))
	// ---- limits through the Batch API ----
	{
		c, _ := moss.NewCollection(moss.CollectionOptions{})
		c.Start()
		b, _ := c.NewBatch(0, 0)
		res := []sx{"limits"}
		b.Set([]byte("before"), []byte("1"))
		bigK := make([]byte, 1<<24)
		res = append(res, L("key-2^24", errSx(b.Set(bigK, []byte("x")))))
		res = append(res, L("key-2^24-1", errSx(b.Set(bigK[:1<<24-1], []byte("y")))))
		b.Set([]byte("after"), []byte("2"))
		err := c.ExecuteBatch(b, moss.WriteOptions{})
		ss, _ := c.Snapshot()
		v1, _ := ss.Get([]byte("before"), moss.ReadOptions{})
		v2, _ := ss.Get([]byte("after"), moss.ReadOptions{})
		v3, _ := ss.Get(bigK[:1<<24-1], moss.ReadOptions{})
		v4, _ := ss.Get(bigK, moss.ReadOptions{})
		res = append(res, L("exec", errSx(err)), L("before", v1), L("after", v2), L("maxkey", v3), L("toolong", v4))
		ss.Close()
		c.Close()
		emit(L("case", 1, int64(seed), L("cfg"), L("universe", L())))
		emit(res)
		emit(L("end"))
	}
	// ---- the same through Alloc-built batches: a rejected oversize operation must not disturb
	// the bytes of the operations allocated around it ----
	{
		c, _ := moss.NewCollection(moss.CollectionOptions{})
		c.Start()
		big := 1 << 24
		b, _ := c.NewBatch(6, 2*big+256)
		res := []sx{"limits"}
		al := func(s string) []byte { a, _ := b.Alloc(len(s)); copy(a, s); return a }
		k1, v1 := al("before"), al("1")
		bigK, _ := b.Alloc(big)
		for i := range bigK {
			bigK[i] = 'K'
		}
		k2, v2 := al("after"), al("2")
		b.AllocSet(k1, v1)
		res = append(res, L("key-2^24", errSx(b.AllocSet(bigK, nil))))
		b.AllocSet(k2, v2)
		maxK, _ := b.Alloc(big - 1)
		for i := range maxK {
			maxK[i] = 'K'
		}
		vy := al("y")
		res = append(res, L("key-2^24-1", errSx(b.AllocSet(maxK, vy))))
		err := c.ExecuteBatch(b, moss.WriteOptions{})
		ss, _ := c.Snapshot()
		v1g, _ := ss.Get([]byte("before"), moss.ReadOptions{})
		v2g, _ := ss.Get([]byte("after"), moss.ReadOptions{})
		probe := bytes.Repeat([]byte{'K'}, big)
		v3, _ := ss.Get(probe[:big-1], moss.ReadOptions{})
		v4, _ := ss.Get(probe, moss.ReadOptions{})
		// the whole content by iteration: exactly three entries
		n := 0
		if it, e := ss.StartIterator(nil, nil, moss.IteratorOptions{}); e == nil && it != nil {
			for {
				if _, _, e := it.Current(); e != nil {
					break
				}
				n++
				if it.Next() != nil {
					break
				}
			}
			it.Close()
		}
		if n != 3 {
			v2g = []byte(fmt.Sprintf("iteration yields %d entries instead of 3", n))
		}
		res = append(res, L("exec", errSx(err)), L("before", v1g), L("after", v2g), L("maxkey", v3), L("toolong", v4))
		ss.Close()
		b.Close()
		c.Close()
		emit(L("case", 2, int64(seed), L("cfg", L("alloc", 1)), L("universe", L())))
		emit(res)
		emit(L("end"))
	}
	// ---- byte level: persisted segments parsed by the model ----
	advKeys := [][]byte{{}, []byte("0m1o2s0m1o2s"), []byte("3s4p5s3s4p5s"), {0}, {0xff}, {0, 0}, []byte("a"),
		[]byte("0m1o2s0m1o2s\x04\x00\x00\x00"), []byte("k")}
	for i := 0; i < n; i++ {
		cs := seed*1000003 + uint64(i)
		rr := newRng(cs ^ 0x91)
		dir := mustMkdirTemp(workDir, "codec")
		cfg := Config{LL: "store", MMPn: 8, MMPd: 10, MaxPre: 4}
		h := newH(cfg, dir)
		h.gating = 0
		so, po := h.storeOptions()
		so.CollectionOptions.MergerIdleRunTimeoutMS = -1
		s, c, err := moss.OpenStoreCollection(dir, so, po)
		if err != nil {
			return err
		}
		b, _ := c.NewBatch(0, 0)
		used := map[string]bool{}
		cnt := 0
		for j := 0; j < 1+rr.intn(8); j++ {
			k := advKeys[rr.intn(len(advKeys))]
			if rr.chance(1, 3) {
				k = make([]byte, rr.intn(40))
				for x := range k {
					k[x] = []byte{0, 0xff, 'a', '0', 'm'}[rr.intn(5)]
				}
			}
			if rr.chance(1, 10) {
				k = make([]byte, 4096+rr.intn(3)-1)
			}
			if used[string(k)] {
				continue
			}
			used[string(k)] = true
			v := make([]byte, rr.intn(30))
			for x := range v {
				v[x] = []byte{0, 0xff, 'v', '3', 's'}[rr.intn(5)]
			}
			if rr.chance(1, 8) {
				v = make([]byte, 4096*rr.intn(3)+rr.intn(2))
			}
			switch rr.intn(4) {
			case 0:
				b.Del(k)
			case 1:
				b.Merge(k, v)
			default:
				b.Set(k, v)
			}
			cnt++
		}
		if cnt == 0 {
			b.Set([]byte{}, []byte{})
		}
		c.ExecuteBatch(b, moss.WriteOptions{})
		b.Close()
		waitPersisted(c)
		fs, _ := s.Snapshot()
		d := moss.VerifDumpFooter(fs)
		fs.Close()
		c.Close()
		s.Close()
		emit(L("case", i+3, int64(cs), L("cfg"), L("universe", L())))
		if len(d.Locs) >= 1 && len(d.Segs) >= 1 {
			loc := d.Locs[len(d.Locs)-1]
			seg := []sx{"seg"}
			for _, e := range d.Segs[len(d.Segs)-1] {
				seg = append(seg, entrySx(e))
			}
			emit(L("segfile", fmt.Sprintf("%q", filepath.Join(dir, d.FileName)),
				L("loc", loc.KvsOffset, loc.KvsBytes, loc.BufOffset, loc.BufBytes), seg))
		}
		emit(L("end"))
		_ = os.Remove
	}
	return nil
}
