package main

import (
	"bufio"
	"bytes"
	"fmt"
	"os"
	"runtime/debug"
	"sort"
	"strings"
	"sync/atomic"
	"time"

	"github.com/couchbase/moss"
)

// Family "fault" (C06): the same workload is run clean (recording every file
// operation) and then once per injected failure; after every round the
// collection must still serve everything, the store a batch prefix that never
// shrinks, a round that reports success must contain its batches, failures
// must surface, persistence must catch up once operations succeed again, and
// a reopen must serve what the store last exposed.

type faultRound struct {
	batch   *tbatch
	concern int
}

func genFaultWorkload(r *rng) (Config, []faultRound) {
	cfg := Config{LL: "store", MMPn: 8, MMPd: 10, MaxPre: 4, LevelMaxSegs: 1 + r.intn(2), LevelMult: 2 + r.intn(3),
		PctN: 99, PctD: 100}
	if r.chance(1, 2) {
		cfg.BufPages = 1
	}
	cfg.CompactionSync = r.chance(1, 2)
	cfg.SyncAfterBytes = []int{0, -1, 4096}[r.intn(3)]
	// Merge operands (a round executed twice would fold them twice) and, in half of the
	// workloads, child collections (their segments are written by recursive calls of their own)
	o := genOpts{mergeW: 15}
	if r.chance(1, 2) {
		o.childPct = 40
	}
	g := &gen{r: r, o: o, universe: baseUniverse}
	var rounds []faultRound
	n := 3 + r.intn(3)
	// half of the workloads are shaped for leveled (partial) compaction: one big first segment,
	// then small rounds under CompactionAllow, so that the small segments are spliced in place
	leveled := r.chance(1, 2)
	if leveled {
		cfg.PctN, cfg.PctD = 1, 1
	}
	for i := 0; i < n; i++ {
		b := g.batch(0)
		b.alloc = false
		if len(b.ops) == 0 {
			b.ops = []bop{{'s', []byte("k0"), g.value()}}
		}
		concern := r.pick([]int{4, 3, 3})
		if leveled {
			if i == 0 {
				b.ops = append(b.ops, bop{'s', []byte("big"), bytes.Repeat([]byte{'A'}, 12000+r.intn(20000))})
			} else if r.chance(4, 5) {
				concern = 1
			}
		} else if r.chance(1, 4) { // a big value so that compaction buffers flush more than once
			b.ops = append(b.ops, bop{'s', []byte("big"), bytes.Repeat([]byte{byte('a' + i)}, 9000+r.intn(4000))})
		}
		rounds = append(rounds, faultRound{b, concern})
	}
	return cfg, rounds
}

// applyRef applies a batch (with child collections) to the reference content; keys of child
// collections are prefixed with their path ("c1/", "c1/d1/"); Merge follows the harness operator.
func applyRef(ref map[string][]byte, b *tbatch) { applyRefAt(ref, "", b) }

func applyRefAt(ref map[string][]byte, prefix string, b *tbatch) {
	for _, o := range b.ops {
		k := prefix + string(o.k)
		switch o.op {
		case 's':
			ref[k] = o.v
		case 'd':
			delete(ref, k)
		case 'm':
			cur, ok := ref[k]
			if len(o.v) == 1 && o.v[0] == '=' && ok {
				continue
			}
			n := append(append(append([]byte{}, cur...), ':'), o.v...)
			ref[k] = n
		}
	}
	for _, kd := range b.kids {
		p := prefix + kd.name + "/"
		if kd.del {
			for k := range ref {
				if strings.HasPrefix(k, p) {
					delete(ref, k)
				}
			}
			continue
		}
		applyRefAt(ref, p, kd.b)
	}
}

func snapContent(ss moss.Snapshot) (m map[string][]byte, err error) {
	defer debug.SetPanicOnFault(debug.SetPanicOnFault(true))
	defer func() {
		if rec := recover(); rec != nil {
			err = fmt.Errorf("panic: %v", rec)
		}
	}()
	m = map[string][]byte{}
	err = snapContentAt(ss, "", m, 0)
	return m, err
}

func snapContentAt(ss moss.Snapshot, prefix string, m map[string][]byte, depth int) error {
	it, e := ss.StartIterator(nil, nil, moss.IteratorOptions{})
	if e != nil {
		return e
	}
	if it != nil {
		for {
			k, v, e := it.Current()
			if e == moss.ErrIteratorDone {
				break
			}
			if e != nil {
				it.Close()
				return e
			}
			m[prefix+string(k)] = cp(v)
			if it.Next() != nil {
				break
			}
		}
		it.Close()
	}
	if depth < 3 {
		names, _ := ss.ChildCollectionNames()
		for _, n := range names {
			cs, e := ss.ChildCollectionSnapshot(n)
			if e != nil || cs == nil {
				continue
			}
			e = snapContentAt(cs, prefix+n+"/", m, depth+1)
			cs.Close()
			if e != nil {
				return e
			}
		}
	}
	return nil
}

type faultRun struct {
	ops        []fileOp
	problems   []string
	surfaced   int
	triggered  int
	prefixes   []int
	reopenN    int
	reopenErr  string
	caughtUp   bool
	roundsDone int
	roundEnds  []int    // number of recorded file operations at the end of each round
	roundKinds []string // what the store did in each round: append / partial / full / none
}

// runFaultWorkload executes the workload; faults (possibly nil) are armed
// before round `armAt` and cleared once they have all triggered.
func runFaultWorkload(cfg Config, rounds []faultRound, faults []*faultSpec, armAt int, dir string) *faultRun {
	fr := &faultRun{}
	refs := []map[string][]byte{{}}
	cur := map[string][]byte{}
	for _, rd := range rounds {
		applyRef(cur, rd.batch)
		refs = append(refs, cloneRef(cur))
	}
	executed := 0
	prefixOf := func(m map[string][]byte) int {
		for n := executed; n >= 0; n-- {
			if sameContent(m, refs[n]) {
				return n
			}
		}
		return -1
	}
	var lastPrefix int
	var s *moss.Store
	var c moss.Collection
	var h *H
	rec := &fileRecorder{record: true}
	if faults != nil {
		rec.setFaults(faults)
	}
	var errsTotal int32
	open := func(concern int) error {
		cfg.Concern = concern
		if h != nil {
			errsTotal += atomic.LoadInt32(&h.onErrors)
		}
		h = newH(cfg, dir)
		h.gating = 0
		h.files = rec
		// failures are injected during persistence and compaction, not while opening
		saved := rec.swapFaults(nil)
		defer rec.swapFaults(saved)
		so, po := h.storeOptions()
		so.CollectionOptions.MergerIdleRunTimeoutMS = -1
		var err error
		s, c, err = moss.OpenStoreCollection(dir, so, po)
		return err
	}
	closeAll := func() {
		if c != nil {
			c.Close()
		}
		if s != nil {
			s.Close()
		}
		c, s = nil, nil
		sleepMicros(5000)
	}
	note := func(f string, a ...interface{}) { fr.problems = append(fr.problems, fmt.Sprintf(f, a...)) }
	for ri, rd := range rounds {
		closeAll()
		if err := open(rd.concern); err != nil {
			note("round %d: reopen failed: %v", ri, err)
			return fr
		}
		errsBefore := atomic.LoadInt32(&h.onErrors)
		h.store = s
		ctrBefore := h.storeCounters()
		executed = ri + 1
		if err := (&H{coll: c}).execBatch(rd.batch); err != nil {
			note("round %d: ExecuteBatch: %v", ri, err)
			return fr
		}
		// wait for the round to be persisted, sampling both views meanwhile
		deadline := time.Now().Add(40 * time.Second)
		for {
			st, _ := c.Stats()
			cs, err := c.Snapshot()
			if err == nil {
				m, e := snapContent(cs)
				cs.Close()
				if e != nil {
					note("round %d: collection read failed: %v", ri, e)
				} else if !sameContent(m, refs[ri+1]) {
					note("round %d: collection content is not the reference after %d batches %s", ri, ri+1, diffContent(m, refs[ri+1]))
				}
			}
			fs, _ := s.Snapshot()
			if fs != nil {
				m, e := snapContent(fs)
				fs.Close()
				if e != nil {
					note("round %d: store read failed: %v", ri, e)
				} else {
					p := prefixOf(m)
					if p < 0 {
						note("round %d: store content is not a batch prefix", ri)
					} else {
						if p < lastPrefix {
							note("round %d: store prefix shrank from %d to %d", ri, lastPrefix, p)
						}
						lastPrefix = p
					}
				}
			}
			if st.CurDirtyOps == 0 && st.CurDirtySegments == 0 {
				break
			}
			if faults != nil && rec.triggered() > 0 && time.Now().After(deadline.Add(-38*time.Second)) {
				// failures persisting "until a later point": that point is now
				for _, f := range faults {
					fr.triggered += f.triggered
				}
				rec.setFaults(nil)
				faults = nil
			}
			if time.Now().After(deadline) {
				note("round %d: persistence never caught up (dirty ops %d)", ri, st.CurDirtyOps)
				break
			}
			sleepMicros(300)
		}
		fr.surfaced += int(atomic.LoadInt32(&h.onErrors) - errsBefore)
		// a round that reports success really contains its batches
		st, _ := c.Stats()
		if st.CurDirtyOps == 0 && st.CurDirtySegments == 0 {
			fs, _ := s.Snapshot()
			m, e := snapContent(fs)
			fs.Close()
			if e != nil {
				note("round %d: store read failed after success: %v", ri, e)
			} else if !sameContent(m, refs[ri+1]) {
				note("round %d: persistence reported success but the store lacks batch %d (prefix %d)", ri, ri+1, prefixOf(m))
			}
			fr.roundsDone = ri + 1
		}
		fr.prefixes = append(fr.prefixes, lastPrefix)
		ctrAfter := h.storeCounters()
		switch {
		case ctrAfter.partial > ctrBefore.partial:
			fr.roundKinds = append(fr.roundKinds, "partial")
		case ctrAfter.full > ctrBefore.full:
			fr.roundKinds = append(fr.roundKinds, "full")
		case ctrAfter.persists > ctrBefore.persists:
			fr.roundKinds = append(fr.roundKinds, "append")
		default:
			fr.roundKinds = append(fr.roundKinds, "none")
		}
		h.store = nil
		rec.mu.Lock()
		fr.roundEnds = append(fr.roundEnds, len(rec.ops))
		rec.mu.Unlock()
	}
	rec.mu.Lock()
	fr.ops = append(fr.ops, rec.ops...)
	for _, f := range faults {
		fr.triggered += f.triggered
	}
	rec.mu.Unlock()
	rec.setFaults(nil)
	fr.caughtUp = fr.roundsDone == len(rounds)
	closeAll()
	// reopen: what the store last exposed must be served
	cfg.KeepFiles = true
	if err := open(0); err != nil {
		fr.reopenErr = err.Error()
		fr.reopenN = -1
		note("reopen after the workload failed: %v", err)
	} else {
		cs, _ := c.Snapshot()
		m, e := snapContent(cs)
		cs.Close()
		if e != nil {
			note("reopened content unreadable: %v", e)
			fr.reopenN = -1
		} else {
			fr.reopenN = prefixOf(m)
			if fr.reopenN < lastPrefix {
				note("reopen serves prefix %d but the store had exposed %d", fr.reopenN, lastPrefix)
			}
		}
		closeAll()
	}
	return fr
}

func famFault(w *bufio.Writer, seed uint64, n int) error {
	emit := func(v sx) { w.WriteString(sxString(v)); w.WriteByte('\n') }
	caseID := 0
	for wi := 0; caseID < n; wi++ {
		cs := seed*1000003 + uint64(wi)
		r := newRng(cs ^ 0x7e)
		cfg, rounds := genFaultWorkload(r)
		dir := mustMkdirTemp(workDir, "fault")
		clean := runFaultWorkload(cfg, rounds, nil, -1, dir)
		os.RemoveAll(dir)
		emit(L("case", caseID, int64(cs), cfg.sx(), L("universe", L())))
		emit(L("fault", L("kind", "none"), L("rounds", fmt.Sprintf("%q", fmt.Sprint(clean.roundKinds))),
			L("problems", len(clean.problems)), L("surfaced", clean.surfaced),
			L("triggered", 0), L("caughtup", clean.caughtUp), L("reopen", clean.reopenN, len(rounds)),
			L("detail", fmt.Sprintf("%q", fmt.Sprint(clean.problems)))))
		emit(L("end"))
		caseID++
		// candidate failure points: every recorded op of the clean run
		type cand struct {
			kind, file string
			nth        int
			off        int64
		}
		counts := map[string]int{}
		var cands []cand
		// tails[ri]: the candidates among the last operations of round ri (the footer phase:
		// sync, footer write, sync, stat), where a failure meets the most bookkeeping
		tails := make([][]cand, len(clean.roundEnds))
		var partialRounds []int
		for ri, k := range clean.roundKinds {
			if k == "partial" {
				partialRounds = append(partialRounds, ri)
			}
		}
		roundOf := func(i int) int {
			for ri, e := range clean.roundEnds {
				if i < e {
					return ri
				}
			}
			return -1
		}
		for i, op := range clean.ops {
			k := op.Kind
			if k != "write" && k != "sync" && k != "stat" && k != "create" && k != "open" {
				continue
			}
			key := k + "/" + op.File
			cd := cand{k, op.File, counts[key], op.Off}
			cands = append(cands, cd)
			counts[key]++
			if ri := roundOf(i); ri >= 0 && k != "create" && k != "open" {
				tails[ri] = append(tails[ri], cd)
				if len(tails[ri]) > 6 {
					tails[ri] = tails[ri][1:]
				}
			}
		}
		per := 12
		for j := 0; j < per && caseID < n && len(cands) > 0; j++ {
			cd := cands[r.intn(len(cands))]
			where := "any"
			if r.chance(1, 2) && len(tails) > 0 {
				ri := r.intn(len(tails))
				if len(partialRounds) > 0 && r.chance(2, 3) {
					ri = partialRounds[r.intn(len(partialRounds))]
				}
				if len(tails[ri]) > 0 {
					cd = tails[ri][r.intn(len(tails[ri]))]
					where = fmt.Sprintf("tail-of-round-%d-%s", ri, clean.roundKinds[ri])
				}
			}
			kind := cd.kind
			if kind == "create" {
				kind = "open"
			}
			if kind == "write" && r.chance(1, 4) {
				kind = "shortwrite"
			}
			burst := []int{1, 1, 2, 5, -1}[r.intn(5)]
			spec := &faultSpec{Kind: kind, File: cd.file, Skip: cd.nth, Count: burst}
			if kind == "open" {
				spec.File = ""
				spec.Skip = 0
			}
			if r.chance(1, 10) {
				// the load of the freshly written segments fails (Stat/mmap behind OsFile(), which the
				// recording does not show): the k-th load on this file
				kind, where = "osfile", "segment-load"
				spec = &faultSpec{Kind: kind, File: cd.file, Skip: r.intn(4), Count: burst}
			}
			armAt := 0
			dir := mustMkdirTemp(workDir, "fault")
			fr := runFaultWorkload(cfg, rounds, []*faultSpec{spec}, armAt, dir)
			os.RemoveAll(dir)
			emit(L("case", caseID, int64(cs), cfg.sx(), L("universe", L())))
			emit(L("fault", L("kind", kind), L("file", fmt.Sprintf("%q", cd.file)), L("nth", cd.nth), L("burst", burst),
				L("where", where), L("rounds", fmt.Sprintf("%q", fmt.Sprint(fr.roundKinds))),
				L("problems", len(fr.problems)), L("surfaced", fr.surfaced), L("triggered", fr.triggered),
				L("caughtup", fr.caughtUp), L("reopen", fr.reopenN, len(rounds)),
				L("detail", fmt.Sprintf("%q", fmt.Sprint(fr.problems)))))
			emit(L("end"))
			caseID++
		}
	}
	return nil
}

// diffContent names up to three keys on which two contents differ.
func diffContent(got, want map[string][]byte) string {
	var ks []string
	for k := range got {
		ks = append(ks, k)
	}
	for k := range want {
		if _, ok := got[k]; !ok {
			ks = append(ks, k)
		}
	}
	sort.Strings(ks)
	out := "{"
	n := 0
	for _, k := range ks {
		g, okg := got[k]
		w, okw := want[k]
		if okg != okw || !bytes.Equal(g, w) {
			if len(g) > 24 {
				g = g[:24]
			}
			if len(w) > 24 {
				w = w[:24]
			}
			out += fmt.Sprintf(" %q: got %q(%v) want %q(%v);", k, g, okg, w, okw)
			if n++; n >= 3 {
				break
			}
		}
	}
	return out + " }"
}
