package main

import (
	"bufio"
	"fmt"
	"os"
	"sync/atomic"
	"time"

	"github.com/couchbase/moss"
)

// Family "owners": the LIVE tie of the ownership model (coq/Owners.v).  A
// fixed set of scripted scenarios is run against the real library through
// its public API, with the merger and the persister stepped gate by gate,
// and every AddRef/DecRef (hook VerifOnRef) is recorded.  One trace line
// per scenario:
//
//	(owners (scenario <name>) (steps <n>) (choices ...) (notes ...) (nfiles <n>) (files ...)
//	        (events (<kind> <objid> <count-after>) ...))
//
// ocaml/ownersrun.ml evaluates the model's run_events on the operation list
// that coq/OwnersScenarios.v gives for <name> (xrun_events and
// coq/OwnersRevertScenarios.v for the scenarios with SnapshotRevert and
// Store.OpenCollection) and compares event by event, modulo a renaming of
// object ids.  Each step below corresponds to exactly
// one operation of the model (named in the comment of its constructor).

type ostep struct {
	k      string // step kind
	h      int    // handle index (position in the list of open handles, as in the model)
	b      *tbatch
	skipLL bool
	start  []byte
}

type oscn struct {
	name  string
	cfg   Config
	steps []ostep
}

// one open user handle
type ohandle struct {
	snap moss.Snapshot
	iter moss.Iterator
}

var ownersPaused int32 // the harness is observing: reference-count events are not recorded

var ownersMergeFail int32 // when set, FullMerge fails: lowerLevelIter.Current() returns an error

type ownersMergeOp struct{ mergeOp }

func (mo *ownersMergeOp) FullMerge(key, existing []byte, operands [][]byte) ([]byte, bool) {
	if atomic.LoadInt32(&ownersMergeFail) != 0 {
		return nil, false
	}
	return mo.mergeOp.FullMerge(key, existing, operands)
}

const ownersChild = "c1"

// ---- step constructors (the model operation in the comment) ----

func oval(seed uint64, n int) []byte {
	return []byte(fmt.Sprintf("%08x", uint32(seed*2654435761+uint64(n)*40503)))
}

// OpBatch: a batch writing the top-level collection
func sBatchTop(seed uint64, n int) ostep {
	return ostep{k: "batch", b: &tbatch{ops: []bop{{'s', []byte(fmt.Sprintf("k%d", n%10)), oval(seed, n)}}}}
}

// OpBatch: a big first batch (later small rounds are then spliced by a partial compaction)
func sBatchBig(seed uint64) ostep {
	v := make([]byte, 4000)
	for i := range v {
		v[i] = byte('a' + (int(seed)+i)%26)
	}
	return ostep{k: "batch", b: &tbatch{ops: []bop{{'s', []byte("k0"), v}}}}
}

// OpBatch: a batch writing only the child collection c1
func sBatchChild(seed uint64, n int) ostep {
	return ostep{k: "batch", b: &tbatch{kids: []kid{{name: ownersChild,
		b: &tbatch{ops: []bop{{'s', []byte(fmt.Sprintf("k%d", n%10)), oval(seed, n)}}}}}}}
}

// OpBatch: top-level and child data
func sBatchBoth(seed uint64, n int) ostep {
	return ostep{k: "batch", b: &tbatch{ops: []bop{{'s', []byte(fmt.Sprintf("k%d", n%10)), oval(seed, n)}},
		kids: []kid{{name: ownersChild, b: &tbatch{ops: []bop{{'s', []byte(fmt.Sprintf("k%d", n%10)), oval(seed, n+1)}}}}}}}
}

// OpBatch: a Merge operation on a key (left unresolved in the persisted segment)
func sBatchMerge(seed uint64, n int) ostep {
	return ostep{k: "batch", b: &tbatch{ops: []bop{{'m', []byte(fmt.Sprintf("k%d", n%10)), oval(seed, n)}}}}
}

// OpDropChildren: a batch that deletes the child collection
func sDrop() ostep {
	return ostep{k: "batch", b: &tbatch{kids: []kid{{name: ownersChild, del: true}}}}
}

func sK(k string) ostep        { return ostep{k: k} }
func sH(k string, h int) ostep { return ostep{k: k, h: h} }

// OpIterStart h ik: the iterator kind follows from the state and these options
func sIter(h int, skipLL bool, start string) ostep {
	var st []byte
	if start != "" {
		st = []byte(start)
	}
	return ostep{k: "iter", h: h, skipLL: skipLL, start: st}
}

// one merger cycle and one persistence round after a batch:
// OpBatch; OpMergerIngest; OpMergerSwap; OpMergerHandover; OpPersistBegin; OpPersistRun; OpPersistPublish
func oround(b ostep) []ostep {
	return []ostep{b, sK("ingest"), sK("swap"), sK("handover"), sK("pbegin"), sK("prun"), sK("ppublish")}
}

// the rest of a cycle for a batch already executed
func ocycle() []ostep {
	return []ostep{sK("ingest"), sK("swap"), sK("handover"), sK("pbegin"), sK("prun"), sK("ppublish")}
}

func ocat(parts ...[]ostep) []ostep {
	var out []ostep
	for _, p := range parts {
		out = append(out, p...)
	}
	return out
}

func ownersScenarios(seed uint64) []oscn {
	base := Config{LL: "store", MMPn: 8, MMPd: 10, MaxPre: 16, LevelMaxSegs: 4, LevelMult: 3, PctN: 1, PctD: 1}
	disable, allow, force := base, base, base
	disable.Concern, allow.Concern, force.Concern = 0, 1, 2
	partial := allow
	partial.LevelMaxSegs, partial.LevelMult, partial.CachePersisted = 1, 3, true
	closeAll := []ostep{sK("collclose"), sK("storeclose")}
	return []oscn{
		// 0: two appended rounds; fresh and cached collection snapshot, store snapshot, iterator on the
		// fully persisted collection (the footer's own iterator is handed out); closes
		{"append_rounds_snapshots", disable, ocat(
			oround(sBatchTop(seed, 1)), oround(sBatchTop(seed, 2)),
			[]ostep{sK("snap"), sK("snap"), sK("storesnap"), sIter(0, false, ""),
				sH("close", 3), sH("close", 0), sH("close", 0), sH("close", 0)}, closeAll)},
		// 1: heap iterator with a lower-level iterator; the snapshot is closed BEFORE its iterator, a batch
		// invalidates the cached copy, SeekTo re-creates the cursors (repair 75e1b64)
		{"heap_iter_snapshot_closed_first", disable, ocat(
			oround(sBatchTop(seed, 1)),
			[]ostep{sBatchTop(seed, 2), sK("snap"), sIter(0, false, ""), sH("close", 0),
				sBatchTop(seed, 3), sH("seek", 0), sH("seek", 0), sH("close", 0)},
			ocycle(), closeAll)},
		// 2: a child collection, CompactionForce (every round compacts into a new file and unlinks the
		// old one); store snapshot, its child snapshot, SnapshotPrevious (none), collection snapshot,
		// its child snapshot, iterator on that; closes
		{"force_compaction_child", force, ocat(
			oround(sBatchBoth(seed, 1)), oround(sBatchBoth(seed, 2)),
			[]ostep{sK("storesnap"), sH("childsnap", 0), sH("prev", 0), sK("snap"), sH("childsnap", 2),
				sIter(3, false, ""), sH("close", 4), sH("close", 3), sH("close", 2), sH("close", 1), sH("close", 0)},
			closeAll)},
		// 3: CompactionAllow with CachePersisted and level options that give a PARTIAL compaction in the
		// third round; heap iterator over cached segments with a lower-level iterator, SeekTo, an
		// iteratorSingle (SkipLowerLevel, one cached segment), snapshot closed before the iterators
		{"partial_compaction_cached", partial, ocat(
			oround(sBatchBig(seed)), oround(sBatchTop(seed, 1)), oround(sBatchTop(seed, 2)),
			[]ostep{sK("snap"), sIter(0, false, ""), sIter(0, true, ""), sH("seek", 1), sH("seekfar", 2), sH("close", 0),
				sH("seek", 1), sH("close", 0), sH("close", 0)},
			closeAll)},
		// 4: a child collection dropped and re-created while the persister is held at persister:begin of
		// the round that persists the drop; a user snapshot sees the prior incarnation in the lower level
		{"drop_recreate_persister_held", disable, ocat(
			oround(sBatchBoth(seed, 1)),
			[]ostep{sDrop(), sK("ingest"), sK("swap"), sK("handover"), sK("pbegin"),
				sBatchBoth(seed, 2), sK("ingest"), sK("swap"), sK("handover"),
				sK("snap"),
				sK("prun"), sK("ppublish")},
			ocycle(),
			[]ostep{sH("close", 0)}, closeAll)},
		// 5: history walk (SnapshotPrevious finding a footer, then none), Collection.Get reaching the lower
		// level, iterators with SkipLowerLevel and with a lower-level iterator that is done at once, an
		// idle merger cycle (NotifyMerger) handing an empty stack to the persister
		{"history_get_idle_cycle", disable, ocat(
			oround(sBatchTop(seed, 1)), oround(sBatchTop(seed, 2)),
			[]ostep{sK("storesnap"), sH("prev", 0), sH("prev", 1), sK("get"), sK("snap"),
				sIter(2, true, ""), sIter(2, false, "zzz"), sK("notify")},
			ocycle(),
			[]ostep{sH("close", 4), sH("close", 3), sH("close", 2), sH("close", 1), sH("close", 0)}, closeAll)},
		// 6: every kind of iterator on a fully persisted collection; the snapshot is closed first, then
		// SeekTo on each, closes in creation order
		{"iter_kinds_fully_persisted", disable, ocat(
			oround(sBatchTop(seed, 1)),
			[]ostep{sK("snap"), sIter(0, false, ""), sIter(0, true, ""), sIter(0, false, "zzz"), sH("close", 0),
				sH("seek", 0), sH("seek", 0), sH("seek", 0),
				sH("close", 2), sH("close", 0), sH("close", 0)},
			closeAll)},
		// 7: store snapshot handles: iterator on a store snapshot and on its child snapshot, previous
		// snapshot with a child footer, store snapshot closed before its iterators, collection and
		// store closed while a previous snapshot and an iterator are still open
		{"store_snapshot_iterators", disable, ocat(
			oround(sBatchBoth(seed, 1)), oround(sBatchBoth(seed, 2)),
			[]ostep{sK("storesnap"), sIter(0, false, ""), sH("childsnap", 0), sIter(2, false, ""), sH("prev", 0),
				sH("close", 0), sH("seek", 0), sH("close", 0)},
			closeAll,
			[]ostep{sH("close", 0), sH("close", 1), sH("close", 0)})},
		// 8: handles taken while the merger and the persister are held in the middle of their cycles:
		// snapshot between ingest and swap, heap iterator between swap and hand-over, store snapshot
		// and a second collection snapshot while the persister is held before publish
		{"handles_between_gates", disable, ocat(
			oround(sBatchTop(seed, 1)),
			[]ostep{sBatchTop(seed, 2), sK("ingest"), sK("snap"), sK("swap"), sIter(0, false, ""), sK("handover"),
				sK("pbegin"), sK("prun"), sK("storesnap"), sK("snap"), sK("ppublish"),
				sH("seek", 1), sH("close", 0), sH("close", 1), sH("close", 0), sH("close", 0)},
			closeAll)},
		// 9: all data in the child collection under CompactionAllow: the incoming top-level size is 0, so
		// every round is a full compaction into a new file (the first one from the empty footer, whose
		// childFileRef() is nil).  The history of repair 1882285 itself - child-only data APPENDED, then a
		// full compaction - needs a reopen under another concern, which the model has no operation for.
		{"child_only_full_compaction", allow, ocat(
			oround(sBatchChild(seed, 1)), oround(sBatchChild(seed, 2)),
			[]ostep{sK("snap"), sH("childsnap", 0), sIter(1, false, ""), sH("close", 0), sH("close", 0), sH("close", 0)},
			closeAll)},
		// 10: known finding F31: the only child collection holding data is dropped, the next footer has no
		// segment at all, the following round starts a new file
		{"drop_only_child_new_file", disable, ocat(
			oround(sBatchChild(seed, 1)), oround(sDrop()), oround(sBatchTop(seed, 2)), closeAll)},
		// 11: the error return of startIterator: the lower-level iterator's Current() fails (a merge
		// operator that fails) and is closed (repair 8951c44)
		{"iterator_error_return", disable, ocat(
			oround(sBatchMerge(seed, 1)),
			[]ostep{sK("snap"), sK("failon"), sIter(0, false, ""), sK("failoff"), sIter(0, false, ""),
				sH("close", 0), sH("close", 0)},
			closeAll)},
		// 12: two batches ingested together, CachePersisted, a full compaction; the collection is closed
		// while two snapshots and a heap iterator are open, then SeekTo, the handles, then the store
		{"close_collection_before_handles", partial, ocat(
			oround(sBatchTop(seed, 1)),
			[]ostep{sBatchTop(seed, 2), sBatchTop(seed, 3), sK("snap")},
			ocycle(),
			[]ostep{sIter(0, false, ""), sK("snap"), sK("collclose"), sH("seek", 1), sH("close", 0), sH("close", 1),
				sH("close", 0), sK("storeclose")})},
		// ---- the extended model (coq/OwnersRevert.v): XPrev, XRevert, XOpenColl ----
		// 13: two appended rounds, collection closed, Store.Snapshot, SnapshotPrevious, SnapshotRevert to the
		// previous snapshot which STAYS OPEN, Store.OpenCollection, one more round, a store snapshot and
		// its previous one (the footer that the revert wrote), closes
		{"revert_previous_held", disable, ocat(
			oround(sBatchTop(seed, 1)), oround(sBatchTop(seed, 2)),
			[]ostep{sK("collclose"), sK("storesnap"), sH("prev", 0), sH("revert", 1), sK("opencoll")},
			oround(sBatchTop(seed, 3)),
			[]ostep{sK("storesnap"), sH("prev", 2),
				sH("close", 1), sH("close", 0), sH("close", 1), sH("close", 0)}, closeAll)},
		// 14: the same with a child collection: the previous snapshot's child snapshot is held too, a revert
		// to that CHILD snapshot is refused, the revert builds new child footers, OpenCollection restores the
		// child collection, a round writes both, collection snapshot / child snapshot / iterator; the
		// previous snapshot is closed while its child snapshot and the new footers are still in use
		{"revert_child_previous_held", disable, ocat(
			oround(sBatchBoth(seed, 1)), oround(sBatchBoth(seed, 2)),
			[]ostep{sK("collclose"), sK("storesnap"), sH("prev", 0), sH("childsnap", 1), sH("revert", 2),
				sH("revert", 1), sK("opencoll")},
			oround(sBatchBoth(seed, 3)),
			[]ostep{sK("snap"), sH("childsnap", 3), sIter(4, false, ""),
				sH("close", 1), sH("close", 0), sH("close", 1), sH("close", 2), sH("close", 1), sH("close", 0)},
			closeAll)},
		// 15: the previous snapshot is closed right after the revert, BEFORE the continuation: the new
		// footer alone keeps the shared mappings alive through two more rounds
		{"revert_previous_closed_first", disable, ocat(
			oround(sBatchTop(seed, 1)), oround(sBatchTop(seed, 2)),
			[]ostep{sK("collclose"), sK("storesnap"), sH("prev", 0), sH("close", 0), sH("revert", 0), sH("close", 0),
				sK("opencoll")},
			oround(sBatchTop(seed, 3)), oround(sBatchTop(seed, 4)),
			[]ostep{sK("snap"), sIter(0, false, ""), sH("close", 0), sH("close", 0)}, closeAll)},
		// 16: all data in the child collection (the file is reached through the child footers: repair
		// 8f6c423): previous, revert, OpenCollection, a round, previous of the new state, the collection
		// closed and a second revert, to the CURRENT snapshot
		{"revert_child_only", disable, ocat(
			oround(sBatchChild(seed, 1)), oround(sBatchChild(seed, 2)),
			[]ostep{sK("collclose"), sK("storesnap"), sH("prev", 0), sH("revert", 1), sK("opencoll")},
			oround(sBatchChild(seed, 3)),
			[]ostep{sK("storesnap"), sH("prev", 2), sK("collclose"), sH("revert", 2),
				sH("close", 3), sH("close", 2), sH("close", 1), sH("close", 0), sK("storeclose")})},
	}
}

type ownersRun struct {
	h       *H
	handles []*ohandle
	choices []sx
	notes   []string
}

func (or *ownersRun) note(f string, a ...interface{}) {
	or.notes = append(or.notes, fmt.Sprintf(f, a...))
}

func (or *ownersRun) step(s ostep) error {
	h := or.h
	switch s.k {
	case "batch":
		if err := h.execBatch(s.b); err != nil {
			return err
		}
		return h.quiesce()
	case "ingest":
		if err := h.waitPark("merger", "merger:ingest"); err != nil {
			return err
		}
		h.releaseActor("merger")
		return h.waitPark("merger", "merger:swap")
	case "swap":
		if err := h.waitPark("merger", "merger:swap"); err != nil {
			return err
		}
		h.releaseActor("merger")
		return h.waitPark("merger", "merger:handover")
	case "handover":
		if err := h.waitPark("merger", "merger:handover"); err != nil {
			return err
		}
		h.releaseActor("merger")
		return h.quiesce()
	case "pbegin":
		return h.waitPark("persister", "persister:begin")
	case "prun":
		if err := h.waitPark("persister", "persister:begin"); err != nil {
			return err
		}
		// Store.Stats takes and gives back a reference on the footer: the harness's own
		// observation is kept out of the recording (both actors are parked meanwhile)
		atomic.StoreInt32(&ownersPaused, 1)
		before := h.storeCounters()
		atomic.StoreInt32(&ownersPaused, 0)
		h.releaseActor("persister")
		if err := h.waitPark("persister", "persister:publish"); err != nil {
			return err
		}
		atomic.StoreInt32(&ownersPaused, 1)
		or.choices = append(or.choices, h.persistChoice(before))
		atomic.StoreInt32(&ownersPaused, 0)
		return nil
	case "ppublish":
		if err := h.waitPark("persister", "persister:publish"); err != nil {
			return err
		}
		h.releaseActor("persister")
		return h.quiesce()
	case "notify":
		if err := h.coll.(interface {
			NotifyMerger(string, bool) error
		}).NotifyMerger("mergeAll", false); err != nil {
			return err
		}
		return h.waitPark("merger", "merger:ingest")
	case "snap":
		ss, err := h.coll.Snapshot()
		if err != nil {
			return err
		}
		or.handles = append(or.handles, &ohandle{snap: ss})
	case "storesnap":
		ss, err := h.store.Snapshot()
		if err != nil {
			return err
		}
		or.handles = append(or.handles, &ohandle{snap: ss})
	case "childsnap":
		cs, err := or.handles[s.h].snap.ChildCollectionSnapshot(ownersChild)
		if err != nil {
			return err
		}
		if cs == nil {
			or.note("childsnap %d: none", s.h)
			return nil
		}
		or.handles = append(or.handles, &ohandle{snap: cs})
	case "prev":
		ps, err := h.store.SnapshotPrevious(or.handles[s.h].snap)
		if err != nil {
			return err
		}
		if ps == nil {
			or.choices = append(or.choices, L("prev", "none"))
			return nil
		}
		or.choices = append(or.choices, L("prev", "found"))
		or.handles = append(or.handles, &ohandle{snap: ps})
	case "revert":
		// XRevert h: Store.SnapshotRevert to an open handle (the collection is closed)
		if err := h.store.SnapshotRevert(or.handles[s.h].snap); err != nil {
			or.choices = append(or.choices, L("revert", "refused"))
			or.note("revert %d: %v", s.h, err)
			return nil
		}
		or.choices = append(or.choices, L("revert", "done"))
	case "opencoll":
		// XOpenColl: Store.OpenCollection on the open store, gates on again
		if h.coll != nil {
			return fmt.Errorf("opencoll with a collection open")
		}
		atomic.StoreInt32(&h.gating, 1)
		so, po := h.storeOptions()
		so.CollectionOptions.MergeOperator = &ownersMergeOp{}
		c, err := h.store.OpenCollection(so, po)
		if err != nil {
			return err
		}
		h.coll = c
		return h.quiesce()
	case "iter":
		it, err := or.handles[s.h].snap.StartIterator(s.start, nil, moss.IteratorOptions{SkipLowerLevel: s.skipLL})
		if err != nil {
			or.choices = append(or.choices, L("iter", "error"))
			return nil
		}
		if it == nil {
			or.choices = append(or.choices, L("iter", "nil"))
			return nil
		}
		or.choices = append(or.choices, L("iter", fmt.Sprintf("%T", it)))
		or.handles = append(or.handles, &ohandle{iter: it})
	case "seek":
		// a key before every key: the iterator re-creates its cursors.  Convention shared with
		// the model: the handle is re-inserted at the end of the handle list.
		hd := or.handles[s.h]
		if err := hd.iter.SeekTo([]byte{}); err != nil && err != moss.ErrIteratorDone {
			or.note("seek %d: %v", s.h, err)
		}
		or.handles = append(append(or.handles[:s.h:s.h], or.handles[s.h+1:]...), hd)
	case "seekfar":
		// a key behind every key of every level, one naive step only: the iterator re-creates its cursors
		// while its lower-level iterator is alive, and the new lower-level iterator is done at once
		hd := or.handles[s.h]
		old := moss.DefaultNaiveSeekToMaxTries
		moss.DefaultNaiveSeekToMaxTries = 1
		err := hd.iter.SeekTo([]byte{0xff, 0xff, 0xff, 0xff})
		moss.DefaultNaiveSeekToMaxTries = old
		if err != nil && err != moss.ErrIteratorDone {
			or.note("seekfar %d: %v", s.h, err)
		}
		or.handles = append(append(or.handles[:s.h:s.h], or.handles[s.h+1:]...), hd)
	case "get":
		if _, err := h.coll.Get([]byte("k9"), moss.ReadOptions{}); err != nil {
			return err
		}
	case "close":
		hd := or.handles[s.h]
		if hd.iter != nil {
			hd.iter.Close()
		} else {
			hd.snap.Close()
		}
		or.handles = append(or.handles[:s.h], or.handles[s.h+1:]...)
	case "failon":
		atomic.StoreInt32(&ownersMergeFail, 1)
	case "failoff":
		atomic.StoreInt32(&ownersMergeFail, 0)
	case "collclose":
		if h.parkedAt("merger") != "" || h.parkedAt("persister") != "" {
			return fmt.Errorf("collclose with an actor in the middle of a cycle: merger %q persister %q",
				h.parkedAt("merger"), h.parkedAt("persister"))
		}
		atomic.StoreInt32(&h.gating, 0)
		done := make(chan error, 1)
		c := h.coll
		go func() { done <- c.Close() }()
		select {
		case err := <-done:
			h.coll = nil
			return err
		case <-time.After(60 * time.Second):
			return fmt.Errorf("collection Close timeout")
		}
	case "storeclose":
		err := h.store.Close()
		h.store = nil
		return err
	default:
		return fmt.Errorf("owners: unknown step %q", s.k)
	}
	return nil
}

func ownersKind(k string) string {
	switch k {
	case "FileRef":
		return "file"
	case "mmapRef":
		return "mmap"
	case "Footer":
		return "footer"
	case "segmentStack":
		return "stack"
	case "SnapshotWrapper":
		return "wrap"
	}
	return k
}

func famOwners(w *bufio.Writer, seed uint64, n int) error {
	emit := func(v sx) { w.WriteString(sxString(v)); w.WriteByte('\n') }
	defer func() { moss.VerifOnRef = nil }()
	scns := ownersScenarios(seed)
	only := os.Getenv("VERIF_OWNERS_ONLY")
	// A check run splits the family over several director processes of n cases each, with consecutive
	// seeds: process k runs the k-th block of n scenarios (modulo their number), so that the processes of
	// one run cover every scenario even when n is smaller than the number of scenarios.
	off := int(seed%uint64(len(scns))) * n
	for i := 0; i < n; i++ {
		sc := scns[(off+i)%len(scns)]
		if only != "" && only != sc.name {
			continue
		}
		cs := seed*1000003 + uint64(i)
		dir := mustMkdirTemp(workDir, "owners")
		h := newH(sc.cfg, dir)
		// open as H.open does, with a merge operator that can be made to fail
		atomic.StoreInt32(&h.gating, 1)
		so, po := h.storeOptions()
		so.CollectionOptions.MergeOperator = &ownersMergeOp{}
		s, c, err := moss.OpenStoreCollection(dir, so, po)
		if err != nil {
			return err
		}
		h.store, h.coll = s, c
		if err := h.quiesce(); err != nil {
			return err
		}
		// events are recorded from here on: the model's initial state is the state after
		// OpenStoreCollection on an empty directory
		rr := &refRec{ids: map[uintptr]int{}, kinds: map[int]string{}}
		moss.VerifOnRef = func(kind string, obj interface{}, after int) {
			if atomic.LoadInt32(&ownersPaused) == 0 {
				rr.hook(kind, obj, after)
			}
		}
		or := &ownersRun{h: h}
		var failed error
		done := 0
		for _, st := range sc.steps {
			if err := or.step(st); err != nil {
				failed = fmt.Errorf("scenario %s step %d (%s): %v", sc.name, done, st.k, err)
				break
			}
			done++
		}
		moss.VerifOnRef = nil
		atomic.StoreInt32(&ownersMergeFail, 0)
		// anything the script left open (only after a failure)
		for _, hd := range or.handles {
			if failed == nil {
				or.note("handle left open by the script")
			}
			if hd.iter != nil {
				hd.iter.Close()
			} else {
				hd.snap.Close()
			}
		}
		if h.coll != nil || h.store != nil {
			if failed == nil {
				or.note("collection or store left open by the script")
			}
			h.closeAll()
		}
		// the unlink of a file compacted away runs in its own goroutine
		nfiles := -1
		if failed == nil {
			time.Sleep(30 * time.Millisecond)
			for tries := 0; tries < 100; tries++ {
				a := len(listDataFiles(dir))
				time.Sleep(20 * time.Millisecond)
				if b := len(listDataFiles(dir)); a == b {
					nfiles = b
					break
				}
			}
		}
		rr.mu.Lock()
		evs := []sx{"events"}
		for _, e := range rr.events {
			evs = append(evs, L(ownersKind(rr.kinds[e[0]]), e[0], e[1]))
		}
		rr.mu.Unlock()
		emit(L("case", i, int64(cs), sc.cfg.sx(), L("universe", L())))
		emit(L("owners", L("scenario", sc.name), L("steps", done),
			append([]sx{"choices"}, or.choices...),
			L("notes", len(or.notes), fmt.Sprintf("%q", fmt.Sprint(or.notes))),
			L("nfiles", nfiles), L("files", fmt.Sprintf("%q", fmt.Sprint(listDataFiles(dir)))), evs))
		emit(L("end"))
		os.RemoveAll(dir)
		if failed != nil {
			return failed
		}
	}
	return nil
}
