package main

import (
	"bufio"
	"bytes"
	"fmt"
	"os"
	"runtime/debug"
	"sort"
	"strconv"
	"strings"
	"sync/atomic"
	"unsafe"

	"github.com/couchbase/moss"
)

// ---------------------------------------------------------------------
// Batches with child collections.

type bop struct {
	op   byte // 's' 'd' 'm'
	k, v []byte
}

type kid struct {
	name string
	del  bool
	b    *tbatch
}

type tbatch struct {
	ops   []bop
	kids  []kid
	alloc bool // build with Alloc/AllocSet/...
}

func (b *tbatch) sx() sx {
	ops := []sx{"ops"}
	for _, o := range b.ops {
		switch o.op {
		case 's':
			ops = append(ops, L("s", o.k, o.v))
		case 'd':
			ops = append(ops, L("d", o.k))
		case 'm':
			ops = append(ops, L("m", o.k, o.v))
		}
	}
	kids := []sx{"kids"}
	for _, k := range b.kids {
		if k.del {
			kids = append(kids, L("x", []byte(k.name)))
		} else {
			kids = append(kids, L("c", []byte(k.name), k.b.sx()))
		}
	}
	return L("tb", ops, kids)
}

func (b *tbatch) sizes() (nops, nbytes int) {
	for _, o := range b.ops {
		nops++
		nbytes += len(o.k) + len(o.v)
	}
	return
}

func (b *tbatch) fill(mb moss.Batch) error {
	for _, o := range b.ops {
		var err error
		if b.alloc {
			buf, e := mb.Alloc(len(o.k) + len(o.v))
			if e != nil {
				return e
			}
			copy(buf, o.k)
			copy(buf[len(o.k):], o.v)
			kk, vv := buf[:len(o.k)], buf[len(o.k):]
			switch o.op {
			case 's':
				err = mb.AllocSet(kk, vv)
			case 'd':
				err = mb.AllocDel(kk)
			case 'm':
				err = mb.AllocMerge(kk, vv)
			}
		} else {
			switch o.op {
			case 's':
				err = mb.Set(o.k, o.v)
			case 'd':
				err = mb.Del(o.k)
			case 'm':
				err = mb.Merge(o.k, o.v)
			}
		}
		if err != nil {
			return err
		}
	}
	for _, k := range b.kids {
		if k.del {
			if err := mb.DelChildCollection(k.name); err != nil {
				return err
			}
			continue
		}
		n, nb := k.b.sizes()
		cb, err := mb.NewChildCollectionBatch(k.name, moss.BatchOptions{TotalOps: n, TotalKeyValBytes: nb})
		if err != nil {
			return err
		}
		if err := k.b.fill(cb); err != nil {
			return err
		}
	}
	return nil
}

func (h *H) execBatch(b *tbatch) error {
	n, nb := b.sizes()
	mb, err := h.coll.NewBatch(n, nb)
	if err != nil {
		return err
	}
	if err := b.fill(mb); err != nil {
		return err
	}
	err = h.coll.ExecuteBatch(mb, moss.WriteOptions{})
	mb.Close()
	return err
}

// ---------------------------------------------------------------------
// Generator.

type genOpts struct {
	mergeW       int // weight of Merge among ops (Set 55, Del 25)
	childPct     int // % chance that a batch carries child ops
	allocPct     int
	bigKey       bool
	persistHeavy bool
	focusChild   bool         // tree mode, unread-segment profile: all batches write one child collection
	script       []scriptStep // when set: the labels to execute, in order
	wideFirst    bool         // first batch touches every key, later ones one or two
	blind        bool         // no observation (hence no read) between labels
	bigFirst     bool         // the first batch carries one large value: later small rounds are then spliced by leveled (partial) compaction
	nilMerge     bool         // Merge operand "!" makes FullMerge return nil
}

var baseUniverse = [][]byte{
	{}, []byte("a"), []byte("ab"), []byte("ab\x00"), []byte("b"),
	{0xff}, {0xff, 0xff}, []byte("k0"), []byte("k1"), []byte("k2"),
}

var childNames = []string{"c1", "c2"}

type gen struct {
	r        *rng
	o        genOpts
	universe [][]byte
	vctr     int
	nopsAt   [3]int
	// child collections of the root that the previous batch deleted: re-created at once, with data,
	// by two batches in three - deletion and re-creation then often travel in ONE persistence round,
	// next to top-level data (incarnation checks of merger, persister and every kind of compaction)
	justDeleted []string
}

func (g *gen) value() []byte {
	switch g.r.intn(10) {
	case 0:
		return []byte{}
	case 1:
		g.vctr++
		return []byte(fmt.Sprintf("v%d\x00z", g.vctr))
	}
	g.vctr++
	return []byte(fmt.Sprintf("v%d", g.vctr))
}

func (g *gen) ops(max int) []bop { return g.opsAt(max, 0) }

// opsAt: the operations of one batch node at the given child depth.
func (g *gen) opsAt(max, depth int) []bop {
	n := g.r.intn(max + 1)
	if g.o.wideFirst && depth < len(g.nopsAt) {
		// one wide batch first (per depth), narrow ones afterwards: the merger then leaves the old,
		// large segment alone (calcTargetTopLevel) and it travels down to the persister unmerged
		if g.nopsAt[depth] == 0 {
			n = len(g.universe)
		} else {
			n = 1 + g.r.intn(2)
		}
		g.nopsAt[depth]++
	}
	perm := make([]int, len(g.universe))
	for i := range perm {
		perm[i] = i
	}
	for i := len(perm) - 1; i > 0; i-- {
		j := g.r.intn(i + 1)
		perm[i], perm[j] = perm[j], perm[i]
	}
	var out []bop
	for i := 0; i < n && i < len(perm); i++ {
		k := g.universe[perm[i]]
		switch g.r.pick([]int{55, 25, g.o.mergeW}) {
		case 0:
			out = append(out, bop{'s', k, g.value()})
		case 1:
			out = append(out, bop{'d', k, nil})
		case 2:
			v := g.value()
			if g.o.nilMerge && g.r.chance(1, 8) {
				v = []byte("!")
			} else if g.r.chance(1, 8) {
				v = []byte("=") // the operator returns the existing value as it is
			}
			out = append(out, bop{'m', k, v})
		}
	}
	return out
}

type scriptStep struct {
	choice int // 0 batch, 1 merger step, 2 persister step, 3 notify, 4 snap, 5 snapclose, 6 reopen
	batch  *tbatch
}

// parseScript reads one step per line:
//
//	b <path> <s|d|m> <key> [<val>] ; ...   a batch; path "" or c1 or c1/d1; several ops separated by ';'
//	m | p | n | snap | snapclose | r         merger step, persister step, notify, snapshot, close one, reopen
func parseScript(text string) ([]scriptStep, error) {
	var out []scriptStep
	for _, ln := range strings.Split(text, "\n") {
		ln = strings.TrimSpace(ln)
		if ln == "" || ln[0] == '#' {
			continue
		}
		f := strings.Fields(ln)
		switch f[0] {
		case "cfg": // options of the case: read by famColl
		case "m":
			out = append(out, scriptStep{choice: 1})
		case "p":
			out = append(out, scriptStep{choice: 2})
		case "n":
			out = append(out, scriptStep{choice: 3})
		case "snap":
			out = append(out, scriptStep{choice: 4})
		case "snapclose":
			out = append(out, scriptStep{choice: 5})
		case "r":
			out = append(out, scriptStep{choice: 6})
		case "b":
			root := &tbatch{}
			for _, part := range strings.Split(strings.TrimPrefix(ln, "b"), ";") {
				g := strings.Fields(part)
				if len(g) < 3 {
					return nil, fmt.Errorf("bad batch op %q", part)
				}
				node := root
				if g[0] != "." {
					for _, name := range strings.Split(g[0], "/") {
						var next *tbatch
						for _, k := range node.kids {
							if k.name == name && k.b != nil {
								next = k.b
							}
						}
						if next == nil {
							next = &tbatch{}
							node.kids = append(node.kids, kid{name: name, b: next})
						}
						node = next
					}
				}
				if g[1] == "X" { // delete the child collection named g[2] of the node at the path
					node.kids = append(node.kids, kid{name: g[2], del: true})
					continue
				}
				val := []byte{}
				if len(g) > 3 {
					val = []byte(g[3])
					if n, e := strconv.Atoi(strings.TrimPrefix(g[3], "*")); e == nil && strings.HasPrefix(g[3], "*") && n > 0 {
						val = bytes.Repeat([]byte("B"), n) // *N: a value of N bytes
					}
				}
				node.ops = append(node.ops, bop{g[1][0], []byte(g[2]), val})
			}
			out = append(out, scriptStep{choice: 0, batch: root})
		default:
			return nil, fmt.Errorf("bad script line %q", ln)
		}
	}
	return out, nil
}

// existenceOnly: a batch without a single key operation, which only creates (empty) or deletes
// a child collection, one or two levels down.
func (g *gen) existenceOnly() *tbatch {
	leaf := func(name string, del bool) kid {
		if del {
			return kid{name: name, del: true}
		}
		return kid{name: name, b: &tbatch{}}
	}
	c := childNames[g.r.intn(len(childNames))]
	del := g.r.chance(3, 5)
	if g.r.chance(1, 2) {
		return &tbatch{kids: []kid{leaf(c, del)}}
	}
	return &tbatch{kids: []kid{{name: c, b: &tbatch{kids: []kid{leaf("d1", del)}}}}}
}

func (g *gen) batch(depth int) *tbatch {
	if depth == 0 && g.o.childPct > 0 && g.r.chance(1, 10) {
		return g.existenceOnly()
	}
	if depth == 0 && g.o.focusChild {
		// every batch writes the same child collection (wide first, then narrow: see opsAt), some
		// the root as well: the child's large old segment reaches the persister unmerged and unread
		b := &tbatch{kids: []kid{{name: childNames[0], b: &tbatch{ops: g.opsAt(5, 1)}}}}
		if g.r.chance(1, 3) {
			b.ops = g.opsAt(2, 2)
		}
		return b
	}
	b := &tbatch{ops: g.opsAt(5, depth), alloc: g.r.intn(100) < g.o.allocPct}
	if depth == 0 && len(g.justDeleted) > 0 {
		names := g.justDeleted
		g.justDeleted = nil
		if g.r.chance(2, 3) {
			for _, n := range names {
				b.kids = append(b.kids, kid{name: n, b: &tbatch{ops: g.opsAt(3, 1)}})
			}
			return b
		}
	}
	if depth < 2 && g.r.intn(100) < g.o.childPct {
		names := childNames
		if depth == 1 {
			names = []string{"d1"}
		}
		for _, n := range names {
			switch g.r.pick([]int{50, 35, 15}) {
			case 1:
				cb := g.batch(depth + 1)
				b.kids = append(b.kids, kid{name: n, b: cb})
			case 2:
				b.kids = append(b.kids, kid{name: n, del: true})
				if depth == 0 {
					g.justDeleted = append(g.justDeleted, n)
				}
			}
		}
	}
	return b
}

func (g *gen) nonEmptyBatch() *tbatch {
	for {
		b := g.batch(0)
		if len(b.ops) > 0 || len(b.kids) > 0 {
			return b
		}
	}
}

// ---------------------------------------------------------------------
// One lock-step case.

type heldSnap struct {
	id int
	ss moss.Snapshot
}

type collRun struct {
	h        *H
	w        *bufio.Writer
	g        *gen
	held     []heldSnap
	nextSnap int
	hist     map[string]int // label histogram
	blind    bool           // observe only at reopen and at the end of the case
	kept     []keptValue    // values returned by copying Gets, with a private copy of each
	aliasOK  int            // kept[:aliasOK] have been looked up in /proc/self/maps
	reported map[string]bool
}

// keptValue: a value a copying Get returned (the slice itself) and what it
// held at that moment; it must stay intact whatever happens afterwards,
// including the close of snapshot, collection and store.
type keptValue struct {
	got, want []byte
	what      string
}

// retainHook, when set, receives every value a copying Get of the running case returned.
var retainHook func(what string, v []byte)

func (cr *collRun) retain(what string, v []byte) {
	if v != nil && len(cr.kept) < 800 {
		cr.kept = append(cr.kept, keptValue{v, cp(v), what})
	}
}

func (cr *collRun) violation(kind, detail string) {
	if cr.reported == nil {
		cr.reported = map[string]bool{}
	}
	if cr.reported[kind] {
		return
	}
	cr.reported[kind] = true
	cr.emit(L("specviolation", kind, fmt.Sprintf("%q", detail)))
}

// checkIntact compares every retained value with its private copy; reading a
// value that aliases an unmapped file faults, which is reported as well.
func (cr *collRun) checkIntact(when string) {
	bad := ""
	func() {
		old := debug.SetPanicOnFault(true)
		defer debug.SetPanicOnFault(old)
		defer func() {
			if r := recover(); r != nil {
				bad = fmt.Sprintf("reading a value returned by a copying Get faults %s: %v", when, r)
			}
		}()
		for _, k := range cr.kept {
			if !bytes.Equal(k.got, k.want) {
				bad = fmt.Sprintf("value returned by a copying %s changed %s: was %q, now %q", k.what, when, k.want, k.got)
				return
			}
		}
	}()
	if bad != "" {
		cr.violation("spec:copied-value-not-intact", bad)
	}
}

// storeMappings: the address ranges of this process that map a moss data file.
func storeMappings() [][2]uintptr {
	b, err := os.ReadFile("/proc/self/maps")
	if err != nil {
		return nil
	}
	var rs [][2]uintptr
	for _, ln := range strings.Split(string(b), "\n") {
		if !strings.Contains(ln, ".moss") {
			continue
		}
		f := strings.Fields(ln)
		ab := strings.SplitN(f[0], "-", 2)
		if len(ab) != 2 {
			continue
		}
		lo, e1 := strconv.ParseUint(ab[0], 16, 64)
		hi, e2 := strconv.ParseUint(ab[1], 16, 64)
		if e1 == nil && e2 == nil {
			rs = append(rs, [2]uintptr{uintptr(lo), uintptr(hi)})
		}
	}
	return rs
}

// checkAliases: a value a copying Get returned must not live inside the mapping of a
// data file (it could not stay intact after the file is unmapped); looked up once per
// observation for the values retained since the last one, while nothing can be unmapped.
func (cr *collRun) checkAliases() {
	if cr.aliasOK >= len(cr.kept) {
		return
	}
	maps := storeMappings()
	for _, k := range cr.kept[cr.aliasOK:] {
		if len(k.got) == 0 {
			continue
		}
		p := uintptr(unsafe.Pointer(&k.got[0]))
		for _, r := range maps {
			if p >= r[0] && p < r[1] {
				cr.violation("spec:copied-value-not-intact",
					fmt.Sprintf("value %q returned by a copying %s lives inside the mapping of a data file", k.want, k.what))
			}
		}
	}
	cr.aliasOK = len(cr.kept)
}

func (cr *collRun) obs() sx {
	h := cr.h
	if was := atomic.SwapInt32(&moss.VerifShapeOnly, 0); was != 0 {
		defer atomic.StoreInt32(&moss.VerifShapeOnly, was)
	}
	d := moss.VerifDumpCollection(h.coll)
	out := []sx{"obs", dumpSx(d)}
	ss, err := h.coll.Snapshot()
	if err != nil {
		out = append(out, L("reads", errSx(err)))
		ss = nil
	} else {
		out = append(out, L("reads", readsSx(ss, cr.g.universe, 0)))
		defer ss.Close()
	}
	cg := []sx{"cget"}
	for _, k := range cr.g.universe {
		v, err := h.coll.Get(k, moss.ReadOptions{})
		if err != nil {
			cg = append(cg, L(k, errSx(err)))
		} else {
			cg = append(cg, L(k, v))
			cr.retain("Collection.Get", v)
		}
		// SkipLowerLevel: Collection.Get and a fresh Snapshot.Get must agree on what the in-memory
		// sections (top, mid, base, clean) hold
		if ss != nil && err == nil {
			gs, e1 := h.coll.Get(k, moss.ReadOptions{SkipLowerLevel: true})
			sv, e2 := ss.Get(k, moss.ReadOptions{SkipLowerLevel: true})
			if (e1 == nil) != (e2 == nil) || !bytes.Equal(gs, sv) || (gs == nil) != (sv == nil) {
				cr.violation("spec:skiplowerlevel-get-differs", fmt.Sprintf("key %q with SkipLowerLevel: Collection.Get %q, fresh Snapshot.Get %q", k, gs, sv))
			}
		}
		v2, err2 := h.coll.Get(k, moss.ReadOptions{NoCopyValue: true})
		if (err == nil) != (err2 == nil) || !bytes.Equal(v, v2) || (v == nil) != (v2 == nil) {
			cr.violation("spec:nocopy-differs", fmt.Sprintf("Collection.Get(%q): copying %q, NoCopyValue %q", k, v, v2))
		}
	}
	out = append(out, cg)
	st, _ := h.coll.Stats()
	out = append(out, L("stats", st.CurDirtyOps, st.CurDirtyBytes, st.CurDirtySegments,
		st.CurDirtyTopSegments, st.CurDirtyMidSegments, st.CurDirtyBaseSegments, st.CurCleanSegments))
	out = append(out, L("onerr", int(atomic.LoadInt32(&h.onErrors)), int(atomic.LoadInt32(&h.injected))))
	sn := []sx{"snaps"}
	for _, hs := range cr.held {
		sn = append(sn, L(hs.id, readsSx(hs.ss, cr.g.universe, 0)))
	}
	out = append(out, sn)
	if h.mapLL != nil {
		lm := []sx{"llmap"}
		for _, e := range h.mapLL.published.kvs {
			lm = append(lm, L(e.k, e.v))
		}
		out = append(out, lm)
		ms := []sx{"mapstore"}
		for _, e := range h.mapLL.cur.kvs {
			ms = append(ms, L(e.k, e.v))
		}
		out = append(out, ms)
	}
	if h.store != nil {
		fs, err := h.store.Snapshot()
		if err == nil && fs != nil {
			out = append(out, L("store", stackSx(moss.VerifDumpFooter(fs)), L("onerr", int(atomic.LoadInt32(&h.onErrors)))))
			fs.Close()
		}
	}
	return out
}

func (cr *collRun) emit(v sx) {
	cr.w.WriteString(sxString(v))
	cr.w.WriteByte('\n')
}

func (cr *collRun) step(label sx) {
	if cr.blind {
		// no read between the labels: reads sort deferred-sort segments and fill caches, which
		// would hide what happens to segments nobody has looked at; the model is stepped all the
		// same and everything is compared at the next observed label (reopen, end of case)
		if ls, ok := label.([]sx); ok && len(ls) > 0 && ls[0] != "reopen" && ls[0] != "final" {
			cr.emit(L("step", label, L("noobs")))
			return
		}
	}
	cr.emit(L("step", label, cr.obs()))
	cr.checkIntact("after a later step")
	cr.checkAliases()
}

func isEmptyStack(s *moss.VerifStack) bool {
	if s == nil || s.Nil {
		return true
	}
	if len(s.Segs) > 0 {
		return false
	}
	for _, c := range s.Children {
		if !isEmptyStack(c) {
			return false
		}
	}
	return true
}

// runCollCase generates and executes one case; returns an error only for
// harness-level failures (timeouts), which are reported in the trace too.
func runCollCase(w *bufio.Writer, id int, seed uint64, cfg Config, nLabels int, o genOpts) (hist map[string]int, err error) {
	// reading through a handle whose mapping was released faults: reported as a violation, not a crash
	defer debug.SetPanicOnFault(debug.SetPanicOnFault(true))
	defer func() {
		if rec := recover(); rec != nil {
			w.WriteString(sxString(L("specviolation", "spec:memory-fault", fmt.Sprintf("%q", fmt.Sprint(rec)))) + "\n")
			w.WriteString("(end)\n")
			hist, err = map[string]int{}, nil
		}
	}()
	r := newRng(seed)
	dir := mustMkdirTemp(workDir, "coll")
	defer os.RemoveAll(dir)
	h := newH(cfg, dir)
	g := &gen{r: r, o: o, universe: baseUniverse}
	if o.bigKey {
		big := make([]byte, 300)
		for i := range big {
			big[i] = byte('A' + i%7)
		}
		g.universe = append(append([][]byte{}, baseUniverse...), big)
	}
	cr := &collRun{h: h, w: w, g: g, hist: map[string]int{}}
	retainHook = cr.retain
	cr.blind = o.blind
	if cr.blind {
		// label decisions look at shapes only: dumping a segment's entries would sort it
		atomic.StoreInt32(&moss.VerifShapeOnly, 1)
		defer atomic.StoreInt32(&moss.VerifShapeOnly, 0)
	}
	defer func() { retainHook = nil }()
	cr.emit(L("case", id, int64(seed), cfg.sx(), L("universe", universeSx(g.universe))))
	if err := h.open(); err != nil {
		cr.emit(L("error", fmt.Sprintf("%q", err.Error())))
		return cr.hist, err
	}
	cr.emit(L("init", cr.obs()))
	fail := func(err error) (map[string]int, error) {
		cr.emit(L("error", fmt.Sprintf("%q", err.Error())))
		h.closeAll()
		return cr.hist, err
	}
	for i := 0; i < nLabels; i++ {
		d := moss.VerifDumpCollection(h.coll)
		mAt, pAt := h.parkedAt("merger"), h.parkedAt("persister")
		topH := 0
		if !d.Top.Nil {
			topH = len(d.Top.Segs)
		}
		maxPre := cfg.MaxPre
		if maxPre <= 0 {
			maxPre = 10
		}
		wBatch := 40
		if o.persistHeavy {
			wBatch = 14 // more labels go to merger and persister: many persistence rounds per case
		}
		if topH >= maxPre {
			wBatch = 0
		}
		wMerger, wPers := 0, 0
		if mAt != "" {
			wMerger = 30
		}
		if pAt != "" {
			wPers = 22
		}
		wNotify := 4
		if isEmptyStack(d.Top) && isEmptyStack(d.Mid) && isEmptyStack(d.Base) {
			wNotify = 14 // an idle merger cycle hands an empty stack to the persister
		}
		if !d.MergerAsleep {
			wNotify = 0
		}
		wSnap := 4
		wSnapClose := 0
		if len(cr.held) > 0 {
			wSnapClose = 3
		}
		if len(cr.held) >= 3 {
			wSnap = 0
		}
		wReopen := 0
		if cfg.LL == "store" {
			wReopen = 3
		}
		wFail := 0
		if cfg.LL == "map" && pAt == "persister:begin" {
			wFail = 6
		}
		choice := r.pick([]int{wBatch, wMerger, wPers, wNotify, wSnap, wSnapClose, wReopen, wFail})
		var scripted *tbatch
		if o.script != nil {
			// a scripted case (witness replay): the label kinds and batches are given
			if i >= len(o.script) {
				break
			}
			choice, scripted = o.script[i].choice, o.script[i].batch
			if (choice == 1 && mAt == "") || (choice == 2 && pAt == "") {
				return fail(fmt.Errorf("script step %d: actor not parked (merger at %q, persister at %q)", i, mAt, pAt))
			}
		}
		switch choice {
		case 0:
			b := g.nonEmptyBatch()
			if scripted != nil {
				b = scripted
				goto haveBatch
			}
			if o.childPct > 0 && isEmptyStack(d.Top) && isEmptyStack(d.Mid) && isEmptyStack(d.Base) && r.chance(1, 3) {
				// everything is drained: a round that carries nothing but the creation or the
				// deletion of a child collection (preferably one that exists, one or two levels down)
				b = g.existenceOnly()
				if r.chance(1, 3) {
					// ... or nothing but key operations two levels down
					deep := &tbatch{ops: g.ops(3)}
					if len(deep.ops) == 0 {
						deep.ops = []bop{{'s', []byte("k1"), g.value()}}
					}
					b = &tbatch{kids: []kid{{name: childNames[r.intn(len(childNames))], b: &tbatch{kids: []kid{{name: "d1", b: deep}}}}}}
					goto haveBatch
				}
				var paths [][]string
				for n, c := range d.Coll.Children {
					paths = append(paths, []string{n})
					for n2 := range c.Children {
						paths = append(paths, []string{n, n2})
					}
				}
				sort.Slice(paths, func(i, j int) bool { return strings.Join(paths[i], "/") < strings.Join(paths[j], "/") })
				if len(paths) > 0 && r.chance(3, 4) {
					p := paths[r.intn(len(paths))]
					if len(p) == 1 {
						b = &tbatch{kids: []kid{{name: p[0], del: true}}}
					} else {
						b = &tbatch{kids: []kid{{name: p[0], b: &tbatch{kids: []kid{{name: p[1], del: true}}}}}}
					}
				}
			}
		haveBatch:
			if o.bigFirst && cr.hist["batch"] == 0 {
				big := bytes.Repeat([]byte("B"), 1500+r.intn(1000))
				replaced := false
				for i := range b.ops {
					if string(b.ops[i].k) == "k0" {
						b.ops[i] = bop{'s', []byte("k0"), big}
						replaced = true
					}
				}
				if !replaced {
					b.ops = append(b.ops, bop{'s', []byte("k0"), big})
				}
			}
			if err := h.execBatch(b); err != nil {
				return fail(err)
			}
			if err := h.quiesce(); err != nil {
				return fail(err)
			}
			cr.hist["batch"]++
			cr.step(L("batch", b.sx()))
		case 1:
			switch mAt {
			case "merger:ingest":
				h.releaseActor("merger")
				if err := h.waitPark("merger", "merger:swap"); err != nil {
					return fail(err)
				}
				cr.hist["ingest"]++
				cr.step(L("ingest"))
			case "merger:swap":
				h.releaseActor("merger")
				if err := h.waitPark("merger", "merger:handover"); err != nil {
					return fail(err)
				}
				d2 := moss.VerifDumpCollection(h.coll)
				cr.hist["swap"]++
				cr.step(L("swap", lvlTree(d2.Mid)))
			case "merger:handover":
				h.releaseActor("merger")
				if err := h.quiesce(); err != nil {
					return fail(err)
				}
				cr.hist["handover"]++
				cr.step(L("handover"))
			}
		case 2:
			switch pAt {
			case "persister:begin":
				before := h.storeCounters()
				h.releaseActor("persister")
				if err := h.quiesce(); err != nil {
					return fail(err)
				}
				if h.parkedAt("persister") == "persister:publish" {
					cr.hist["pbegin"]++
					cr.step(L("pbegin", h.persistChoice(before)))
				} else {
					cr.hist["pfail"]++
					cr.step(L("pbeginfail"))
				}
			case "persister:publish":
				h.releaseActor("persister")
				if err := h.quiesce(); err != nil {
					return fail(err)
				}
				if h.mapLL != nil {
					h.mapLL.published = h.mapLL.cur
				}
				cr.hist["ppublish"]++
				cr.step(L("ppublish"))
			}
		case 3:
			kind := "poke"
			if r.chance(1, 2) {
				kind = "mergeAll"
			}
			h.coll.(interface {
				NotifyMerger(string, bool) error
			}).NotifyMerger(kind, false)
			if err := h.quiesce(); err != nil {
				return fail(err)
			}
			cr.hist["notify"]++
			cr.step(L("notify", kind))
		case 4:
			ss, err := h.coll.Snapshot()
			if err != nil {
				return fail(err)
			}
			cr.nextSnap++
			cr.held = append(cr.held, heldSnap{cr.nextSnap, ss})
			cr.hist["snap"]++
			cr.step(L("snap", cr.nextSnap))
		case 5:
			j := r.intn(len(cr.held))
			hs := cr.held[j]
			hs.ss.Close()
			cr.held = append(cr.held[:j], cr.held[j+1:]...)
			cr.hist["snapclose"]++
			cr.step(L("snapclose", hs.id))
		case 6:
			inflight := h.parkedAt("persister") == "persister:begin"
			choice, err := h.closeAllObserved(inflight)
			if err != nil {
				return fail(err)
			}
			cr.emit(L("step", L("close", choice), L("obs", cr.heldReads())))
			if err := h.open(); err != nil {
				return fail(err)
			}
			cr.hist["reopen"]++
			cr.step(L("reopen"))
		case 7:
			atomic.StoreInt32(&h.failNext, 1)
			atomic.AddInt32(&h.injected, 1)
			h.releaseActor("persister")
			if err := h.quiesce(); err != nil {
				return fail(err)
			}
			cr.hist["pfail"]++
			cr.step(L("pbeginfail"))
		default:
			// nothing enabled: poke the merger
			h.coll.(interface {
				NotifyMerger(string, bool) error
			}).NotifyMerger("poke", false)
			if err := h.quiesce(); err != nil {
				return fail(err)
			}
			cr.step(L("notify", "poke"))
		}
	}
	defer func() {
		for _, hs := range cr.held {
			hs.ss.Close()
		}
	}()
	if cr.blind {
		cr.blind = false
		h.coll.(interface {
			NotifyMerger(string, bool) error
		}).NotifyMerger("poke", false)
		if err := h.quiesce(); err != nil {
			return fail(err)
		}
		cr.step(L("notify", "poke")) // the first full observation of a blind case
		cr.blind = o.blind
	}
	inflight := h.parkedAt("persister") == "persister:begin"
	choice, err := h.closeAllObserved(inflight)
	if err != nil {
		return fail(err)
	}
	cr.emit(L("step", L("close", choice), L("obs", cr.heldReads())))
	if cfg.LL == "store" {
		if err := h.open(); err != nil {
			return fail(err)
		}
		cr.step(L("reopen"))
		if _, err := h.closeAllObserved(false); err != nil {
			return fail(err)
		}
	}
	for _, hs := range cr.held {
		hs.ss.Close()
	}
	cr.held = nil
	sleepMicros(2000)
	cr.checkIntact("after snapshot, collection and store were closed")
	cr.emit(L("end"))
	return cr.hist, nil
}

func (cr *collRun) heldReads() sx {
	sn := []sx{"held"}
	for _, hs := range cr.held {
		sn = append(sn, L(hs.id, readsSx(hs.ss, cr.g.universe, 0)))
	}
	return sn
}

func universeSx(u [][]byte) sx {
	out := []sx{}
	for _, k := range u {
		out = append(out, k)
	}
	return out
}

var _ = sort.Strings
