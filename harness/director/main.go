package main

import (
	"bufio"
	"flag"
	"fmt"
	"os"
)

var workDir = "/verif/.work"

func main() {
	if len(os.Args) < 2 {
		fmt.Fprintln(os.Stderr, "usage: director <family> [flags]")
		os.Exit(2)
	}
	fam := os.Args[1]
	if fam == "deepdel" { // child process of the iter family's depth probe
		os.Exit(deepDelProbe())
	}
	fs := flag.NewFlagSet(fam, flag.ExitOnError)
	seed := fs.Uint64("seed", 1, "seed")
	n := fs.Int("n", 10, "number of cases")
	out := fs.String("out", "-", "output trace file")
	labels := fs.Int("labels", 16, "labels per case")
	mode := fs.String("mode", "", "family-specific mode")
	replay := fs.String("replay", "", "replay file")
	fs.StringVar(&workDir, "work", workDir, "scratch directory")
	fs.Parse(os.Args[2:])
	var w *bufio.Writer
	if *out == "-" {
		w = bufio.NewWriter(os.Stdout)
	} else {
		f, err := os.Create(*out)
		if err != nil {
			panic(err)
		}
		defer f.Close()
		w = bufio.NewWriterSize(f, 1<<20)
	}
	defer w.Flush()
	os.MkdirAll(workDir, 0o755)
	var err error
	switch fam {
	case "coll":
		err = famColl(w, *seed, *n, *labels, *mode, *replay)
	case "owners":
		err = famOwners(w, *seed, *n)
	case "ops":
		err = famOps(w, *seed, *n)
	case "refs":
		err = famRefs(w, *seed, *n)
	case "conc":
		err = famConc(w, *seed, *n)
	case "sync":
		err = famSync(w, *seed, *n)
	case "iter":
		err = famIter(w, *seed, *n)
	case "fault":
		err = famFault(w, *seed, *n)
	case "history":
		if *mode == "tree" {
			err = famHistoryTree(w, *seed, *n)
		} else {
			err = famHistory(w, *seed, *n)
		}
	case "codec":
		err = famCodec(w, *seed, *n)
	case "batchbuf":
		err = famBatchBuf(w, *seed, *n)
	case "crash":
		err = famCrash(w, *seed, *n)
	case "readonly":
		err = famReadOnly(w, *seed, *n)
	case "index":
		if *mode == "api" {
			err = famIndexAPI(w, *seed, *n)
		} else {
			err = famIndex(w, *seed, *n, *mode)
		}
	default:
		err = fmt.Errorf("unknown family %q", fam)
	}
	if err != nil {
		w.Flush()
		fmt.Fprintln(os.Stderr, "director:", err)
		os.Exit(3)
	}
}
