package main

import (
	"encoding/hex"
	"fmt"
	"sort"
	"strings"
)

// Minimal s-expression builder: atoms and lists, printed on one line.

type sx interface{}

func L(items ...sx) []sx { return items }

func hexb(b []byte) string {
	if b == nil {
		return "nil"
	}
	return "x" + hex.EncodeToString(b)
}

func sxString(v sx) string {
	var sb strings.Builder
	writeSx(&sb, v)
	return sb.String()
}

func writeSx(sb *strings.Builder, v sx) {
	switch t := v.(type) {
	case []sx:
		sb.WriteByte('(')
		for i, it := range t {
			if i > 0 {
				sb.WriteByte(' ')
			}
			writeSx(sb, it)
		}
		sb.WriteByte(')')
	case string:
		sb.WriteString(t)
	case []byte:
		sb.WriteString(hexb(t))
	case int:
		fmt.Fprintf(sb, "%d", t)
	case int64:
		fmt.Fprintf(sb, "%d", t)
	case uint64:
		fmt.Fprintf(sb, "%d", t)
	case bool:
		if t {
			sb.WriteString("1")
		} else {
			sb.WriteString("0")
		}
	default:
		panic(fmt.Sprintf("sexp: unsupported %T", v))
	}
}

func sortedKeys(m map[string]bool) []string {
	var ks []string
	for k := range m {
		ks = append(ks, k)
	}
	sort.Strings(ks)
	return ks
}
