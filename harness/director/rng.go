package main

// splitmix64: every random choice of a run derives from one seed.
type rng struct{ s uint64 }

// newRng scrambles the seed first, so that consecutive seeds give unrelated
// streams (the raw splitmix state of seed+1 is the state of seed one step on).
func newRng(seed uint64) *rng {
	z := seed + 0xD1B54A32D192ED03
	z = (z ^ (z >> 32)) * 0xDABA0B6EB09322E3
	z = (z ^ (z >> 32)) * 0xDABA0B6EB09322E3
	z = z ^ (z >> 32)
	return &rng{s: z}
}

func (r *rng) next() uint64 {
	r.s += 0x9E3779B97F4A7C15
	z := r.s
	z = (z ^ (z >> 30)) * 0xBF58476D1CE4E5B9
	z = (z ^ (z >> 27)) * 0x94D049BB133111EB
	return z ^ (z >> 31)
}

func (r *rng) intn(n int) int {
	if n <= 0 {
		return 0
	}
	return int(r.next() % uint64(n))
}

func (r *rng) chance(num, den int) bool { return r.intn(den) < num }

// pick returns an index according to integer weights.
func (r *rng) pick(weights []int) int {
	tot := 0
	for _, w := range weights {
		tot += w
	}
	if tot == 0 {
		return -1
	}
	x := r.intn(tot)
	for i, w := range weights {
		if x < w {
			return i
		}
		x -= w
	}
	return len(weights) - 1
}
