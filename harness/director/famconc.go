package main

import (
	"bufio"
	"fmt"
	"os"
	"runtime"
	"sort"
	"strconv"
	"sync"
	"sync/atomic"
	"time"

	"github.com/couchbase/moss"
)

// Family "conc" (C03): free-running writers on disjoint key sets and
// snapshot readers against the free-running merger, persister and compactor;
// the recorded history goes through the verified checker.

type batchEv struct {
	w, seq     int
	start, end int64
}
type snapEv struct {
	start, end int64
	seen       []int   // per writer: agreed batch number, -1 when torn
	uniques    [][]int // per writer
}

func famConc(w *bufio.Writer, seed uint64, n int) error {
	emit := func(v sx) { w.WriteString(sxString(v)); w.WriteByte('\n') }
	defer runtime.GOMAXPROCS(runtime.GOMAXPROCS(0))
	nhung := 0
	for i := 0; i < n; i++ {
		cs := seed*1000003 + uint64(i)
		r := newRng(cs ^ 0x9a)
		runtime.GOMAXPROCS([]int{1, 2, 4, 16}[r.intn(4)])
		nw, nr := 2+r.intn(3), 1+r.intn(3)
		perWriter := 6 + r.intn(10)
		useStore := r.chance(2, 3)
		children := r.chance(1, 2)
		dir := mustMkdirTemp(workDir, "conc")
		co := moss.CollectionOptions{
			MergeOperator:          &mergeOp{},
			DeferredSort:           r.chance(1, 3),
			CachePersisted:         r.chance(1, 3),
			MaxPreMergerBatches:    1 + r.intn(2),
			MergerIdleRunTimeoutMS: -1,
		}
		// with DeferredSort, half of the cases pad every batch with filler keys in random order, so
		// that sorting a batch takes milliseconds and readers, merger and writers meet a segment
		// whose sort is in progress (the sort-ticket protocol of segment.RequestSort)
		filler := 0
		if co.DeferredSort && r.chance(1, 2) {
			filler = 3000 + r.intn(9000)
			perWriter = 4 + r.intn(4)
		}
		fillSeed := r.next()
		var stalls int32 = int32(r.intn(3))
		co.OnEvent = func(e moss.Event) {
			if atomic.LoadInt32(&stalls) > 0 && (e.Kind == moss.EventKindMergerProgress || e.Kind == moss.EventKindPersisterProgress) {
				time.Sleep(time.Duration(50+int(e.Kind)*30) * time.Microsecond)
			}
		}
		var s *moss.Store
		var c moss.Collection
		var err error
		if useStore {
			so := moss.StoreOptions{CollectionOptions: co, CompactionLevelMaxSegments: 2}
			s, c, err = moss.OpenStoreCollection(dir, so, moss.StorePersistOptions{CompactionConcern: moss.CompactionConcern(r.intn(3))})
		} else {
			c, err = moss.NewCollection(co)
			if err == nil {
				err = c.Start()
			}
		}
		if err != nil {
			return err
		}
		var clock int64
		tick := func() int64 { return atomic.AddInt64(&clock, 1) }
		var mu sync.Mutex
		var batches []batchEv
		var snaps []snapEv
		var problems []string
		var behind []string
		var wg sync.WaitGroup
		var writersLeft int32 = int32(nw)
		for wi := 0; wi < nw; wi++ {
			wg.Add(1)
			go func(wi int) {
				defer wg.Done()
				defer atomic.AddInt32(&writersLeft, -1)
				for seq := 1; seq <= perWriter; seq++ {
					b, err := c.NewBatch(0, 0)
					if err != nil {
						return
					}
					val := []byte(strconv.Itoa(seq))
					b.Set([]byte(fmt.Sprintf("w%d/m", wi)), val)
					for p := 0; p < 3; p++ {
						b.Set([]byte(fmt.Sprintf("w%d/p%d", wi, p)), val)
					}
					b.Set([]byte(fmt.Sprintf("w%d/u%04d", wi, seq)), []byte("1"))
					if filler > 0 {
						fr := newRng(fillSeed + uint64(wi*1000+seq))
						for f := 0; f < filler; f++ {
							b.Set([]byte(fmt.Sprintf("w%d/%c%06x%04x", wi, "anz"[f%3], fr.next()&0xffffff, f)), val)
						}
					}
					if children {
						cb, _ := b.NewChildCollectionBatch(fmt.Sprintf("c%d", wi), moss.BatchOptions{})
						cb.Set([]byte("ck"), val)
					}
					t0 := tick()
					err = c.ExecuteBatch(b, moss.WriteOptions{})
					t1 := tick()
					b.Close()
					if err != nil {
						mu.Lock()
						problems = append(problems, fmt.Sprintf("ExecuteBatch: %v", err))
						mu.Unlock()
						return
					}
					mu.Lock()
					batches = append(batches, batchEv{wi, seq, t0, t1})
					mu.Unlock()
				}
			}(wi)
		}
		for ri := 0; ri < nr; ri++ {
			wg.Add(1)
			go func(ri int) {
				defer wg.Done()
				last := false
				for !last {
					if atomic.LoadInt32(&writersLeft) == 0 {
						last = true // one more snapshot after every writer has finished
					}
					t0 := tick()
					ss, err := c.Snapshot()
					t1 := tick()
					if err != nil {
						return
					}
					ev := snapEv{start: t0, end: t1}
					for wi := 0; wi < nw; wi++ {
						vals := map[string]bool{}
						get := func(sn moss.Snapshot, k string) {
							v, _ := sn.Get([]byte(k), moss.ReadOptions{})
							if v == nil {
								vals["0"] = true
							} else {
								vals[string(v)] = true
							}
						}
						get(ss, fmt.Sprintf("w%d/m", wi))
						for p := 0; p < 3; p++ {
							get(ss, fmt.Sprintf("w%d/p%d", wi, p))
						}
						if children {
							cs, _ := ss.ChildCollectionSnapshot(fmt.Sprintf("c%d", wi))
							if cs != nil {
								get(cs, "ck")
								cs.Close()
							} else {
								vals["0"] = true
							}
						}
						seen := -1
						if len(vals) == 1 {
							for v := range vals {
								seen, _ = strconv.Atoi(v)
							}
						}
						ev.seen = append(ev.seen, seen)
						var us []int
						it, err := ss.StartIterator([]byte(fmt.Sprintf("w%d/u", wi)), []byte(fmt.Sprintf("w%d/v", wi)), moss.IteratorOptions{})
						if err == nil && it != nil {
							for {
								k, _, e := it.Current()
								if e != nil {
									break
								}
								n, _ := strconv.Atoi(string(k[len(k)-4:]))
								us = append(us, n)
								if it.Next() != nil {
									break
								}
							}
							it.Close()
						}
						ev.uniques = append(ev.uniques, us)
					}
					ss.Close()
					// C10 under concurrency: a fresh snapshot is never behind what Collection.Get just returned
					for wi := 0; wi < nw; wi++ {
						k := []byte(fmt.Sprintf("w%d/m", wi))
						gv, _ := c.Get(k, moss.ReadOptions{})
						s2, err := c.Snapshot()
						if err != nil {
							break
						}
						sv, _ := s2.Get(k, moss.ReadOptions{})
						s2.Close()
						gi, _ := strconv.Atoi(string(gv))
						si, _ := strconv.Atoi(string(sv))
						if si < gi {
							mu.Lock()
							behind = append(behind, fmt.Sprintf("Collection.Get(%s)=%d, then a fresh Snapshot.Get=%d", k, gi, si))
							mu.Unlock()
						}
					}
					mu.Lock()
					snaps = append(snaps, ev)
					mu.Unlock()
					time.Sleep(time.Duration(r.intn(3)*50) * time.Microsecond)
				}
			}(ri)
		}
		done := make(chan struct{})
		go func() { wg.Wait(); close(done) }()
		hung := false
		select {
		case <-done:
		case <-time.After(30 * time.Second):
			hung = true
		}
		atomic.StoreInt32(&stalls, 0)
		if !hung {
			c.Close()
			if s != nil {
				s.Close()
			}
		}
		os.RemoveAll(dir)
		sort.Slice(batches, func(a, b int) bool { return batches[a].start < batches[b].start })
		bs := []sx{"batches"}
		for _, b := range batches {
			bs = append(bs, L(b.w, b.seq, b.start, b.end))
		}
		sn := []sx{"snaps"}
		for _, e := range snaps {
			views := []sx{"views"}
			for wi := range e.seen {
				u := []sx{}
				for _, x := range e.uniques[wi] {
					u = append(u, x)
				}
				views = append(views, L(e.seen[wi], L(u...)))
			}
			sn = append(sn, L(e.start, e.end, views))
		}
		emit(L("case", i, int64(cs), L("cfg", L("writers", nw), L("readers", nr), L("store", useStore), L("children", children), L("filler", filler),
			L("procs", runtime.GOMAXPROCS(0))), L("universe", L())))
		emit(L("conc", bs, sn, L("hung", hung), L("behind", len(behind), fmt.Sprintf("%q", fmt.Sprint(behind))), L("problems", fmt.Sprintf("%q", fmt.Sprint(problems))), L("expected", nw*perWriter)))
		emit(L("end"))
		if hung {
			nhung++
			if nhung >= 2 {
				// calls that never return cost 30 s each: two are enough to report
				fmt.Fprintf(os.Stderr, "director: giving up after %d hung cases\n", nhung)
				break
			}
		}
	}
	return nil
}
