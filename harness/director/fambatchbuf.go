package main

import (
	"bufio"
	"bytes"
	"fmt"
	"reflect"
	"sort"
	"unsafe"

	"github.com/couchbase/moss"
)

// Family "batchbuf" (C19): the in-memory batch buffer at function level.
// Call sequences (Set/Del/Merge, Alloc, copy into a handle, AllocSet/AllocDel/
// AllocMerge, sort.Sort, Get, Cursor) run on a real moss batch; after every
// call the returned error, len/cap and bytes of buf, the kvs words and the
// entries as the real getOperationKeyVal decodes them are dumped, next to the
// list of operations that returned nil (the specification).  ocaml/batchbufrun
// replays the calls on the extracted BatchBuf model.
//
// buf and kvs are unexported fields of the batch and there is no accessor in
// export_verif.go: they are READ through reflect (nothing in /repo changes).
// getOperationKeyVal is reached through a real segmentCursor whose position is
// set through reflect; findStartKeyInclusivePos through Cursor(key, nil).start.

type bbView struct{ seg reflect.Value }

func bbOf(b moss.Batch) bbView {
	return bbView{reflect.ValueOf(b).Elem().FieldByName("segment").Elem()}
}
func (v bbView) bufLenCap() (int, int) {
	f := v.seg.FieldByName("buf")
	return f.Len(), f.Cap()
}
func (v bbView) bufPtr() uintptr { return v.seg.FieldByName("buf").Pointer() }
func (v bbView) bufBytes() []byte {
	f := v.seg.FieldByName("buf")
	n := f.Len()
	out := make([]byte, n)
	if n > 0 {
		base := unsafe.Pointer(f.Pointer())
		for i := 0; i < n; i++ {
			out[i] = *(*byte)(unsafe.Pointer(uintptr(base) + uintptr(i)))
		}
	}
	return out
}
func (v bbView) kvs() []uint64 {
	f := v.seg.FieldByName("kvs")
	out := make([]uint64, f.Len())
	for i := range out {
		out[i] = f.Index(i).Uint()
	}
	return out
}

type bbEntry struct {
	op   uint64
	k, v []byte
}

func bbEntrySx(e bbEntry) sx {
	switch e.op {
	case moss.OperationSet:
		return L("s", e.k, e.v)
	case moss.OperationDel:
		return L("d", e.k)
	case moss.OperationMerge:
		return L("m", e.k, e.v)
	}
	return L("op", int64(e.op>>56), e.k, e.v)
}

func setIntField(strct reflect.Value, name string, x int) {
	f := strct.FieldByName(name)
	reflect.NewAt(f.Type(), unsafe.Pointer(f.UnsafeAddr())).Elem().SetInt(int64(x))
}

// every entry through the real segmentCursor.Current -> getOperationKeyVal
func bbDecode(b moss.Batch, maxShow int) (es []bbEntry, fault string) {
	defer func() {
		if r := recover(); r != nil {
			fault = fmt.Sprint(r)
		}
	}()
	cs := b.(interface {
		Cursor(a, b []byte) (moss.SegmentCursor, error)
	})
	n := b.(sort.Interface).Len()
	if n == 0 {
		return nil, ""
	}
	cur, _ := cs.Cursor(nil, nil)
	cv := reflect.ValueOf(cur).Elem()
	setIntField(cv, "start", 0)
	setIntField(cv, "end", n)
	for i := 0; i < n; i++ {
		setIntField(cv, "curr", i)
		op, k, v := cur.Current()
		if len(k) > maxShow || len(v) > maxShow { // a huge key: length and first byte only
			var fb byte
			if len(k) > 0 {
				fb = k[0]
			}
			es = append(es, bbEntry{op, []byte(fmt.Sprintf("<%d x %02x>", len(k), fb)), append([]byte{}, v[:minInt(len(v), 8)]...)})
			continue
		}
		es = append(es, bbEntry{op, append([]byte{}, k...), append([]byte{}, v...)})
	}
	return es, ""
}

func minInt(a, b int) int {
	if a < b {
		return a
	}
	return b
}

func bbStartPos(b moss.Batch, key []byte) (pos int, fault string) {
	defer func() {
		if r := recover(); r != nil {
			fault = fmt.Sprint(r)
		}
	}()
	cs := b.(interface {
		Cursor(a, b []byte) (moss.SegmentCursor, error)
	})
	cur, _ := cs.Cursor(key, nil)
	return int(reflect.ValueOf(cur).Elem().FieldByName("start").Int()), ""
}

type bbHandle struct {
	id      int
	s       []byte
	stale   bool
	filled  bool
	content []byte
}

var bbKeys = [][]byte{{}, {0}, {0xff}, {0, 0}, []byte("a"), []byte("ab"), []byte("ab\x00"), []byte("b"), {0xff, 0xff},
	[]byte("k"), []byte("0m1o2s"), {0x7f, 0x80}}

func bbRandBytes(r *rng, max int) []byte {
	n := r.intn(max + 1)
	out := make([]byte, n)
	for i := range out {
		out[i] = []byte{0, 0xff, 'a', 'z', 1, 0x80}[r.intn(6)]
	}
	return out
}

func famBatchBuf(w *bufio.Writer, seed uint64, n int) error {
	emit := func(v sx) { w.WriteString(sxString(v)); w.WriteByte('\n') }
	coll, err := moss.NewCollection(moss.CollectionOptions{})
	if err != nil {
		return err
	}
	// never started: batches are only built, looked at and sorted here
	for i := 0; i < n; i++ {
		cs := seed*1000003 + uint64(i)
		switch {
		case i == 0:
			bbBigCase(emit, coll, i, cs)
		case i == 1:
			bbStaleCase(emit, coll, i, cs)
		default:
			bbRandomCase(emit, coll, i, cs)
		}
	}
	return nil
}

// one dumped step
type bbRun struct {
	emit  func(sx)
	b     moss.Batch
	view  bbView
	spec  []bbEntry
	big   bool // buffers too large to dump: lengths only
	steps int
}

func (r *bbRun) obs(call sx, res sx, extra ...sx) {
	l, c := r.view.bufLenCap()
	kv := []sx{"kvs"}
	for _, x := range r.view.kvs() {
		kv = append(kv, x)
	}
	items := []sx{"bbstep", call, L("res", res), L("len", l), L("cap", c), kv}
	if !r.big {
		items = append(items, L("buf", r.view.bufBytes()))
	}
	maxShow := 1 << 16
	if r.big {
		maxShow = 64
	}
	es, fault := bbDecode(r.b, maxShow)
	if fault != "" {
		items = append(items, L("ents", "fault"))
	} else {
		seg := []sx{"seg"}
		for _, e := range es {
			seg = append(seg, bbEntrySx(e))
		}
		items = append(items, L("ents", seg))
	}
	sp := []sx{"seg"}
	for _, e := range r.spec {
		sp = append(sp, bbEntrySx(e))
	}
	items = append(items, L("spec", sp))
	items = append(items, extra...)
	r.emit(items)
	r.steps++
}

func bbErr(err error) sx {
	if err == moss.ErrAllocTooLarge {
		return "alloctoolarge"
	}
	return errSx(err)
}

func (r *bbRun) accept(err error, op uint64, k, v []byte) {
	if err == nil {
		r.spec = append(r.spec, bbEntry{op, append([]byte{}, k...), append([]byte{}, v...)})
	}
}

func bbRandomCase(emit func(sx), coll moss.Collection, id int, cs uint64) {
	r := newRng(cs ^ 0xbb01)
	capChoices := []int{0, 0, 6, 16, 40, 64, 200}
	cap0 := capChoices[r.intn(len(capChoices))]
	ops0 := r.intn(6)
	b, _ := coll.NewBatch(ops0, cap0)
	run := &bbRun{emit: emit, b: b, view: bbOf(b)}
	emit(L("case", id, int64(cs), L("cfg", L("cap", cap0)), L("universe", L())))
	emit(L("bbnew", ops0, cap0))
	uniqueOnly := r.chance(2, 3) // then the case ends with sort + searches
	used := map[string]bool{}
	pickKey := func(max int) []byte {
		for try := 0; try < 20; try++ {
			var k []byte
			if r.chance(2, 3) {
				k = bbKeys[r.intn(len(bbKeys))]
			} else {
				k = bbRandBytes(r, max)
			}
			if len(k) > max {
				continue
			}
			if uniqueOnly && used[string(k)] {
				continue
			}
			return k
		}
		return nil
	}
	var handles []*bbHandle
	nextID := 0
	nsteps := 4 + r.intn(14)
	for s := 0; s < nsteps; s++ {
		before := run.view.bufPtr()
		_, capBefore := run.view.bufLenCap()
		var live, filled []*bbHandle
		for _, h := range handles {
			if !h.stale {
				live = append(live, h)
				if h.filled {
					filled = append(filled, h)
				}
			}
		}
		choice := r.pick([]int{25, 20, 25, 45})
		switch {
		case choice == 0: // plain
			k := pickKey(12)
			if k == nil {
				continue
			}
			v := bbRandBytes(r, 10)
			var err error
			var call sx
			var op uint64
			switch r.intn(4) {
			case 0:
				op, v = moss.OperationDel, nil
				err = b.Del(k)
				call = L("del", k)
			case 1:
				op = moss.OperationMerge
				err = b.Merge(k, v)
				call = L("merge", k, v)
			default:
				op = moss.OperationSet
				err = b.Set(k, v)
				call = L("set", k, v)
			}
			run.accept(err, op, k, v)
			if err == nil {
				used[string(k)] = true
			}
			_, capAfter := run.view.bufLenCap()
			if run.view.bufPtr() != before || capAfter != capBefore { // buf moved: every handle is stale
				for _, h := range handles {
					h.stale = true
				}
			}
			run.obs(call, bbErr(err))
		case choice == 1: // Alloc
			nb := r.intn(14)
			if r.chance(1, 12) {
				nb = 100 + r.intn(200)
			}
			s, err := b.Alloc(nb)
			if err == nil {
				h := &bbHandle{id: nextID, s: s}
				nextID++
				handles = append(handles, h)
				run.obs(L("alloc", nb), bbErr(err), L("h", h.id, len(s), cap(s)))
			} else {
				run.obs(L("alloc", nb), bbErr(err))
			}
		case choice == 2 && len(handles) > 0: // copy into a handle that is not registered yet (stale ones too: harmless)
			h := handles[r.intn(len(handles))]
			d := make([]byte, len(h.s))
			for i := range d {
				d[i] = []byte{0, 0xff, 'k', 'v', 'a', 'b', 1}[r.intn(7)]
			}
			if r.chance(1, 6) && len(d) > 0 { // a short or a long copy
				if r.chance(1, 2) {
					d = d[:r.intn(len(d))]
				} else {
					d = append(d, 'X', 'Y')
				}
			}
			copy(h.s, d)
			if !h.stale {
				if h.content == nil {
					h.content = make([]byte, len(h.s))
				}
				copy(h.content, d)
				h.filled = true
			}
			run.obs(L("fill", h.id, d), "ok")
		case choice == 3 && len(filled) > 0: // register a filled, live handle: key = h[:kl], val = h[kl:]
			h := filled[r.intn(len(filled))]
			var kl int
			found := false
			for try := 0; try < 12 && !found; try++ {
				kl = r.intn(len(h.s) + 1)
				if !(uniqueOnly && used[string(h.content[:kl])]) {
					found = true
				}
			}
			if !found {
				continue
			}
			k, v := h.s[:kl], h.s[kl:]
			var err error
			var call sx
			switch r.intn(4) {
			case 0:
				err = b.AllocDel(k)
				call = L("adel", h.id, 0, kl)
				run.accept(err, moss.OperationDel, h.content[:kl], nil)
			case 1:
				err = b.AllocMerge(k, v)
				call = L("amerge", h.id, 0, kl, kl, len(h.s))
				run.accept(err, moss.OperationMerge, h.content[:kl], h.content[kl:])
			default:
				if kl == len(h.s) && r.chance(1, 2) {
					err = b.AllocSet(k, nil)
				} else {
					err = b.AllocSet(k, v)
				}
				call = L("aset", h.id, 0, kl, kl, len(h.s))
				run.accept(err, moss.OperationSet, h.content[:kl], h.content[kl:])
			}
			if err == nil {
				used[string(h.content[:kl])] = true
			}
			// registered: never written again
			for i, x := range handles {
				if x == h {
					handles = append(handles[:i], handles[i+1:]...)
					break
				}
			}
			run.obs(call, bbErr(err))
		default:
			continue
		}
	}
	if uniqueOnly {
		sort.Sort(b.(sort.Interface))
		sort.Slice(run.spec, func(i, j int) bool { return bytes.Compare(run.spec[i].k, run.spec[j].k) < 0 })
		run.obs(L("sort"), "ok")
		g := b.(interface {
			Get([]byte) (uint64, []byte, error)
		})
		for p := 0; p < 6; p++ {
			var key []byte
			if len(run.spec) > 0 && r.chance(1, 2) {
				key = run.spec[r.intn(len(run.spec))].k
				if r.chance(1, 3) {
					key = append(append([]byte{}, key...), 0)
				}
			} else {
				key = bbKeys[r.intn(len(bbKeys))]
			}
			pos, fault := bbStartPos(b, key)
			ps := sx(pos)
			if fault != "" {
				ps = "fault"
			}
			op, val, gerr := g.Get(key)
			var got sx
			switch {
			case gerr != nil:
				got = L("got", "err")
			case op == 0:
				got = L("got", "none")
			default:
				got = L("got", bbEntrySx(bbEntry{op, key, val}))
			}
			run.obs(L("find", key), "ok", L("pos", ps), got)
		}
	}
	b.Close()
	emit(L("end"))
}

// Real oversize lengths (no test knob exists for the limits): an Alloc-built batch with
// a 2^24-byte key between two small operations, then the key cut to 2^24-1 bytes, then a
// plain Set of the same oversize key.  The buffers are not dumped (lengths, kvs words,
// small entries only).
func bbBigCase(emit func(sx), coll moss.Collection, id int, cs uint64) {
	big := 1 << 24
	cap0 := 3*big + 64
	b, _ := coll.NewBatch(4, cap0)
	run := &bbRun{emit: emit, b: b, view: bbOf(b), big: true}
	emit(L("case", id, int64(cs), L("cfg", L("big", 1)), L("universe", L())))
	emit(L("bbnew", 4, cap0))
	al := func(n int) []byte {
		s, err := b.Alloc(n)
		ex := []sx{}
		if err == nil {
			ex = append(ex, L("h", -1, len(s), cap(s)))
		}
		run.obs(L("alloc", n), bbErr(err), ex...)
		return s
	}
	k1 := al(4)
	copy(k1, "k1v1")
	bk := al(big)
	for i := range bk {
		bk[i] = 'K'
	}
	k2 := al(4)
	copy(k2, "k2v2")
	err := b.AllocSet(k1[:2], k1[2:])
	run.accept(err, moss.OperationSet, []byte("k1"), []byte("v1"))
	run.obs(L("big-aset", 0, 2, 2), bbErr(err))
	err = b.AllocSet(bk, nil)
	run.obs(L("big-aset", 4, big, 0), bbErr(err))
	err = b.AllocMerge(k2[:2], k2[2:])
	run.accept(err, moss.OperationMerge, []byte("k2"), []byte("v2"))
	run.obs(L("big-amerge", 4+big, 2, 2), bbErr(err))
	err = b.AllocDel(bk[:big-1])
	if err == nil {
		run.spec = append(run.spec, bbEntry{moss.OperationDel, []byte(fmt.Sprintf("<%d x %02x>", big-1, 'K')), []byte{}})
	}
	run.obs(L("big-adel", 4, big-1), bbErr(err))
	// a later allocation must lie behind everything handed out so far
	k3 := al(4)
	copy(k3, "k3v3")
	err = b.AllocSet(k3[:2], k3[2:])
	run.accept(err, moss.OperationSet, []byte("k3"), []byte("v3"))
	run.obs(L("big-aset", 8+big, 2, 2), bbErr(err))
	// plain path: rejected, but the bytes stay
	bigK := bytes.Repeat([]byte{'P'}, big)
	err = b.Set(bigK, []byte("x"))
	run.obs(L("big-set", big, 1), bbErr(err))
	err = b.Set([]byte("k4"), []byte("v4"))
	run.accept(err, moss.OperationSet, []byte("k4"), []byte("v4"))
	run.obs(L("big-set", 2, 2), bbErr(err))
	b.Close()
	emit(L("end"))
}

// The witness of BatchBufFacts.stale_handle_refuted on the real code.
func bbStaleCase(emit func(sx), coll moss.Collection, id int, cs uint64) {
	b, _ := coll.NewBatch(4, 8)
	run := &bbRun{emit: emit, b: b, view: bbOf(b)}
	emit(L("case", id, int64(cs), L("cfg", L("stale", 1)), L("universe", L())))
	emit(L("bbnew", 4, 8))
	h, err := b.Alloc(4)
	run.obs(L("alloc", 4), bbErr(err), L("h", 0, len(h), cap(h)))
	copy(h, "k1v1")
	run.obs(L("fill", 0, []byte("k1v1")), "ok")
	err = b.Set([]byte("plainkey"), []byte("plainval"))
	run.accept(err, moss.OperationSet, []byte("plainkey"), []byte("plainval"))
	run.obs(L("set", []byte("plainkey"), []byte("plainval")), bbErr(err))
	err = b.AllocSet(h[:2], h[2:])
	run.accept(err, moss.OperationSet, []byte("k1"), []byte("v1"))
	run.obs(L("aset", 0, 0, 2, 2, 4), bbErr(err), L("witness", "stale-handle"))
	b.Close()
	emit(L("end"))
}
