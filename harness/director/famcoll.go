package main

import (
	"bufio"
	"fmt"
	"os"
	"strings"
)

// configuration sampler for the collection family
func collConfig(r *rng, mode string) (Config, genOpts) {
	cfg := Config{MMPn: 8, MMPd: 10, MaxPre: 4}
	o := genOpts{mergeW: 20, childPct: 0, allocPct: 10}
	switch r.intn(3) {
	case 0:
		cfg.LL = "none"
	case 1:
		cfg.LL = "map"
	case 2:
		cfg.LL = "store"
	}
	switch mode {
	case "flat-nomerge":
		o.mergeW = 0
	case "flat":
	case "nilmerge":
		o.nilMerge = true
		o.mergeW = 35
	case "tree":
		o.childPct = 45
		if cfg.LL == "map" {
			cfg.LL = "store"
		}
	case "store":
		cfg.LL = "store"
	case "map":
		cfg.LL = "map"
	}
	if cfg.LL == "map" {
		cfg.NilInit = r.chance(1, 2)
	}
	cfg.CachePersisted = r.chance(1, 3)
	cfg.DeferredSort = r.chance(1, 3)
	switch r.intn(4) {
	case 0:
		cfg.MMPn, cfg.MMPd = 1, 10
	case 1:
		cfg.MMPn, cfg.MMPd = 99, 100
	}
	cfg.MaxPre = 2 + r.intn(4)
	if cfg.LL == "store" {
		cfg.Concern = r.pick([]int{40, 40, 20})
		cfg.LevelMaxSegs = 1 + r.intn(4)
		cfg.LevelMult = 2 + r.intn(8)
		if r.chance(1, 12) {
			// a factor below 2 must behave as 2 (and must not hang the level arithmetic): leveled
			// compaction allowed, one segment per level, so that the arithmetic runs in every round
			cfg.LevelMult, cfg.Concern, cfg.LevelMaxSegs = 1, 1, 1
		}
		// files of a few small segments are mostly page padding, which calcPartialCompactionStart
		// counts as fragmentation: only a threshold of 1.0 lets leveled (partial) compaction happen there
		switch r.intn(5) {
		case 0:
			cfg.PctN, cfg.PctD = 1, 10
		case 1:
			cfg.PctN, cfg.PctD = 65, 100
		case 2:
			cfg.PctN, cfg.PctD = 99, 100
		default:
			cfg.PctN, cfg.PctD = 1, 1
		}
		if r.chance(1, 2) {
			cfg.BufPages = 1
		}
		cfg.NoSync = r.chance(1, 2)
		cfg.CompactionSync = r.chance(1, 3)
		cfg.SyncAfterBytes = []int{0, 0, -1, 4096}[r.intn(4)]
		if r.chance(1, 2) {
			cfg.IndexMin = 1
			cfg.IndexMax = []int{-1, 16, 40, 100000}[r.intn(4)]
		}
	}
	o.bigKey = r.chance(1, 6)
	if cfg.LL == "store" && cfg.Concern == 1 {
		o.bigFirst = r.chance(2, 3)
		if o.bigFirst {
			cfg.LevelMult = 2 + r.intn(2)
			cfg.LevelMaxSegs = 1 + r.intn(2)
			cfg.PctN, cfg.PctD = 1, 1
		}
	}
	// blind cases: no reads between the labels (a third of the DeferredSort cases, a tenth of the others)
	if cfg.DeferredSort {
		o.blind = r.chance(1, 3)
	} else {
		o.blind = r.chance(1, 10)
	}
	if o.blind {
		o.wideFirst = r.chance(1, 2)
	}
	unread := false
	// one case in eight: the unread-segment profile.  Deferred sort, no reads between labels, a
	// wide first batch that the merger leaves unmerged, plain append persistence: segments reach
	// the persister (and the file) without anybody having looked at them
	unreadDen := 6
	if mode == "tree" {
		unreadDen = 4
	}
	if mode != "map" && r.chance(1, unreadDen) {
		cfg.DeferredSort = true
		cfg.LL = "store"
		cfg.Concern = 0
		if cfg.MMPn == 1 {
			cfg.MMPn, cfg.MMPd = 8, 10
		}
		cfg.LevelMaxSegs, cfg.LevelMult, cfg.PctN, cfg.PctD = 2, 3, 65, 100
		cfg.NoSync = true
		o.blind, o.wideFirst, o.bigFirst = true, true, false
		unread = true
		o.focusChild = mode == "tree" && r.chance(2, 3)
	}
	if cfg.LL == "store" {
		o.persistHeavy = o.bigFirst || r.chance(1, 3)
		if unread {
			o.persistHeavy = r.chance(1, 2)
		}
	}
	return cfg, o
}

func famColl(w *bufio.Writer, seed uint64, n, labels int, mode, replay string) error {
	if mode == "script" {
		// witness replay: -replay names a script (see parseScript); store-backed, fixed options
		text, err := os.ReadFile(replay)
		if err != nil {
			return err
		}
		sc, err := parseScript(string(text))
		if err != nil {
			return err
		}
		cfg := Config{LL: "store", MMPn: 8, MMPd: 10, MaxPre: 6, Concern: 0, LevelMaxSegs: 2, LevelMult: 3, PctN: 65, PctD: 100, NoSync: true}
		if strings.Contains(string(text), "\ncfg leveled\n") {
			// leveled (partial) compaction allowed, threshold 1.0: page padding does not count as fragmentation
			cfg.Concern, cfg.PctN, cfg.PctD = 1, 1, 1
		}
		_, err = runCollCase(w, 0, seed, cfg, len(sc), genOpts{childPct: 45, mergeW: 20, script: sc})
		return err
	}
	nerr := 0
	hist := map[string]int{}
	for i := 0; i < n; i++ {
		cs := seed*1000003 + uint64(i)
		r := newRng(cs ^ 0xabcdef)
		cfg, o := collConfig(r, mode)
		nl := labels/2 + r.intn(labels+1)
		if o.persistHeavy {
			nl *= 2
		}
		hh, err := runCollCase(w, i, cs, cfg, nl, o)
		for k, v := range hh {
			hist[k] += v
		}
		if err != nil {
			nerr++
			fmt.Fprintf(os.Stderr, "case %d (seed %d): %v\n", i, cs, err)
			if nerr >= 3 {
				// the implementation no longer follows the gates (an actor that never arrives costs a
				// full time-out per case): report what we have instead of waiting the run out
				fmt.Fprintf(os.Stderr, "director: giving up after %d harness errors\n", nerr)
				break
			}
		}
	}
	fmt.Fprintf(os.Stderr, "labels: %v harness-errors: %d\n", hist, nerr)
	if nerr > 0 {
		return fmt.Errorf("%d harness errors", nerr)
	}
	return nil
}
