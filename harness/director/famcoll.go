package main

import (
	"bufio"
	"fmt"
	"os"
)

// configuration sampler for the collection family
func collConfig(r *rng, mode string) (Config, genOpts) {
	cfg := Config{MMPn: 8, MMPd: 10, MaxPre: 4}
	o := genOpts{mergeW: 20, childPct: 0, allocPct: 10}
	switch r.intn(3) {
	case 0:
		cfg.LL = "none"
	case 1:
		cfg.LL = "map"
	case 2:
		cfg.LL = "store"
	}
	switch mode {
	case "flat-nomerge":
		o.mergeW = 0
	case "flat":
	case "nilmerge":
		o.nilMerge = true
		o.mergeW = 35
	case "tree":
		o.childPct = 45
		if cfg.LL == "map" {
			cfg.LL = "store"
		}
	case "store":
		cfg.LL = "store"
	case "map":
		cfg.LL = "map"
	}
	cfg.CachePersisted = r.chance(1, 3)
	cfg.DeferredSort = r.chance(1, 3)
	switch r.intn(4) {
	case 0:
		cfg.MMPn, cfg.MMPd = 1, 10
	case 1:
		cfg.MMPn, cfg.MMPd = 99, 100
	}
	cfg.MaxPre = 2 + r.intn(4)
	if cfg.LL == "store" {
		cfg.Concern = r.pick([]int{40, 40, 20})
		cfg.LevelMaxSegs = 1 + r.intn(4)
		cfg.LevelMult = 2 + r.intn(8)
		switch r.intn(3) {
		case 0:
			cfg.PctN, cfg.PctD = 1, 10
		case 1:
			cfg.PctN, cfg.PctD = 65, 100
		case 2:
			cfg.PctN, cfg.PctD = 99, 100
		}
		if r.chance(1, 2) {
			cfg.BufPages = 1
		}
		cfg.NoSync = r.chance(1, 2)
		cfg.CompactionSync = r.chance(1, 3)
		if r.chance(1, 2) {
			cfg.IndexMin = 1
			cfg.IndexMax = []int{-1, 16, 40, 100000}[r.intn(4)]
		}
	}
	o.bigKey = r.chance(1, 6)
	return cfg, o
}

func famColl(w *bufio.Writer, seed uint64, n, labels int, mode, replay string) error {
	nerr := 0
	hist := map[string]int{}
	for i := 0; i < n; i++ {
		cs := seed*1000003 + uint64(i)
		r := newRng(cs ^ 0xabcdef)
		cfg, o := collConfig(r, mode)
		nl := labels/2 + r.intn(labels+1)
		hh, err := runCollCase(w, i, cs, cfg, nl, o)
		for k, v := range hh {
			hist[k] += v
		}
		if err != nil {
			nerr++
			fmt.Fprintf(os.Stderr, "case %d (seed %d): %v\n", i, cs, err)
		}
	}
	fmt.Fprintf(os.Stderr, "labels: %v harness-errors: %d\n", hist, nerr)
	if nerr > 0 {
		return fmt.Errorf("%d harness errors", nerr)
	}
	return nil
}
