package main

import (
	"fmt"
	"os"
	"path/filepath"
	"sync"

	"github.com/couchbase/moss"
)

// fileRecorder wraps every file the store opens: records operations (for the
// crash model), can fail them by predicate (fault injection) and notes
// whether anything mutating was attempted (read-only checks).

type fileOp struct {
	File string // base name
	Kind string // create open write sync truncate close remove stat read
	Off  int64
	Data []byte
	Flag int
	Err  bool
}

type faultSpec struct {
	Kind      string // write | shortwrite | sync | stat | open | truncate | osfile
	File      string // "" = any
	OffLo     int64  // write offset range, inclusive / exclusive; OffHi 0 = any
	OffHi     int64
	Skip      int // let this many matches pass first
	Count     int // then fail this many (-1 = forever)
	triggered int
}

func (r *fileRecorder) setFaults(f []*faultSpec) {
	r.mu.Lock()
	r.faults = f
	r.mu.Unlock()
}

func (r *fileRecorder) swapFaults(f []*faultSpec) []*faultSpec {
	r.mu.Lock()
	old := r.faults
	r.faults = f
	r.mu.Unlock()
	return old
}

func (r *fileRecorder) triggered() int {
	r.mu.Lock()
	defer r.mu.Unlock()
	n := 0
	for _, f := range r.faults {
		n += f.triggered
	}
	return n
}

type fileRecorder struct {
	mu     sync.Mutex
	ops    []fileOp
	record bool
	faults []*faultSpec
}

func (r *fileRecorder) add(op fileOp) {
	r.mu.Lock()
	if r.record {
		r.ops = append(r.ops, op)
	}
	r.mu.Unlock()
}

func (r *fileRecorder) remove(path string) {
	r.add(fileOp{File: filepath.Base(path), Kind: "remove"})
}

// shouldFail consults the fault list.
func (r *fileRecorder) shouldFail(kind, file string, off int64, n int) bool {
	r.mu.Lock()
	defer r.mu.Unlock()
	for _, f := range r.faults {
		if f.Kind != kind || (f.File != "" && f.File != file) {
			continue
		}
		if kind == "write" || kind == "shortwrite" {
			if f.OffHi > 0 && !(off < f.OffHi && off+int64(n) > f.OffLo) {
				continue
			}
		}
		if f.Skip > 0 {
			f.Skip--
			continue
		}
		if f.Count == 0 {
			continue
		}
		if f.Count > 0 {
			f.Count--
		}
		f.triggered++
		return true
	}
	return false
}

func (r *fileRecorder) openFile(name string, flag int, perm os.FileMode) (moss.File, error) {
	base := filepath.Base(name)
	kind := "open"
	if flag&os.O_CREATE != 0 {
		kind = "create"
	}
	if r.shouldFail("open", base, 0, 0) {
		r.add(fileOp{File: base, Kind: kind, Flag: flag, Err: true})
		return nil, fmt.Errorf("injected open failure")
	}
	f, err := os.OpenFile(name, flag, perm)
	r.add(fileOp{File: base, Kind: kind, Flag: flag, Err: err != nil})
	if err != nil {
		return nil, err
	}
	return &recFile{r: r, f: f, name: base}, nil
}

type recFile struct {
	r    *fileRecorder
	f    *os.File
	name string
}

// OsFile is only asked for by Footer.doLoadSegments (Stat + mmap of the new segments go through the
// *os.File): a fault of kind "osfile" makes that load fail - the stand-in for a failing Stat/mmap there.
func (f *recFile) OsFile() *os.File {
	if f.r.shouldFail("osfile", f.name, 0, 0) {
		return nil
	}
	return f.f
}

func (f *recFile) ReadAt(p []byte, off int64) (int, error) { return f.f.ReadAt(p, off) }

func (f *recFile) WriteAt(p []byte, off int64) (int, error) {
	if f.r.shouldFail("write", f.name, off, len(p)) {
		f.r.add(fileOp{File: f.name, Kind: "write", Off: off, Data: nil, Err: true})
		return 0, fmt.Errorf("injected write failure")
	}
	if len(p) > 1 && f.r.shouldFail("shortwrite", f.name, off, len(p)) {
		n := len(p) / 2
		f.f.WriteAt(p[:n], off)
		f.r.add(fileOp{File: f.name, Kind: "write", Off: off, Data: append([]byte{}, p[:n]...), Err: true})
		return n, nil
	}
	n, err := f.f.WriteAt(p, off)
	f.r.add(fileOp{File: f.name, Kind: "write", Off: off, Data: append([]byte{}, p[:n]...), Err: err != nil})
	return n, err
}

func (f *recFile) Close() error {
	f.r.add(fileOp{File: f.name, Kind: "close"})
	return f.f.Close()
}

func (f *recFile) Stat() (os.FileInfo, error) {
	if f.r.shouldFail("stat", f.name, 0, 0) {
		f.r.add(fileOp{File: f.name, Kind: "stat", Err: true})
		return nil, fmt.Errorf("injected stat failure")
	}
	f.r.add(fileOp{File: f.name, Kind: "stat"})
	return f.f.Stat()
}

func (f *recFile) Sync() error {
	if f.r.shouldFail("sync", f.name, 0, 0) {
		f.r.add(fileOp{File: f.name, Kind: "sync", Err: true})
		return fmt.Errorf("injected sync failure")
	}
	err := f.f.Sync()
	f.r.add(fileOp{File: f.name, Kind: "sync", Err: err != nil})
	return err
}

func (f *recFile) Truncate(size int64) error {
	if f.r.shouldFail("truncate", f.name, 0, 0) {
		return fmt.Errorf("injected truncate failure")
	}
	f.r.add(fileOp{File: f.name, Kind: "truncate", Off: size})
	return f.f.Truncate(size)
}
