package main

import (
	"bufio"
	"bytes"
	"fmt"
	"os"
	"time"

	"github.com/couchbase/moss"
)

// Family "history" (C12): persistence rounds, walking back with
// SnapshotPrevious, SnapshotRevert, reopen and continuation.

func footerPosSx(snap moss.Snapshot) (int64, sx) {
	d := moss.VerifDumpFooter(snap)
	return d.FilePos, stackSx(d)
}

func famHistory(w *bufio.Writer, seed uint64, n int) error {
	emit := func(v sx) { w.WriteString(sxString(v)); w.WriteByte('\n') }
	for i := 0; i < n; i++ {
		cs := seed*1000003 + uint64(i)
		r := newRng(cs ^ 0x6d)
		dir := mustMkdirTemp(workDir, "hist")
		cfg := Config{LL: "store", MMPn: 8, MMPd: 10, MaxPre: 4, LevelMaxSegs: 1 + r.intn(3), LevelMult: 2 + r.intn(3),
			PctN: 99, PctD: 100}
		// a third of the cases are shaped for leveled (partial) compaction into the same file: one
		// big first round, then small rounds under CompactionAllow with threshold 1.0 (small files
		// are mostly page padding, which otherwise counts as fragmentation and forces full compaction)
		leveled := r.chance(1, 3)
		if leveled {
			cfg.LevelMaxSegs, cfg.LevelMult, cfg.PctN, cfg.PctD = 1+r.intn(2), 2+r.intn(2), 1, 1
		}
		pickConcern := func() int {
			if leveled && r.chance(4, 5) {
				return 1
			}
			return r.pick([]int{6, 2, 2})
		}
		rounds := 0
		g := &gen{r: r, o: genOpts{mergeW: 15}, universe: baseUniverse}
		emit(L("case", i, int64(cs), cfg.sx(), L("universe", universeSx(baseUniverse))))
		var s *moss.Store
		var c moss.Collection
		open := func(concern int) error {
			cfg.Concern = concern
			h := newH(cfg, dir)
			h.gating = 0
			so, po := h.storeOptions()
			so.CollectionOptions.MergerIdleRunTimeoutMS = -1
			var err error
			s, c, err = moss.OpenStoreCollection(dir, so, po)
			return err
		}
		closeColl := func() {
			if c != nil {
				c.Close()
				c = nil
			}
		}
		closeAll := func() {
			closeColl()
			if s != nil {
				s.Close()
				s = nil
			}
			sleepMicros(5000)
		}
		first := 0
		if leveled {
			first = 1
		}
		if err := open(first); err != nil {
			return err
		}
		steps := 6 + r.intn(8)
		if leveled {
			steps += 4
		}
		fail := false
		for st := 0; st < steps && !fail; st++ {
			switch r.pick([]int{50, 20, 15, 15}) {
			case 0: // one persisted round
				if c == nil {
					closeAll()
					if err := open(pickConcern()); err != nil {
						emit(L("error", fmt.Sprintf("%q", err.Error())))
						fail = true
						break
					}
					fs, _ := s.Snapshot()
					pos, dump := footerPosSx(fs)
					fs.Close()
					emit(L("reopen", pos, dump))
				}
				before := (&H{store: s}).storeCounters()
				b := &tbatch{ops: g.ops(4)}
				if len(b.ops) == 0 {
					b.ops = []bop{{'s', []byte("k0"), g.value()}}
				}
				if leveled && rounds == 0 {
					b.ops = append(b.ops, bop{'s', []byte("k9"), bytes.Repeat([]byte("B"), 1500+r.intn(800))})
				}
				rounds++
				hh := &H{coll: c}
				if err := hh.execBatch(b); err != nil {
					emit(L("error", fmt.Sprintf("%q", err.Error())))
					fail = true
					break
				}
				waitPersisted(c)
				kind := (&H{store: s}).persistChoice(before)
				fs, _ := s.Snapshot()
				pos, dump := footerPosSx(fs)
				fs.Close()
				emit(L("round", b.sx(), kind, pos, dump))
			case 1: // walk back from the current snapshot
				fs, _ := s.Snapshot()
				walk := []sx{"walk"}
				cur := fs
				for depth := 0; depth < 40; depth++ {
					prev, err := s.SnapshotPrevious(cur)
					if err != nil {
						walk = append(walk, L("err", fmt.Sprintf("%q", err.Error())))
						break
					}
					if cur != fs {
						cur.Close()
					}
					if prev == nil {
						cur = nil
						break
					}
					pos, dump := footerPosSx(prev)
					walk = append(walk, L(pos, dump))
					cur = prev
				}
				if cur != nil && cur != fs {
					cur.Close()
				}
				fs.Close()
				emit(walk)
			case 2: // revert to a footer some steps back
				closeColl()
				fs, _ := s.Snapshot()
				depth := r.intn(4)
				cur := fs
				for d := 0; d < depth; d++ {
					prev, err := s.SnapshotPrevious(cur)
					if err != nil || prev == nil {
						break
					}
					if cur != fs {
						cur.Close()
					}
					cur = prev
				}
				tpos, _ := footerPosSx(cur)
				err := s.SnapshotRevert(cur)
				if cur != fs {
					cur.Close()
				}
				fs.Close()
				res := "ok"
				if err != nil {
					res = fmt.Sprintf("%q", err.Error())
				}
				ns, _ := s.Snapshot()
				pos, dump := footerPosSx(ns)
				ns.Close()
				emit(L("revert", tpos, res, pos, dump))
			case 3: // close and reopen
				closeAll()
				if err := open(pickConcern()); err != nil {
					emit(L("error", fmt.Sprintf("%q", err.Error())))
					fail = true
					break
				}
				fs, _ := s.Snapshot()
				pos, dump := footerPosSx(fs)
				fs.Close()
				emit(L("reopen", pos, dump))
			}
		}
		closeAll()
		emit(L("end"))
		os.RemoveAll(dir)
	}
	return nil
}

// ---------------------------------------------------------------------------------------
// Mode "tree": the same programs with child collections - rounds that write, create (also
// empty), delete and re-create child collections one and two levels down, cases whose data
// is wholly in child collections - and every snapshot read in full (Get per universe key,
// iteration, child collections recursively), so that the runner can compare each walked
// snapshot, each revert and each reopen with the reference tree of the batches behind it.

func footerTreeSx(snap moss.Snapshot) (pos int64, file string, dump sx, reads sx) {
	d := moss.VerifDumpFooter(snap)
	return d.FilePos, d.FileName, stackSx(d), readsSx(snap, baseUniverse, 0)
}

func famHistoryTree(w *bufio.Writer, seed uint64, n int) error {
	emit := func(v sx) { w.WriteString(sxString(v)); w.WriteByte('\n') }
	for i := 0; i < n; i++ {
		cs := seed*1000003 + uint64(i)
		r := newRng(cs ^ 0x7e)
		dir := mustMkdirTemp(workDir, "histt")
		cfg := Config{LL: "store", MMPn: 8, MMPd: 10, MaxPre: 4, LevelMaxSegs: 1 + r.intn(3), LevelMult: 2 + r.intn(3),
			PctN: 99, PctD: 100}
		leveled := r.chance(1, 4)
		if leveled {
			cfg.LevelMaxSegs, cfg.LevelMult, cfg.PctN, cfg.PctD = 1+r.intn(2), 2+r.intn(2), 1, 1
		}
		pickConcern := func() int {
			if leveled && r.chance(4, 5) {
				return 1
			}
			return r.pick([]int{7, 2, 1})
		}
		g := &gen{r: r, o: genOpts{mergeW: 10, childPct: 60}, universe: baseUniverse}
		// a third of the cases keep ALL data in child collections, a sixth have no children at all
		childOnly := r.chance(1, 3)
		if !childOnly && r.chance(1, 4) {
			g.o.childPct = 0
		}
		emit(L("case", i, int64(cs), cfg.sx(), L("universe", universeSx(baseUniverse)), L("childonly", childOnly)))
		var s *moss.Store
		var c moss.Collection
		open := func(concern int) error {
			cfg.Concern = concern
			h := newH(cfg, dir)
			h.gating = 0
			so, po := h.storeOptions()
			so.CollectionOptions.MergerIdleRunTimeoutMS = -1
			var err error
			s, c, err = moss.OpenStoreCollection(dir, so, po)
			return err
		}
		closeColl := func() {
			if c != nil {
				c.Close()
				c = nil
			}
		}
		closeAll := func() {
			closeColl()
			if s != nil {
				s.Close()
				s = nil
			}
			sleepMicros(5000)
		}
		first := 0
		if leveled {
			first = 1
		}
		if err := open(first); err != nil {
			return err
		}
		steps := 7 + r.intn(9)
		rounds := 0
		lastFile := ""
		fail := false
		reopenLine := func() bool {
			if err := open(pickConcern()); err != nil {
				emit(L("error", fmt.Sprintf("%q", err.Error())))
				return false
			}
			fs, _ := s.Snapshot()
			pos, file, dump, reads := footerTreeSx(fs)
			fs.Close()
			lastFile = file
			emit(L("reopen", pos, dump, reads))
			return true
		}
		for st := 0; st < steps && !fail; st++ {
			switch r.pick([]int{50, 18, 20, 12}) {
			case 0: // one persisted round
				if c == nil {
					closeAll()
					if !reopenLine() {
						fail = true
						break
					}
				}
				before := (&H{store: s}).storeCounters()
				b := g.nonEmptyBatch()
				dropAll := childOnly && rounds > 0 && r.chance(1, 6)
				if dropAll {
					// every child collection is dropped and nothing else: the footer written keeps no
					// persisted segment at all, so that the NEXT round has to start a new data file
					// (the store reaches its file only through a segment) - whose first footer must not
					// claim a previous footer.  No key operation: the round is awaited through the store.
					b = &tbatch{kids: []kid{{name: childNames[0], del: true}, {name: childNames[1], del: true}, {name: "ce", del: true}}}
				} else if childOnly {
					b.ops = nil
					if len(b.kids) == 0 {
						b.kids = []kid{{name: childNames[0], b: &tbatch{ops: []bop{{'s', []byte("k0"), g.value()}}}}}
					}
				}
				if !dropAll && !hasKeyOps(b) {
					// a round is waited for through the dirty gauges, which a batch without any key
					// operation does not move (C20's subject): every batch here writes at least one key
					if childOnly {
						var keep []kid
						for _, k := range b.kids {
							if k.name != childNames[1] {
								keep = append(keep, k)
							}
						}
						b.kids = append(keep, kid{name: childNames[1], b: &tbatch{ops: []bop{{'s', []byte("k1"), g.value()}}}})
					} else {
						b.ops = []bop{{'s', []byte("k1"), g.value()}}
					}
				}
				if !dropAll && r.chance(1, 8) {
					// a child collection created (or touched) by an empty child batch: it exists, without any segment
					b.kids = append(b.kids, kid{name: "ce", b: &tbatch{}})
				}
				if leveled && rounds == 0 && !childOnly {
					b.ops = append(b.ops, bop{'s', []byte("k9"), bytes.Repeat([]byte("B"), 1500+r.intn(800))})
				}
				rounds++
				if err := (&H{coll: c}).execBatch(b); err != nil {
					emit(L("error", fmt.Sprintf("%q", err.Error())))
					fail = true
					break
				}
				waitPersisted(c)
				if dropAll {
					// the gauges do not show a batch without key operations: wait until the store's
					// footer has no child collection left (or 3 s: nothing had been persisted to drop)
					for dl := time.Now().Add(3 * time.Second); time.Now().Before(dl); {
						fs, _ := s.Snapshot()
						names, _ := fs.ChildCollectionNames()
						fs.Close()
						if len(names) == 0 {
							break
						}
						sleepMicros(500)
					}
				}
				kind := (&H{store: s}).persistChoice(before)
				fs, _ := s.Snapshot()
				pos, file, dump, reads := footerTreeSx(fs)
				fs.Close()
				newFile := lastFile != "" && file != "" && file != lastFile
				if file != "" {
					lastFile = file
				}
				emit(L("round", b.sx(), kind, pos, L("newfile", newFile), dump, reads))
			case 1: // walk back from the current snapshot
				fs, _ := s.Snapshot()
				walk := []sx{"walk"}
				cur := fs
				for depth := 0; depth < 40; depth++ {
					prev, err := s.SnapshotPrevious(cur)
					if err != nil {
						walk = append(walk, L("err", fmt.Sprintf("%q", err.Error())))
						break
					}
					if cur != fs {
						cur.Close()
					}
					if prev == nil {
						cur = nil
						break
					}
					pos, _, dump, reads := footerTreeSx(prev)
					walk = append(walk, L(pos, dump, reads))
					cur = prev
				}
				if cur != nil && cur != fs {
					cur.Close()
				}
				fs.Close()
				emit(walk)
			case 2: // revert to a footer some steps back (0 = the current one)
				closeColl()
				fs, _ := s.Snapshot()
				depth := r.intn(4)
				cur := fs
				for d := 0; d < depth; d++ {
					prev, err := s.SnapshotPrevious(cur)
					if err != nil || prev == nil {
						break
					}
					if cur != fs {
						cur.Close()
					}
					cur = prev
				}
				tpos, _, _, _ := footerTreeSx(cur)
				err := s.SnapshotRevert(cur)
				if cur != fs {
					cur.Close()
				}
				fs.Close()
				res := "ok"
				if err != nil {
					res = fmt.Sprintf("%q", err.Error())
				}
				ns, _ := s.Snapshot()
				pos, _, dump, reads := footerTreeSx(ns)
				ns.Close()
				emit(L("revert", tpos, res, pos, dump, reads))
			case 3: // close and reopen
				closeAll()
				if !reopenLine() {
					fail = true
				}
			}
		}
		closeAll()
		emit(L("end"))
		os.RemoveAll(dir)
	}
	return nil
}

func hasKeyOps(b *tbatch) bool {
	if b == nil {
		return false
	}
	if len(b.ops) > 0 {
		return true
	}
	for _, k := range b.kids {
		if !k.del && hasKeyOps(k.b) {
			return true
		}
	}
	return false
}
