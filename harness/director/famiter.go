package main

import (
	"bufio"
	"os"

	"github.com/couchbase/moss"
)

// Family "iter" (C09): snapshot shapes (one / many segments, tombstones
// first / last, lower level present / exhausted / absent), bounds (nil,
// empty, equal, inverted, sharing prefixes) and programs of Next / SeekTo /
// Current calls, executed call by call on the real iterator.

var iterKeys = [][]byte{
	{}, []byte("a"), []byte("ab"), []byte("ab\x00"), []byte("abc"), []byte("b"), []byte("k"), []byte("k\x01"),
	[]byte("k\x02"), []byte("k\x05"), []byte("k\x09"), []byte("kz"), {0xff}, {0xff, 0xff},
}

func genBound(r *rng) []byte {
	switch r.intn(8) {
	case 0, 1, 2:
		return nil
	case 3:
		return []byte{}
	}
	return iterKeys[r.intn(len(iterKeys))]
}

func famIter(w *bufio.Writer, seed uint64, n int) error {
	emit := func(v sx) { w.WriteString(sxString(v)); w.WriteByte('\n') }
	defer func() { moss.DefaultNaiveSeekToMaxTries = 100 }()
	for i := 0; i < n; i++ {
		cs := seed*1000003 + uint64(i)
		if i == 0 && seed%4 == 0 {
			// every fourth shard starts with the depth probe (a child process)
			deepDelCase(emit, i, cs)
			continue
		}
		r := newRng(cs ^ 0x4b)
		withLL := r.chance(1, 2)
		dir := mustMkdirTemp(workDir, "iter")
		cfg := Config{LL: "none", MMPn: 8, MMPd: 10, MaxPre: 64}
		if withLL {
			cfg.LL = "store"
		}
		h := newH(cfg, dir)
		if err := h.open(); err != nil {
			return err
		}
		g := &gen{r: r, o: genOpts{mergeW: 12}, universe: iterKeys}
		mkBatch := func() *tbatch {
			b := &tbatch{ops: g.ops(1 + r.intn(6))}
			if len(b.ops) == 0 {
				b.ops = []bop{{'s', iterKeys[r.intn(len(iterKeys))], g.value()}}
			}
			return b
		}
		// optional lower level: one or two persisted rounds
		if withLL {
			for round := 0; round < 1+r.intn(2); round++ {
				if err := h.execBatch(mkBatch()); err != nil {
					return err
				}
				// drive one full merger cycle and one persistence round
				for _, want := range []string{"merger:ingest", "merger:swap", "merger:handover"} {
					if err := h.waitPark("merger", want); err != nil {
						return err
					}
					h.releaseActor("merger")
				}
				if err := h.waitPark("persister", "persister:begin"); err != nil {
					return err
				}
				h.releaseActor("persister")
				if err := h.waitPark("persister", "persister:publish"); err != nil {
					return err
				}
				h.releaseActor("persister")
				if err := h.quiesce(); err != nil {
					return err
				}
			}
		}
		// in-memory segments: batches left in top (the merger stays parked)
		nseg := r.intn(5)
		shaped := r.chance(1, 3)
		k0 := iterKeys[r.intn(5)]
		if shaped && nseg < 2 {
			nseg = 2 + r.intn(2)
		}
		for s := 0; s < nseg; s++ {
			b := mkBatch()
			if shaped && s == 0 && !withLL {
				// the oldest segment holds k0 and a few larger keys
				b = &tbatch{ops: []bop{{'s', k0, g.value()}}}
				for _, k := range iterKeys[5:] {
					if r.chance(1, 3) {
						b.ops = append(b.ops, bop{'s', k, g.value()})
					}
				}
			} else if shaped && (s > 0 || withLL) {
				// newer segments that only delete (or merge into) k0: cursors that are
				// exhausted as soon as the leading deletion is skipped
				if r.chance(4, 5) {
					b = &tbatch{ops: []bop{{'d', k0, nil}}}
				} else {
					b = &tbatch{ops: []bop{{'m', k0, g.value()}}}
				}
			}
			if err := h.execBatch(b); err != nil {
				return err
			}
			if err := h.quiesce(); err != nil {
				return err
			}
		}
		d := moss.VerifDumpCollection(h.coll)
		ss, err := h.coll.Snapshot()
		if err != nil {
			return err
		}
		start, end := genBound(r), genBound(r)
		if shaped {
			end = nil
			if r.chance(1, 2) {
				start = k0
			} else {
				start = nil
			}
		}
		if r.chance(1, 8) && start != nil {
			end = start // equal bounds
		} else if start != nil && end != nil && r.chance(3, 4) && string(start) > string(end) {
			start, end = end, start // mostly well-ordered bounds; inverted ones stay in the mix
		}
		maxTries := []int{100, 1, 2, 0}[r.intn(4)]
		moss.DefaultNaiveSeekToMaxTries = maxTries
		// IncludeDeletions in a quarter of the cases - when the lower level holds no deletion entry
		// (the model's lower level is the list of live entries its own iterator yields)
		incl := r.chance(1, 4)
		if incl && d.LLPresent && d.LL != nil {
			for _, seg := range d.LL.Segs {
				for _, e := range seg {
					if e.Op == moss.OperationDel {
						incl = false
					}
				}
			}
		}
		it, err := ss.StartIterator(start, end, moss.IteratorOptions{IncludeDeletions: incl})
		prog := []sx{"prog"}
		res := []sx{"results"}
		if err != nil || it == nil {
			res = append(res, "start-failed")
		} else {
			ncalls := 1 + r.intn(12)
			for c := 0; c < ncalls; c++ {
				switch r.pick([]int{4, 3, 4}) {
				case 0:
					prog = append(prog, L("next"))
					res = append(res, errSx(it.Next()))
				case 1:
					x := iterKeys[r.intn(len(iterKeys))]
					if shaped && r.chance(1, 2) {
						x = k0 // backwards, to the deleted first key
					}
					prog = append(prog, L("seek", x))
					res = append(res, errSx(it.SeekTo(x)))
				case 2:
					prog = append(prog, L("cur"))
					k, v, e := it.Current()
					if e != nil {
						res = append(res, errSx(e))
					} else if k == nil && v == nil {
						res = append(res, "deleted")
					} else {
						res = append(res, L(cp(k), cp(v)))
					}
				}
			}
			it.Close()
		}
		ss.Close()
		ll := sx("none")
		if d.LLPresent {
			ll = stackSx(d.LL)
		}
		emit(L("case", i, int64(cs), cfg.sx(), L("universe", L())))
		emit(L("iter", L("top", stackSx(d.Top)), L("mid", stackSx(d.Mid)), L("base", stackSx(d.Base)),
			L("clean", stackSx(d.Clean)), L("ll", ll),
			L("start", start), L("end", end), L("maxtries", maxTries), L("incl", incl), prog, res))
		emit(L("end"))
		h.closeAll()
		os.RemoveAll(dir)
	}
	return nil
}
