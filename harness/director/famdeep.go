package main

import (
	"bytes"
	"fmt"
	"os"
	"os/exec"
	"runtime/debug"
	"strings"
	"time"

	"github.com/couchbase/moss"
)

// Depth probes (C09: "every snapshot shape").  The model's iterators are structural recursions,
// for which depth costs nothing; in Go a recursion whose depth grows with the data ends in
// "fatal error: stack overflow", which no recover() catches and which takes the process down.
// The probe therefore runs in a child process (this binary, sub-command `deepdel`) with a small
// maximal goroutine stack, so that a few hundred thousand entries are enough to tell a loop
// from a recursion.

const deepDeletions = 400000

// deepDelProbe is the child: one segment "a", 400 000 deletions, "z"; no lower level (the
// single-segment iterator); Next from "a" has to step over all deletions at once.
func deepDelProbe() int {
	debug.SetMaxStack(8 << 20)
	c, err := moss.NewCollection(moss.CollectionOptions{MergerIdleRunTimeoutMS: -1})
	if err != nil {
		fmt.Println("probe:", err)
		return 3
	}
	c.Start()
	defer c.Close()
	b, _ := c.NewBatch(deepDeletions+2, (deepDeletions+2)*10)
	b.Set([]byte("a"), []byte("1"))
	for i := 0; i < deepDeletions; i++ {
		b.Del([]byte(fmt.Sprintf("d%07d", i)))
	}
	b.Set([]byte("z"), []byte("2"))
	if err := c.ExecuteBatch(b, moss.WriteOptions{}); err != nil {
		fmt.Println("probe:", err)
		return 3
	}
	b.Close()
	ss, err := c.Snapshot()
	if err != nil {
		fmt.Println("probe:", err)
		return 3
	}
	defer ss.Close()
	for _, incl := range []bool{false, true} {
		it, err := ss.StartIterator(nil, nil, moss.IteratorOptions{IncludeDeletions: incl})
		if err != nil {
			fmt.Println("probe:", err)
			return 3
		}
		n, last := 0, ""
		for {
			k, _, err := it.Current()
			if err != nil {
				break
			}
			n++
			last = string(k)
			if it.Next() != nil {
				break
			}
		}
		// backwards and forwards once more: SeekTo into the run of deletions
		if err := it.SeekTo([]byte("d")); err == nil {
			k, _, _ := it.Current()
			if !incl && string(k) != "z" {
				fmt.Printf("probe: SeekTo(d) landed on %q, want z\n", k)
				return 4
			}
		}
		it.Close()
		want := 2
		if incl {
			want = deepDeletions + 2
		}
		if n != want || last != "z" {
			fmt.Printf("probe: iterated %d entries ending at %q, want %d ending at z (incl=%v)\n", n, last, want, incl)
			return 4
		}
	}
	return 0
}

// deepDelCase runs the probe as a child process and reports its fate.
func deepDelCase(emit func(sx), id int, cs uint64) {
	emit(L("case", id, int64(cs), Config{LL: "none", MaxPre: 1}.sx(), L("universe", L())))
	cmd := exec.Command(os.Args[0], "deepdel")
	var out bytes.Buffer
	cmd.Stdout, cmd.Stderr = &out, &out
	done := make(chan error, 1)
	if err := cmd.Start(); err != nil {
		emit(L("deep", "error", fmt.Sprintf("%q", err.Error())))
		emit(L("end"))
		return
	}
	go func() { done <- cmd.Wait() }()
	select {
	case err := <-done:
		if err == nil {
			emit(L("deep", "ok", "\"\""))
		} else {
			first := ""
			for _, ln := range strings.Split(out.String(), "\n") {
				if strings.Contains(ln, "fatal error") || strings.Contains(ln, "stack") || strings.HasPrefix(ln, "probe:") || strings.Contains(ln, "panic") {
					first += strings.TrimSpace(ln) + " / "
					if len(first) > 300 {
						break
					}
				}
			}
			emit(L("deep", "crash", fmt.Sprintf("%q", fmt.Sprintf("iterating one segment holding a, %d deletions, z with an 8 MB goroutine stack: %v: %s", deepDeletions, err, first))))
		}
	case <-time.After(120 * time.Second):
		cmd.Process.Kill()
		emit(L("deep", "crash", "\"the probe did not finish within 120 s\""))
	}
	emit(L("end"))
}
