package main

import (
	"bufio"
	"bytes"
	"fmt"
	"os"
	"sort"
	"time"

	"github.com/couchbase/moss"
)

// Family "index": (1) function level — the same sorted key set, quota,
// minimum key bytes and probe go to moss's index code (through the verif
// exports) and to the model; (2) API level — one directory opened with
// different index settings must answer every Get and every range alike.

func genKeySet(r *rng) [][]byte {
	n := r.intn(40)
	if r.chance(1, 6) {
		n = 40 + r.intn(200)
	}
	alphabet := []byte{0, 'a', 'b', 'c', 0xff}
	m := map[string]bool{}
	if r.chance(1, 3) {
		m[""] = true
	}
	shared := []byte{}
	if r.chance(1, 2) {
		shared = []byte("pre")
	}
	for i := 0; i < n; i++ {
		l := r.intn(6)
		if r.chance(1, 12) {
			l = 20 + r.intn(60)
		}
		k := append([]byte{}, shared...)
		if r.chance(1, 4) {
			k = []byte{}
		}
		for j := 0; j < l; j++ {
			k = append(k, alphabet[r.intn(len(alphabet))])
		}
		m[string(k)] = true
	}
	var ks [][]byte
	for k := range m {
		ks = append(ks, []byte(k))
	}
	sort.Slice(ks, func(i, j int) bool { return bytes.Compare(ks[i], ks[j]) < 0 })
	return ks
}

func genProbe(r *rng, ks [][]byte) []byte {
	switch r.intn(6) {
	case 0:
		return []byte{}
	case 1, 2:
		if len(ks) > 0 {
			return ks[r.intn(len(ks))]
		}
	case 3:
		if len(ks) > 0 { // just after / before an existing key
			k := append([]byte{}, ks[r.intn(len(ks))]...)
			if r.chance(1, 2) {
				return append(k, 0)
			}
			if len(k) > 0 {
				return k[:len(k)-1]
			}
		}
	case 4:
		return []byte{0xff, 0xff, 0xff}
	}
	l := r.intn(5)
	k := []byte{}
	for j := 0; j < l; j++ {
		k = append(k, []byte{0, 'a', 'b', 'c', 0xff}[r.intn(5)])
	}
	return k
}

func famIndex(w *bufio.Writer, seed uint64, n int, mode string) error {
	emit := func(v sx) { w.WriteString(sxString(v)); w.WriteByte('\n') }
	for i := 0; i < n; i++ {
		cs := seed*1000003 + uint64(i)
		r := newRng(cs ^ 0x1d)
		ks := genKeySet(r)
		tot := 0
		for _, k := range ks {
			tot += len(k)
		}
		quota := []int{1, 5, 8, 16, 40, 100, 1000, 100000}[r.intn(8)]
		if r.chance(1, 5) {
			quota = 1 + r.intn(300)
		}
		minKB := []int{0, 1, tot, tot + 1}[r.intn(4)]
		if minKB == 0 {
			minKB = 1
		}
		vi := moss.NewVerifIndex(ks, quota, minKB)
		indexed, hop, nk := vi.Indexed()
		keysSx := []sx{"keys"}
		for _, k := range ks {
			keysSx = append(keysSx, k)
		}
		emit(L("case", i, int64(cs), L("cfg", L("quota", quota), L("minkb", minKB)), L("universe", L())))
		probes := []sx{"probes"}
		for j := 0; j < 12; j++ {
			p := genProbe(r, ks)
			l, rr := vi.Window(p)
			pos, err := vi.FindKeyPos(p)
			if err != nil {
				pos = -2
			}
			st := vi.FindStart(p)
			probes = append(probes, L(p, l, rr, pos, st))
		}
		emit(L("index", keysSx, L("built", indexed, hop, nk), probes))
		emit(L("end"))
	}
	_ = mode
	return nil
}

// famIndexAPI: one persisted history, reopened under several index settings.
func famIndexAPI(w *bufio.Writer, seed uint64, n int) error {
	emit := func(v sx) { w.WriteString(sxString(v)); w.WriteByte('\n') }
	for i := 0; i < n; i++ {
		cs := seed*1000003 + uint64(i)
		r := newRng(cs ^ 0x2e)
		dir := mustMkdirTemp(workDir, "idx")
		ks := genKeySet(r)
		// build the store: three persisted rounds so that several segments exist
		cfg := Config{LL: "store", MMPn: 8, MMPd: 10, MaxPre: 4, IndexMax: -1}
		h := newH(cfg, dir)
		h.gating = 0
		so, po := h.storeOptions()
		so.CollectionOptions.MergerIdleRunTimeoutMS = -1
		s, c, err := moss.OpenStoreCollection(dir, so, po)
		if err != nil {
			return err
		}
		ref := map[string][]byte{}
		for round := 0; round < 3; round++ {
			b, _ := c.NewBatch(0, 0)
			for _, k := range ks {
				switch r.intn(4) {
				case 0:
					v := []byte(fmt.Sprintf("r%d", round))
					b.Set(k, v)
					ref[string(k)] = v
				case 1:
					if round > 0 {
						b.Del(k)
						delete(ref, string(k))
					}
				case 2:
					// a Merge operand persisted as such (a single batch passes the merger unmerged):
					// segments holding Merge operations are indexed like any other
					if r.chance(1, 2) {
						o := []byte(fmt.Sprintf("m%d", round))
						b.Merge(k, o)
						ref[string(k)] = append(append(append([]byte{}, ref[string(k)]...), ':'), o...)
					}
				}
			}
			c.ExecuteBatch(b, moss.WriteOptions{})
			b.Close()
			waitPersisted(c)
		}
		c.Close()
		s.Close()
		emit(L("case", i, int64(cs), L("cfg", L("nkeys", len(ks))), L("universe", L())))
		var first sx
		okAll := true
		settings := [][2]int{{-1, 1}, {1, 1}, {12, 1}, {40, 1}, {300, 1}, {100000, 1}, {100000, 10000000}}
		for si, st := range settings {
			cfg2 := cfg
			cfg2.IndexMax, cfg2.IndexMin = st[0], st[1]
			cfg2.KeepFiles = true
			h2 := newH(cfg2, dir)
			h2.gating = 0
			so2, _ := h2.storeOptions()
			so2.CollectionOptions.ReadOnly = true
			s2, err := moss.OpenStore(dir, so2)
			if err != nil {
				return err
			}
			ss, _ := s2.Snapshot()
			res := []sx{"res"}
			rr := newRng(cs ^ 0x77)
			for j := 0; j < 16; j++ {
				p := genProbe(rr, ks)
				v, _ := ss.Get(p, moss.ReadOptions{})
				want, present := ref[string(p)]
				if present != (v != nil) || (present && !bytes.Equal(v, want)) {
					okAll = false
				}
				q := genProbe(rr, ks)
				it, err := ss.StartIterator(p, q, moss.IteratorOptions{})
				var got []sx
				if err == nil && it != nil {
					for k := 0; k < 4; k++ {
						kk, vv, e := it.Current()
						if e != nil {
							break
						}
						got = append(got, L(cp(kk), cp(vv)))
						if it.Next() != nil {
							break
						}
					}
					it.Close()
				}
				res = append(res, L(p, v, q, L(got...)))
			}
			ss.Close()
			s2.Close()
			cur := sx(res)
			if si == 0 {
				first = cur
			} else if sxString(cur) != sxString(first) {
				okAll = false
				emit(L("apidiff", L("setting", st[0], st[1]), cur, first))
			}
		}
		emit(L("api", okAll))
		emit(L("end"))
		os.RemoveAll(dir)
	}
	return nil
}

// waitPersisted waits until nothing is dirty any more.  Rounds are counted as completed by the
// callers, so giving up early would make them claim more than happened: the wait is long (fsync
// stalls for many seconds on a loaded machine) and a time-out is fatal for the run.
func waitPersisted(c moss.Collection) {
	deadline := time.Now().Add(180 * time.Second)
	for {
		st, err := c.Stats()
		if err != nil || (st.CurDirtyOps == 0 && st.CurDirtySegments == 0) {
			return
		}
		if time.Now().After(deadline) {
			panic("director: persistence did not finish within 180 s")
		}
		sleepMicros(200)
	}
}
