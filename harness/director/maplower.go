package main

import (
	"bytes"
	"fmt"
	"sort"
	"sync/atomic"

	"github.com/couchbase/moss"
)

// mapLower is an application-level lower level store: an immutable sorted
// map per snapshot, updated by the documented write-back protocol.

type kv struct{ k, v []byte }

type mapSnap struct {
	kvs []kv // sorted by key
}

type mapLower struct {
	h         *H
	cur       *mapSnap
	published *mapSnap // what the collection currently holds as its lower level
	higherN   int      // number of LowerLevelUpdate calls
	offered   [][]sx   // per call: the ops offered (for C13's in-order-once check)
}

func newMapLower(h *H) *mapLower {
	e := &mapSnap{}
	return &mapLower{h: h, cur: e, published: e}
}

func (m *mapLower) snapshot() moss.Snapshot { return m.cur }

func (s *mapSnap) find(k []byte) (int, bool) {
	i := sort.Search(len(s.kvs), func(i int) bool { return bytes.Compare(s.kvs[i].k, k) >= 0 })
	return i, i < len(s.kvs) && bytes.Equal(s.kvs[i].k, k)
}

func (s *mapSnap) with(k, v []byte, del bool) *mapSnap {
	i, ok := s.find(k)
	n := &mapSnap{kvs: make([]kv, 0, len(s.kvs)+1)}
	n.kvs = append(n.kvs, s.kvs[:i]...)
	if !del {
		n.kvs = append(n.kvs, kv{append([]byte{}, k...), append([]byte{}, v...)})
	}
	if ok {
		n.kvs = append(n.kvs, s.kvs[i+1:]...)
	} else {
		n.kvs = append(n.kvs, s.kvs[i:]...)
	}
	return n
}

// update follows the documented protocol.
func (m *mapLower) update(higher moss.Snapshot) (moss.Snapshot, error) {
	m.higherN++
	var offered []sx
	next := m.cur
	if higher != nil {
		iter, err := higher.StartIterator(nil, nil, moss.IteratorOptions{
			IncludeDeletions: true, SkipLowerLevel: true})
		if err != nil {
			return nil, err
		}
		defer iter.Close()
		for {
			ex, key, val, err := iter.CurrentEx()
			if err == moss.ErrIteratorDone {
				break
			}
			if err != nil {
				return nil, err
			}
			switch ex.Operation {
			case moss.OperationSet:
				offered = append(offered, L("s", key, val))
				next = next.with(key, val, false)
			case moss.OperationDel:
				offered = append(offered, L("d", key))
				next = next.with(key, nil, true)
			case moss.OperationMerge:
				offered = append(offered, L("m", key, val))
				v, err := higher.Get(key, moss.ReadOptions{})
				if err != nil {
					return nil, err
				}
				if v != nil {
					next = next.with(key, v, false)
				} else {
					next = next.with(key, nil, true)
				}
			default:
				return nil, fmt.Errorf("unexpected op %x", ex.Operation)
			}
			err = iter.Next()
			if err == moss.ErrIteratorDone {
				break
			}
			if err != nil {
				return nil, err
			}
		}
	}
	m.offered = append(m.offered, offered)
	if atomic.LoadInt32(&m.h.failNext) > 0 {
		atomic.AddInt32(&m.h.failNext, -1)
		return nil, fmt.Errorf("injected lower-level failure")
	}
	m.cur = next
	return next, nil
}

func (s *mapSnap) Close() error { return nil }

func (s *mapSnap) Get(key []byte, ro moss.ReadOptions) ([]byte, error) {
	i, ok := s.find(key)
	if !ok {
		return nil, nil
	}
	if ro.NoCopyValue {
		return s.kvs[i].v, nil
	}
	return append([]byte{}, s.kvs[i].v...), nil
}

func (s *mapSnap) ChildCollectionNames() ([]string, error) { return nil, nil }

func (s *mapSnap) ChildCollectionSnapshot(string) (moss.Snapshot, error) { return nil, nil }

type mapIter struct {
	s      *mapSnap
	lo, hi int
	cur    int
}

func (s *mapSnap) lowerBound(k []byte) int {
	return sort.Search(len(s.kvs), func(i int) bool { return bytes.Compare(s.kvs[i].k, k) >= 0 })
}

func (s *mapSnap) StartIterator(start, end []byte, _ moss.IteratorOptions) (moss.Iterator, error) {
	it := &mapIter{s: s, lo: 0, hi: len(s.kvs)}
	if start != nil {
		it.lo = s.lowerBound(start)
	}
	if end != nil {
		it.hi = s.lowerBound(end)
	}
	it.cur = it.lo
	return it, nil
}

func (it *mapIter) Close() error { return nil }

func (it *mapIter) Next() error {
	it.cur++
	if it.cur >= it.hi {
		return moss.ErrIteratorDone
	}
	return nil
}

func (it *mapIter) SeekTo(k []byte) error {
	c := it.s.lowerBound(k)
	if c < it.lo {
		c = it.lo
	}
	it.cur = c
	if it.cur >= it.hi {
		return moss.ErrIteratorDone
	}
	return nil
}

func (it *mapIter) Current() ([]byte, []byte, error) {
	if it.cur >= it.hi || it.cur < it.lo {
		return nil, nil, moss.ErrIteratorDone
	}
	return it.s.kvs[it.cur].k, it.s.kvs[it.cur].v, nil
}

func (it *mapIter) CurrentEx() (moss.EntryEx, []byte, []byte, error) {
	k, v, err := it.Current()
	if err != nil {
		return moss.EntryEx{}, nil, nil, err
	}
	return moss.EntryEx{Operation: moss.OperationSet}, k, v, nil
}
