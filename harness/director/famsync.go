package main

import (
	"bufio"
	"fmt"
	"sync/atomic"
	"time"

	"github.com/couchbase/moss"
)

// Family "sync" (C16): writers blocked by back-pressure, merger cycles,
// synchronous notifications and Close, driven label by label; compared with
// the Sync model's counts after every label.

type syncRun struct {
	h         *H
	arrived   int32
	okRet     int32
	closedRt  int32
	otherErr  int32
	syncIss   int32
	syncRet   int32
	closedNow bool
}

func (sr *syncRun) blocked() int {
	st, err := sr.h.collStats()
	if err != nil {
		return -1
	}
	return int(st.TotExecuteBatchWaitBeg - st.TotExecuteBatchWaitEnd)
}

func (h *H) collStats() (*moss.CollectionStats, error) {
	if h.coll == nil {
		return nil, fmt.Errorf("no collection")
	}
	return h.coll.Stats()
}

// settle waits until every ExecuteBatch call is accounted for (returned or
// blocked) and the counts are stable.
func (sr *syncRun) settle(coll moss.Collection) (blocked int, err error) {
	deadline := time.Now().Add(40 * time.Second)
	stable, last := 0, -1
	for {
		st, _ := coll.Stats()
		b := int(st.TotExecuteBatchWaitBeg - st.TotExecuteBatchWaitEnd)
		ret := int(atomic.LoadInt32(&sr.okRet) + atomic.LoadInt32(&sr.closedRt) + atomic.LoadInt32(&sr.otherErr))
		if sr.closedNow {
			b = 0
		}
		if ret+b == int(atomic.LoadInt32(&sr.arrived)) && b == last {
			stable++
			if stable >= 3 {
				return b, nil
			}
		} else {
			stable = 0
		}
		last = b
		if time.Now().After(deadline) {
			return b, fmt.Errorf("calls did not settle: arrived %d returned %d blocked %d", sr.arrived, ret, b)
		}
		time.Sleep(200 * time.Microsecond)
	}
}

// stallScenario: the persister pings a merger it believes asleep while the
// ping queue is full; every API call must still return.
func stallScenario(emit func(sx), id int, cs uint64) {
	cfg := Config{LL: "map", MMPn: 8, MMPd: 10, MaxPre: 4}
	h := newH(cfg, "")
	emit(L("case", id, int64(cs), cfg.sx(), L("universe", L())))
	fail := func(msg string) {
		emit(L("error", fmt.Sprintf("%q", msg)))
		emit(L("end"))
		go h.closeAll()
	}
	if err := h.open(); err != nil {
		fail(err.Error())
		return
	}
	put := func(k string) { h.execBatch(&tbatch{ops: []bop{{'s', []byte(k), []byte("v")}}}); h.quiesce() }
	cycle := func() error {
		for _, g := range []string{"merger:ingest", "merger:swap", "merger:handover"} {
			if err := h.waitPark("merger", g); err != nil {
				return err
			}
			h.releaseActor("merger")
		}
		return h.quiesce()
	}
	notify := func() {
		h.coll.(interface {
			NotifyMerger(string, bool) error
		}).NotifyMerger("poke", false)
	}
	put("a")
	if err := cycle(); err != nil { // base := mid; the persister parks at its begin gate
		fail(err.Error())
		return
	}
	put("b")
	if err := cycle(); err != nil { // base busy: mid stays; the merger goes to sleep
		fail(err.Error())
		return
	}
	notify() // wakes the merger: it collects the ping and parks at the ingest gate
	if err := h.waitPark("merger", "merger:ingest"); err != nil {
		fail(err.Error())
		return
	}
	for j := 0; j < 10; j++ { // fill the ping queue
		notify()
	}
	// let the persister finish its round and loop around to its wake-up test
	h.releaseActor("persister")
	if err := h.waitPark("persister", "persister:publish"); err != nil {
		fail(err.Error())
		return
	}
	h.releaseActor("persister")
	time.Sleep(5 * time.Millisecond)
	done := make(chan bool, 1)
	go func() {
		h.coll.Stats()
		h.coll.Get([]byte("a"), moss.ReadOptions{})
		ss, err := h.coll.Snapshot()
		if err == nil {
			ss.Close()
		}
		done <- true
	}()
	select {
	case <-done:
		emit(L("stall", "ok"))
	case <-time.After(30 * time.Second):
		emit(L("stall", "hung"))
		emit(L("end"))
		return // the collection is wedged; leave it
	}
	cl := make(chan error, 1)
	go func() { cl <- h.closeAll() }()
	select {
	case <-cl:
	case <-time.After(40 * time.Second):
		emit(L("stall", "close-hung"))
	}
	emit(L("end"))
}

// within runs f in a goroutine and tells whether it returned within d.
func within(d time.Duration, f func()) bool {
	done := make(chan struct{})
	go func() { f(); close(done) }()
	select {
	case <-done:
		return true
	case <-time.After(d):
		return false
	}
}

// retryScenario: one failed lower-level update with small dirty limits.  Persistence must resume
// (the failed stack is offered again) and writers held back by the limits must get through.
func retryScenario(emit func(sx), id int, cs uint64) {
	cfg := Config{LL: "map", MMPn: 8, MMPd: 10, MaxPre: 1, MaxDirtyOps: 1, MaxDirtyBytes: 1}
	// every other time with CachePersisted: the persister's publish step then takes its other branch,
	// and the merger that waits on the dirty limits must be woken by it all the same
	cfg.CachePersisted = (cs/1000003)%2 == 1 // the shard's seed: consecutive shards alternate
	h := newH(cfg, "")
	emit(L("case", id, int64(cs), cfg.sx(), L("universe", L())))
	if err := h.open(); err != nil {
		emit(L("error", fmt.Sprintf("%q", err.Error())))
		emit(L("end"))
		return
	}
	atomic.StoreInt32(&h.gating, 0)
	h.releaseAll()
	atomic.StoreInt32(&h.failNext, 1)
	ok := within(40*time.Second, func() {
		for j := 0; j < 6; j++ {
			h.execBatch(&tbatch{ops: []bop{{'s', []byte(fmt.Sprintf("k%d", j)), []byte("v")}}})
		}
		waitPersisted(h.coll)
	})
	if ok {
		emit(L("stall", "ok"))
	} else {
		emit(L("stall", fmt.Sprintf("%q", "after one failed LowerLevelUpdate the writers or the persister never got through")))
		emit(L("end"))
		return
	}
	if !within(40*time.Second, func() { h.closeAll() }) {
		emit(L("stall", "close-hung"))
	}
	emit(L("end"))
}

// mergeErrorScenario: a merger cycle that ends in a merge error (the merge operator refuses) must
// still answer the synchronous notifications it collected, and the collection stays usable.
func mergeErrorScenario(emit func(sx), id int, cs uint64) {
	cfg := Config{LL: "none", MMPn: 8, MMPd: 10, MaxPre: 4}
	h := newH(cfg, "")
	emit(L("case", id, int64(cs), cfg.sx(), L("universe", L())))
	if err := h.open(); err != nil {
		emit(L("error", fmt.Sprintf("%q", err.Error())))
		emit(L("end"))
		return
	}
	atomic.StoreInt32(&h.gating, 0)
	h.releaseAll()
	nm := h.coll.(interface {
		NotifyMerger(string, bool) error
	})
	h.execBatch(&tbatch{ops: []bop{{'s', []byte("a"), []byte("1")}, {'s', []byte("z"), []byte("1")}}})
	h.execBatch(&tbatch{ops: []bop{{'m', []byte("a"), []byte("?")}, {'s', []byte("y"), []byte("1")}}})
	ok := within(20*time.Second, func() {
		for atomic.LoadInt32(&h.onErrors) == 0 {
			time.Sleep(200 * time.Microsecond)
		}
		for j := 0; j < 3; j++ { // each wakes the merger into another failing cycle
			nm.NotifyMerger("after-merge-error", true)
		}
		h.execBatch(&tbatch{ops: []bop{{'s', []byte("x"), []byte("1")}}})
		h.coll.Get([]byte("x"), moss.ReadOptions{})
	})
	if ok {
		emit(L("stall", "ok"))
	} else {
		emit(L("stall", fmt.Sprintf("%q", "a synchronous NotifyMerger (or a writer) never returned after a merger cycle that ended in a merge error")))
	}
	if !within(40*time.Second, func() { h.closeAll() }) {
		emit(L("stall", "close-hung"))
	}
	emit(L("end"))
}

// lostWakeupScenario (C20, second sentence): the persister finishes a round and looks whether the
// merger is asleep with a merged stack waiting (persister.go, top of the loop) exactly between
// the merger's skipped hand-over (the persister was busy) and the merger going to sleep.  Nobody
// may go to sleep for good then: with an idle, healthy lower level the dirty gauges must come
// back to zero without any further batch or notification.
func lostWakeupScenario(emit func(sx), id int, cs uint64) {
	cfg := Config{LL: "map", MMPn: 8, MMPd: 10, MaxPre: 4}
	h := newH(cfg, "")
	emit(L("case", id, int64(cs), cfg.sx(), L("universe", L())))
	fail := func(msg string) {
		emit(L("error", fmt.Sprintf("%q", msg)))
		emit(L("end"))
		atomic.StoreInt32(&h.gateWait, 0)
		go h.closeAll()
	}
	if err := h.open(); err != nil {
		fail(err.Error())
		return
	}
	put := func(k string) { h.execBatch(&tbatch{ops: []bop{{'s', []byte(k), []byte("v")}}}); h.quiesce() }
	cycle := func() error {
		for _, g := range []string{"merger:ingest", "merger:swap", "merger:handover"} {
			if err := h.waitPark("merger", g); err != nil {
				return err
			}
			h.releaseActor("merger")
		}
		return nil
	}
	put("a")
	if err := cycle(); err != nil { // base := mid(a); the persister parks at its begin gate
		fail(err.Error())
		return
	}
	if err := h.waitPark("persister", "persister:begin"); err != nil {
		fail(err.Error())
		return
	}
	h.quiesce()
	atomic.StoreInt32(&h.gateWait, 1)
	put("b")
	if err := cycle(); err != nil { // the persister is busy: mid(b) stays with the merger
		fail(err.Error())
		return
	}
	if err := h.waitPark("merger", "merger:wait"); err != nil { // ... which is about to go to sleep
		fail(err.Error())
		return
	}
	st0, _ := h.collStats()
	h.releaseActor("persister")
	if err := h.waitPark("persister", "persister:publish"); err != nil {
		fail(err.Error())
		return
	}
	h.releaseActor("persister")
	// the persister publishes, loops around, finds no base and goes to wait for one
	deadline := time.Now().Add(20 * time.Second)
	for {
		st, _ := h.collStats()
		if st != nil && st0 != nil && st.TotPersisterWaitBeg > st0.TotPersisterWaitBeg {
			break
		}
		if time.Now().After(deadline) {
			fail("the persister did not come back to wait for the next base")
			return
		}
		time.Sleep(200 * time.Microsecond)
	}
	// everybody runs freely from here
	atomic.StoreInt32(&h.gateWait, 0)
	atomic.StoreInt32(&h.gating, 0)
	h.releaseAll()
	ok := within(5*time.Second, func() { waitPersisted(h.coll) })
	if ok {
		emit(L("stall", "ok"))
	} else {
		st, _ := h.collStats()
		emit(L("stuck", fmt.Sprintf("%q", fmt.Sprintf("5 s after the last persistence round completed, with an idle lower level and no caller active, the "+
			"collection still reports dirty ops=%d segments=%d (mid=%d): the persister waits for a base, the merger sleeps on a merged stack "+
			"it never hands over", st.CurDirtyOps, st.CurDirtySegments, st.CurDirtyMidSegments))))
		// a notification gets things going again: only the wake-up was lost
		h.coll.(interface {
			NotifyMerger(string, bool) error
		}).NotifyMerger("poke", false)
		if within(20*time.Second, func() { waitPersisted(h.coll) }) {
			emit(L("note", "a-notification-unsticks-it"))
		}
	}
	if !within(40*time.Second, func() { h.closeAll() }) {
		emit(L("stall", "close-hung"))
	}
	emit(L("end"))
}

// afterCloseScenario: every call after Close reports ErrClosed - also Snapshot() when a snapshot
// was cached before the Close, on ordinary and on ReadOnly collections.
func afterCloseScenario(emit func(sx), id int, cs uint64) {
	emit(L("case", id, int64(cs), Config{LL: "none", MaxPre: 1}.sx(), L("universe", L())))
	res := []sx{"afterclose"}
	for _, ro := range []bool{false, true} {
		c, err := moss.NewCollection(moss.CollectionOptions{ReadOnly: ro})
		if err != nil {
			continue
		}
		c.Start()
		if !ro {
			b, _ := c.NewBatch(0, 0)
			b.Set([]byte("a"), []byte("1"))
			c.ExecuteBatch(b, moss.WriteOptions{})
			b.Close()
		}
		if ss, err := c.Snapshot(); err == nil && ss != nil { // fills the cache
			ss.Close()
		}
		if ss, err := c.Snapshot(); err == nil && ss != nil { // served from the cache
			ss.Close()
		}
		c.Close()
		ss, err := c.Snapshot()
		if ss != nil {
			ss.Close()
		}
		res = append(res, errSx(err))
		_, err = c.Get([]byte("a"), moss.ReadOptions{})
		res = append(res, errSx(err))
		_, err = c.NewBatch(0, 0)
		res = append(res, errSx(err))
		// merger notifications after Close must return too (nobody receives or answers them any
		// more): one synchronous one, then more asynchronous ones than the ping queue holds
		if nm, ok := c.(interface {
			NotifyMerger(string, bool) error
		}); ok {
			if !within(10*time.Second, func() {
				nm.NotifyMerger("after-close", true)
				for j := 0; j < 24; j++ {
					nm.NotifyMerger("after-close", false)
				}
			}) {
				emit(L("stall", fmt.Sprintf("%q", fmt.Sprintf("NotifyMerger after Close never returned (readonly=%v)", ro))))
			}
		}
	}
	emit(res)
	emit(L("end"))
}

// sortingWriterScenario: with DeferredSort a writer held back by a full top sorts its (large,
// scrambled) batch while it waits; the merger makes room - or Close arrives - in the middle of
// that sort.  The writer must still get through (or get ErrClosed).
func sortingWriterScenario(emit func(sx), id int, cs uint64, r *rng) {
	cfg := Config{LL: "none", MMPn: 8, MMPd: 10, MaxPre: 1, DeferredSort: true}
	h := newH(cfg, "")
	emit(L("case", id, int64(cs), cfg.sx(), L("universe", L())))
	if err := h.open(); err != nil {
		emit(L("error", fmt.Sprintf("%q", err.Error())))
		emit(L("end"))
		return
	}
	h.execBatch(&tbatch{ops: []bop{{'s', []byte("first"), []byte("v")}}})
	if err := h.waitPark("merger", "merger:ingest"); err != nil { // top stays full while the merger is parked
		emit(L("error", fmt.Sprintf("%q", err.Error())))
		emit(L("end"))
		go h.closeAll()
		return
	}
	big, _ := h.coll.NewBatch(0, 0)
	nkeys := 150000 + r.intn(150000)
	for j := 0; j < nkeys; j++ {
		big.Set([]byte(fmt.Sprintf("%08x-%d", r.next()&0xffffffff, j)), []byte("v"))
	}
	closing := r.chance(1, 2)
	returned := make(chan error, 1)
	go func() { returned <- h.coll.ExecuteBatch(big, moss.WriteOptions{}) }()
	time.Sleep(time.Duration(20+r.intn(60)) * time.Millisecond) // the writer is sorting by now
	if closing {
		go h.closeAll()
	} else {
		atomic.StoreInt32(&h.gating, 0)
		h.releaseAll()
	}
	select {
	case <-returned:
		emit(L("stall", "ok"))
	case <-time.After(40 * time.Second):
		emit(L("stall", fmt.Sprintf("%q", fmt.Sprintf("a DeferredSort writer sorting while held back never returned (closing=%v)", closing))))
		emit(L("end"))
		return
	}
	if !closing && !within(40*time.Second, func() { h.closeAll() }) {
		emit(L("stall", "close-hung"))
	}
	emit(L("end"))
}

func famSync(w *bufio.Writer, seed uint64, n int) error {
	emit := func(v sx) { w.WriteString(sxString(v)); w.WriteByte('\n') }
	for i := 0; i < n; i++ {
		cs := seed*1000003 + uint64(i)
		r := newRng(cs ^ 0x8f)
		switch i % 10 {
		case 9:
			stallScenario(emit, i, cs)
			continue
		case 8:
			retryScenario(emit, i, cs)
			continue
		case 7:
			afterCloseScenario(emit, i, cs)
			continue
		case 6:
			sortingWriterScenario(emit, i, cs, r)
			continue
		case 4:
			if seed%2 == 1 {
				lostWakeupScenario(emit, i, cs)
				continue
			}
		case 5:
			if seed%2 == 0 {
				mergeErrorScenario(emit, i, cs)
				continue
			}
		}
		capN := 1 + r.intn(3)
		cfg := Config{LL: "none", MMPn: 8, MMPd: 10, MaxPre: capN}
		h := newH(cfg, "")
		if err := h.open(); err != nil {
			return err
		}
		coll := h.coll
		sr := &syncRun{h: h}
		emit(L("case", i, int64(cs), cfg.sx(), L("universe", L())))
		obs := func(label string) bool {
			b, err := sr.settle(coll)
			top := 0
			asleep := false
			if !sr.closedNow {
				d := moss.VerifDumpCollection(coll)
				if !d.Top.Nil {
					top = len(d.Top.Segs)
				}
				asleep = d.MergerAsleep
			}
			e := "ok"
			if err != nil {
				e = fmt.Sprintf("%q", err.Error())
			}
			emit(L("sync", label, L("top", top), L("blocked", b), L("ok", int(atomic.LoadInt32(&sr.okRet))),
				L("closedret", int(atomic.LoadInt32(&sr.closedRt))), L("othererr", int(atomic.LoadInt32(&sr.otherErr))),
				L("syncret", int(atomic.LoadInt32(&sr.syncRet))), L("asleep", asleep), L("settle", e)))
			return err == nil
		}
		steps := 6 + r.intn(14)
		kctr := 0
		for st := 0; st < steps; st++ {
			mAt := h.parkedAt("merger")
			wArr := 40
			wIng, wEnd := 0, 0
			if mAt == "merger:ingest" {
				wIng = 35
			}
			if mAt == "merger:swap" {
				wEnd = 35
			}
			wSync := 8
			if int(atomic.LoadInt32(&sr.syncIss)-atomic.LoadInt32(&sr.syncRet)) >= 6 {
				wSync = 0
			}
			wClose := 3
			if sr.closedNow {
				wIng, wEnd, wSync, wClose = 0, 0, 0, 0
			}
			ok := true
			switch r.pick([]int{wArr, wIng, wEnd, wSync, wClose}) {
			case 0:
				kctr++
				atomic.AddInt32(&sr.arrived, 1)
				key := []byte(fmt.Sprintf("w%d", kctr))
				go func() {
					b, err := coll.NewBatch(0, 0)
					if err == nil {
						b.Set(key, []byte("v"))
						err = coll.ExecuteBatch(b, moss.WriteOptions{})
					}
					switch err {
					case nil:
						atomic.AddInt32(&sr.okRet, 1)
					case moss.ErrClosed:
						atomic.AddInt32(&sr.closedRt, 1)
					default:
						atomic.AddInt32(&sr.otherErr, 1)
					}
				}()
				if _, err := sr.settle(coll); err == nil && !sr.closedNow {
					h.quiesce()
				}
				ok = obs("arrive")
			case 1:
				h.releaseActor("merger")
				if err := h.waitPark("merger", "merger:swap"); err != nil {
					emit(L("error", fmt.Sprintf("%q", err.Error())))
					ok = false
					break
				}
				ok = obs("ingest")
			case 2:
				h.releaseActor("merger")
				if err := h.waitPark("merger", "merger:handover"); err != nil {
					emit(L("error", fmt.Sprintf("%q", err.Error())))
					ok = false
					break
				}
				h.releaseActor("merger")
				if err := h.quiesce(); err != nil {
					emit(L("error", fmt.Sprintf("%q", err.Error())))
					ok = false
					break
				}
				time.Sleep(300 * time.Microsecond)
				ok = obs("cycleend")
			case 3:
				atomic.AddInt32(&sr.syncIss, 1)
				go func() {
					coll.(interface {
						NotifyMerger(string, bool) error
					}).NotifyMerger("sync", true)
					atomic.AddInt32(&sr.syncRet, 1)
				}()
				time.Sleep(300 * time.Microsecond)
				h.quiesce()
				ok = obs("notifysync")
			case 4:
				done := make(chan error, 1)
				go func() { done <- h.closeAll() }()
				select {
				case <-done:
				case <-time.After(40 * time.Second):
					emit(L("error", "\"Close did not return\""))
					ok = false
				}
				sr.closedNow = true
				time.Sleep(500 * time.Microsecond)
				// Close releases every pending synchronous notification: give their goroutines time to
				// get scheduled and return (a loaded machine needs more than the usual pause)
				for dl := time.Now().Add(5 * time.Second); time.Now().Before(dl) &&
					atomic.LoadInt32(&sr.syncRet) < atomic.LoadInt32(&sr.syncIss); {
					time.Sleep(200 * time.Microsecond)
				}
				ok = obs("close") && ok
				// after Close: NewBatch, Snapshot, Get fail with ErrClosed
				_, e1 := coll.NewBatch(0, 0)
				_, e2 := coll.Snapshot()
				_, e3 := coll.Get([]byte("x"), moss.ReadOptions{})
				emit(L("afterclose", errSx(e1), errSx(e2), errSx(e3)))
			}
			if !ok {
				break
			}
		}
		if !sr.closedNow {
			done := make(chan error, 1)
			go func() { done <- h.closeAll() }()
			select {
			case <-done:
			case <-time.After(40 * time.Second):
				emit(L("error", "\"final Close did not return\""))
			}
			sr.closedNow = true
			time.Sleep(500 * time.Microsecond)
			obs("close")
		}
		emit(L("end"))
	}
	return nil
}
