package main

import (
	"fmt"
	"os"
	"sync"
	"sync/atomic"
	"time"

	"github.com/couchbase/moss"
)

// Config is one configuration of collection + lower level.
type Config struct {
	LL             string // none | store | map
	CachePersisted bool
	DeferredSort   bool
	MMPn, MMPd     int // MinMergePercentage = MMPn/MMPd
	MaxPre         int
	NilInit        bool // map lower level: LowerLevelInit == nil
	Concern        int  // 0 disable, 1 allow, 2 force
	LevelMaxSegs   int
	LevelMult      int
	PctN, PctD     int // CompactionPercentage
	BufPages       int
	NoSync         bool
	CompactionSync bool
	SyncAfterBytes int // CompactionSyncAfterBytes: 0 = default, < 0 = no periodic syncs, > 0 = every so many bytes
	IndexMax       int
	IndexMin       int
	MaxDirtyOps    uint64
	MaxDirtyBytes  uint64
	ReadOnly       bool
	KeepFiles      bool
}

func (c Config) sx() sx {
	return L("cfg", L("ll", c.LL), L("cache", c.CachePersisted), L("defer", c.DeferredSort),
		L("mmp", c.MMPn, c.MMPd), L("maxpre", c.MaxPre), L("concern", c.Concern),
		L("lvlmax", c.LevelMaxSegs), L("lvlmult", c.LevelMult), L("pct", c.PctN, c.PctD),
		L("bufpages", c.BufPages), L("nosync", c.NoSync), L("csync", c.CompactionSync),
		L("idxmax", c.IndexMax), L("idxmin", c.IndexMin),
		L("maxdirtyops", c.MaxDirtyOps), L("maxdirtybytes", c.MaxDirtyBytes),
		L("readonly", c.ReadOnly), L("keepfiles", c.KeepFiles))
}

// H drives one real moss collection deterministically.
type H struct {
	cfg   Config
	dir   string
	store *moss.Store
	coll  moss.Collection
	mapLL *mapLower

	gating   int32
	gateWait int32 // park the merger at "merger:wait" too (before it decides to sleep); off by default
	arrive   chan string
	mu       sync.Mutex
	parked   map[string]string // actor -> gate name
	release  map[string]chan struct{}

	onErrors   int32
	injected   int32 // number of failures the harness injected on purpose
	failNext   int32 // fail the next n LowerLevelUpdate calls (map / store wrapper)
	files      *fileRecorder
	removed    []string
	timeoutErr error
}

var currentH *H

func init() {
	moss.VerifGate = func(name string, c moss.Collection) {
		h := currentH
		if h == nil || atomic.LoadInt32(&h.gating) == 0 || c != h.coll {
			return
		}
		if name == "merger:wait" && atomic.LoadInt32(&h.gateWait) == 0 {
			return // only the scenarios that ask for it see this gate
		}
		h.gateArrive(name)
	}
	moss.VerifOnRemove = func(path string) {
		h := currentH
		if h != nil {
			h.mu.Lock()
			h.removed = append(h.removed, path)
			h.mu.Unlock()
			if h.files != nil {
				h.files.remove(path)
			}
		}
	}
}

func actorOf(gate string) string {
	if len(gate) >= 6 && gate[:6] == "merger" {
		return "merger"
	}
	return "persister"
}

func (h *H) gateArrive(name string) {
	ch := make(chan struct{})
	h.mu.Lock()
	h.parked[actorOf(name)] = name
	h.release[actorOf(name)] = ch
	h.mu.Unlock()
	h.arrive <- name
	<-ch
}

func (h *H) parkedAt(actor string) string {
	h.mu.Lock()
	defer h.mu.Unlock()
	return h.parked[actor]
}

// releaseActor lets a parked actor run on.
func (h *H) releaseActor(actor string) {
	h.mu.Lock()
	ch := h.release[actor]
	delete(h.parked, actor)
	delete(h.release, actor)
	h.mu.Unlock()
	if ch != nil {
		close(ch)
	}
}

// releaseAll switches the gates off and keeps releasing whatever still arrives at one (an actor
// may have passed the gating test just before): the background actors run freely from now on.
func (h *H) releaseAll() {
	atomic.StoreInt32(&h.gating, 0)
	go func() {
		for i := 0; i < 200000; i++ {
			h.drainArrivals()
			h.releaseActor("merger")
			h.releaseActor("persister")
			time.Sleep(200 * time.Microsecond)
			if d := moss.VerifDumpCollection(h.coll); d == nil || d.Closed {
				return
			}
		}
	}()
}

func (h *H) drainArrivals() {
	for {
		select {
		case <-h.arrive:
		default:
			return
		}
	}
}

// quiesce waits until both background actors are parked at a gate, asleep
// in a known wait, or gone.
func (h *H) quiesce() error {
	deadline := time.Now().Add(45 * time.Second)
	stable := 0
	for {
		h.drainArrivals()
		d := moss.VerifDumpCollection(h.coll)
		st, _ := h.coll.Stats()
		mOK := h.parkedAt("merger") != "" || d.MergerAsleep || d.MergerWaitOut ||
			st.TotMergerEnd > 0 || h.cfg.ReadOnly
		pOK := h.parkedAt("persister") != "" || d.PersisterAsleep ||
			st.TotPersisterEnd > 0 || h.cfg.ReadOnly
		if mOK && pOK {
			stable++
			if stable >= 2 {
				return nil
			}
		} else {
			stable = 0
		}
		if time.Now().After(deadline) {
			return fmt.Errorf("quiesce timeout: merger parked=%q asleep=%v waitout=%v; persister parked=%q asleep=%v",
				h.parkedAt("merger"), d.MergerAsleep, d.MergerWaitOut, h.parkedAt("persister"), d.PersisterAsleep)
		}
		time.Sleep(30 * time.Microsecond)
	}
}

// waitPark waits for actor to arrive at the given gate.
func (h *H) waitPark(actor, gate string) error {
	deadline := time.Now().Add(45 * time.Second)
	for {
		h.drainArrivals()
		if h.parkedAt(actor) == gate {
			return nil
		}
		if time.Now().After(deadline) {
			return fmt.Errorf("waitPark timeout: %s at %q, wanted %q", actor, h.parkedAt(actor), gate)
		}
		time.Sleep(20 * time.Microsecond)
	}
}

type mergeOp struct{ moss.MergeOperatorStringAppend }

// FullMerge: existing ++ ":" ++ operand, except that operand "!" gives nil
// and operand "=" keeps a non-nil existing value unchanged and uncopied (the
// model's fm_append).
func (mo *mergeOp) FullMerge(key, existing []byte, operands [][]byte) ([]byte, bool) {
	cur := existing
	isNil := existing == nil
	for _, o := range operands {
		if len(o) == 1 && o[0] == '?' {
			return nil, false // a merge that fails (only the sync family's merge-error scenario writes it)
		}
		if len(o) == 1 && o[0] == '!' {
			cur = nil
			isNil = true
			continue
		}
		if len(o) == 1 && o[0] == '=' && !isNil {
			continue // keep the existing value: the very slice we were given is returned
		}
		n := make([]byte, 0, len(cur)+1+len(o))
		n = append(n, cur...)
		n = append(n, ':')
		n = append(n, o...)
		cur = n
		isNil = false
	}
	if isNil {
		return nil, true
	}
	return cur, true
}

func (h *H) collOptions() moss.CollectionOptions {
	co := moss.CollectionOptions{
		MergeOperator:          &mergeOp{},
		DeferredSort:           h.cfg.DeferredSort,
		MaxPreMergerBatches:    h.cfg.MaxPre,
		MergerIdleRunTimeoutMS: -1,
		MaxDirtyOps:            h.cfg.MaxDirtyOps,
		MaxDirtyKeyValBytes:    h.cfg.MaxDirtyBytes,
		CachePersisted:         h.cfg.CachePersisted,
		ReadOnly:               h.cfg.ReadOnly,
		OnError: func(err error) {
			atomic.AddInt32(&h.onErrors, 1)
		},
	}
	if h.cfg.MMPd > 0 {
		co.MinMergePercentage = float64(h.cfg.MMPn) / float64(h.cfg.MMPd)
	}
	return co
}

func (h *H) storeOptions() (moss.StoreOptions, moss.StorePersistOptions) {
	so := moss.StoreOptions{
		CollectionOptions:           h.collOptions(),
		CompactionLevelMaxSegments:  h.cfg.LevelMaxSegs,
		CompactionLevelMultiplier:   h.cfg.LevelMult,
		CompactionBufferPages:       h.cfg.BufPages,
		CompactionSync:              h.cfg.CompactionSync,
		CompactionSyncAfterBytes:    h.cfg.SyncAfterBytes,
		SegmentKeysIndexMaxBytes:    h.cfg.IndexMax,
		SegmentKeysIndexMinKeyBytes: h.cfg.IndexMin,
		KeepFiles:                   h.cfg.KeepFiles,
	}
	if h.cfg.PctD > 0 {
		so.CompactionPercentage = float64(h.cfg.PctN) / float64(h.cfg.PctD)
	}
	if h.files != nil {
		so.OpenFile = h.files.openFile
	}
	po := moss.StorePersistOptions{NoSync: h.cfg.NoSync, CompactionConcern: moss.CompactionConcern(h.cfg.Concern)}
	return so, po
}

func newH(cfg Config, dir string) *H {
	h := &H{cfg: cfg, dir: dir, arrive: make(chan string, 64),
		parked: map[string]string{}, release: map[string]chan struct{}{}}
	currentH = h
	return h
}

// open opens (or reopens) the collection with gating on.
func (h *H) open() error {
	atomic.StoreInt32(&h.gating, 1)
	switch h.cfg.LL {
	case "none":
		c, err := moss.NewCollection(h.collOptions())
		if err != nil {
			return err
		}
		h.coll = c
		if err := c.Start(); err != nil {
			return err
		}
	case "map":
		if h.mapLL == nil {
			h.mapLL = newMapLower(h)
		}
		co := h.collOptions()
		co.LowerLevelInit = h.mapLL.snapshot()
		if h.cfg.NilInit && len(h.mapLL.cur.kvs) == 0 {
			// an application lower level that starts empty may pass no initial snapshot at all:
			// the collection's lower-level snapshot is then nil until the first update is published
			co.LowerLevelInit = nil
		}
		co.LowerLevelUpdate = h.mapLL.update
		c, err := moss.NewCollection(co)
		if err != nil {
			return err
		}
		h.coll = c
		if err := c.Start(); err != nil {
			return err
		}
	case "store":
		so, po := h.storeOptions()
		// The store is opened with options of its own (OpenStore + Store.OpenCollection is what
		// OpenStoreCollection does): DeferredSort is a matter of the collection, so the store's copy
		// does not carry it - whatever the store does with a segment stack handed to it must not
		// depend on the store having been told how the collection builds its batches.
		soStore := so
		soStore.CollectionOptions.DeferredSort = false
		s, err := moss.OpenStore(h.dir, soStore)
		if err != nil {
			return err
		}
		c, err := s.OpenCollection(so, po)
		if err != nil {
			s.Close()
			return err
		}
		h.store, h.coll = s, c
	default:
		return fmt.Errorf("bad ll kind %q", h.cfg.LL)
	}
	return h.quiesce()
}

// closeAll closes collection and store.  Close is started first; the
// parked background actors are released only once the collection is marked
// closed, so that what they still do is what Close allows them to do (an
// in-flight LowerLevelUpdate completes; nothing new is started).
func (h *H) closeAll() error {
	done := make(chan error, 1)
	coll, store := h.coll, h.store
	go func() {
		var err error
		if coll != nil {
			err = coll.Close()
		}
		if store != nil {
			if e := store.Close(); err == nil {
				err = e
			}
		}
		done <- err
	}()
	if coll != nil {
		deadline := time.Now().Add(45 * time.Second)
		for {
			if d := moss.VerifDumpCollection(coll); d == nil || d.Closed {
				break
			}
			if time.Now().After(deadline) {
				return fmt.Errorf("close: collection never became closed")
			}
			time.Sleep(20 * time.Microsecond)
		}
	}
	atomic.StoreInt32(&h.gating, 0)
	h.releaseActor("merger")
	h.releaseActor("persister")
	tick := time.NewTicker(time.Millisecond)
	defer tick.Stop()
	timeout := time.After(60 * time.Second)
	for {
		select {
		case err := <-done:
			h.coll, h.store = nil, nil
			h.drainArrivals()
			h.mu.Lock()
			h.parked = map[string]string{}
			h.release = map[string]chan struct{}{}
			h.mu.Unlock()
			return err
		case <-h.arrive:
		case <-tick.C:
			// an actor that reached a gate just before gating went off
			h.releaseActor("merger")
			h.releaseActor("persister")
		case <-timeout:
			return fmt.Errorf("close timeout")
		}
	}
}

func mustMkdirTemp(base, pat string) string {
	os.MkdirAll(base, 0o755)
	d, err := os.MkdirTemp(base, pat)
	if err != nil {
		panic(err)
	}
	return d
}

type storeCounters struct {
	persists, full, partial, segs uint64
	ok                            bool
}

func (h *H) storeCounters() storeCounters {
	if h.store == nil {
		return storeCounters{}
	}
	st, err := h.store.Stats()
	if err != nil {
		return storeCounters{}
	}
	u := func(k string) uint64 { v, _ := st[k].(uint64); return v }
	return storeCounters{u("total_persists"), u("total_compactions"), u("total_compactions_partial"),
		u("num_segments"), true}
}

// persistChoice tells what Store.Persist did since `before`.
func (h *H) persistChoice(before storeCounters) sx {
	if h.store == nil {
		return L("append")
	}
	after := h.storeCounters()
	switch {
	case after.full > before.full:
		return L("compact", 0)
	case after.partial > before.partial:
		return L("compact", int(after.segs)-1)
	case after.persists > before.persists:
		return L("append")
	}
	return L("noop")
}

// closeAllObserved closes everything; when a persistence round was parked at
// its start it runs to completion during Close, and what it did to the store
// is reported.
func (h *H) closeAllObserved(inflight bool) (sx, error) {
	if !inflight || h.store == nil {
		return "none", h.closeAll()
	}
	// keep the store open across the collection close to read its counters
	before := h.storeCounters()
	h.store.AddRef()
	st := h.store
	err := h.closeAll()
	h.store = st
	choice := h.persistChoice(before)
	h.store = nil
	st.Close()
	return choice, err
}

func sleepMicros(n int) { time.Sleep(time.Duration(n) * time.Microsecond) }
