package main

import (
	"bufio"
	"bytes"
	"errors"
	"fmt"
	"os"
	"sort"
	"strings"
	"sync/atomic"
	"time"

	"github.com/couchbase/moss"
)

// Family "ops" (C06): the live tie of coq/StoreOps.v.  One store and one
// collection stay open for a whole case; every call of LowerLevelUpdate is one
// ATTEMPT n = 0, 1, ... of the model (persister_round).  The KIND of an attempt is
// forced through the CompactionConcern the attempt's Store.Persist is called with:
//
//	noop    : Store.Persist(nil, CompactionDisable) called by the director while the persister is parked
//	append  : CompactionDisable
//	full    : CompactionForce
//	partial : CompactionAllow on a level setup that really splices: the first batch carries one
//	          large value (segment 0 stays on a higher level than everything after it), batch n carries
//	          512*2^n value bytes (every younger segment is on the level of the incoming data),
//	          CompactionPercentage 1.0 (never "too fragmented"); calcPartialCompactionStart then
//	          answers > 0 exactly when the footer has more than CompactionLevelMaxSegments segments.
//	          A wish "partial" on fewer segments is run as "append" (and reported so); on an
//	          empty store it is run under CompactionAllow (the model's RPartial without a file).
//
// A case is first run clean while every file operation of every attempt is recorded; a chosen
// model step of a chosen attempt is then mapped to "the k-th operation of this kind on this file
// within the attempt" and the case is re-run with that operation failing (a second failure is
// mapped on the recording of the run with the first failure).
//
// Model step -> real file operation (N = the data file the attempt creates, F = the file served
// when the attempt starts; occurrences count from 0 within the attempt):
//
//	append   SOpen      open  N #0                 (only when nothing is served yet)
//	         SHeader    write N #0                 (ditto; error or short write)
//	         SSegStat   stat  T #0                 (T = N or F; segment.Persist)
//	         SSegWrite  write T #h..#W-2           (h = 1 after a header, W = writes of the attempt; kvs/buf)
//	         SSync1     sync  T #0                 (unless NoSync)
//	         SFootStat  stat  T #last
//	         SFootWrite write T #W-1
//	         SSync2     sync  T #1                 (unless NoSync)
//	partial  SFragStat  stat  F #0                 (calcPartialCompactionStart)
//	         SWStat     stat  F #1                 (writeSegments)
//	         SWSync     sync  F #0..#m-1           (m = syncs of the attempt minus the two around the footer)
//	         SWData     write F #0..#W-2
//	         SSync1     sync  F #m                 (unless NoSync and neither CompactionSync nor SyncAfterBytes > 0)
//	         SFootStat  stat  F #2
//	         SFootWrite write F #W-1
//	         SSync2     sync  F #m+1
//	         SSizeStat  stat  F #3 or #4           (both size Stats of compactMaybe)
//	full     SOpen      open  N #0
//	         SHeader    write N #0
//	         SWStat     stat  N #0
//	         SWSync     sync  N #0..#m-1
//	         SWData     write N #1..#W-2
//	         SSync1     sync  N #m
//	         SFootStat  stat  N #1
//	         SFootWrite write N #W-1
//	         SSync2     sync  N #m+1
//	         SRmOldStat stat  F #0                 (removeFileOnClose(old file) after the commit)
//	         SSizeStat  stat  F #1                 (the "size after" Stat goes to the OLD footer's file: compactMaybe
//	                                           re-reads footer.segmentLocs() of the snapshot it took before compacting)
//	         SRmStat    stat  N #1 (after a failure of SWStat SWSync SWData SSync1) or #2 (after SFootStat
//	                    SFootWrite SSync2): only exists after another failure of the same attempt
//	after SFragStat failed (the attempt continues as a full compaction into N, which the recording
//	of the partial attempt does not show) only SOpen / SHeader / SWStat are chosen, at N #0.
//	SLoadStat: the Stat and mmap of doLoadSegments go through *os.File, not through the File interface; the
//	recorder fails the load at its door instead (OsFile() #0 of the attempt's target file answers nil).  SMmap
//	has the same effect in the model and is never chosen.

var opsStepIx = map[string]int{"SFragStat": 0, "SOpen": 1, "SHeader": 2, "SSegStat": 3, "SSegWrite": 4,
	"SWStat": 5, "SWSync": 6, "SWData": 7, "SSync1": 8, "SFootStat": 9, "SFootWrite": 10, "SSync2": 11,
	"SLoadStat": 12, "SMmap": 13, "SRmStat": 14, "SRmOldStat": 15, "SSizeStat": 16}

// opsCoord is a file operation of an attempt: kind (open write shortwrite sync stat), file role and occurrence.
type opsCoord struct {
	kind string
	role byte // 'N' or 'F'
	occ  int
}

type opsInj struct {
	round int
	step  string
	co    opsCoord
}

type opsAttempt struct {
	wish, forced, observed string
	perr                   bool
	onerr                  int
	committed              bool
	content                []int
	valok                  bool
	files                  []int
	trig, armed            int
	ops                    []fileOp
	servedName, newName    string
	nsegs                  int
}

type opsRun struct {
	attempts   []*opsAttempt
	dir        []int
	reopen     string
	reopenFile int
	reopenIDs  []int
	reopenOK   bool
	dirAfter   []int
	problem    string
}

type opsCmd struct {
	abort   bool
	concern int
	faults  []*faultSpec
}

var errOpsAbort = errors.New("ops: closing")

const opsBigLen = 420000

func opsValue(id int) []byte { return bytes.Repeat([]byte{byte('a' + id%26)}, 512<<uint(id)) }

func opsSeqOf(name string) int {
	n, err := moss.ParseFNameSeq(name)
	if err != nil {
		return -1
	}
	return int(n) - 1
}

func opsListDir(dir string) []int {
	var out []int
	es, _ := os.ReadDir(dir)
	for _, e := range es {
		if strings.HasPrefix(e.Name(), "data-") && strings.HasSuffix(e.Name(), ".moss") {
			out = append(out, opsSeqOf(e.Name()))
		}
	}
	sort.Ints(out)
	return out
}

// opsSettledDir lists the directory once it has stopped changing (the unlink of
// removeFileOnClose runs in a goroutine of its own).
func opsSettledDir(dir string, rec *fileRecorder, closesBefore int, failed bool) []int {
	wait := 300
	need := 3
	if rec != nil && rec.countKind("close") > closesBefore {
		wait = 3000 // a file was closed: an unlink may be on its way
	}
	if failed {
		// after a failed attempt the clean-up (last DecRef of the abandoned file, its unlink) may
		// come from another goroutine; on a loaded machine that takes milliseconds: the
		// directory has to stay the same for 40 ms
		need = 100
	}
	sleepMicros(wait)
	last := opsListDir(dir)
	stable := 0
	for i := 0; i < 5000 && stable < need; i++ {
		sleepMicros(400)
		cur := opsListDir(dir)
		if fmt.Sprint(cur) == fmt.Sprint(last) {
			stable++
		} else {
			stable = 0
			last = cur
		}
	}
	return last
}

func (r *fileRecorder) countKind(kind string) int {
	r.mu.Lock()
	defer r.mu.Unlock()
	n := 0
	for _, o := range r.ops {
		if o.Kind == kind {
			n++
		}
	}
	return n
}

func (r *fileRecorder) opsFrom(i int) []fileOp {
	r.mu.Lock()
	defer r.mu.Unlock()
	out := make([]fileOp, 0, len(r.ops)-i)
	for _, o := range r.ops[i:] {
		o.Data = nil
		out = append(out, o)
	}
	return out
}

func (r *fileRecorder) numOps() int {
	r.mu.Lock()
	defer r.mu.Unlock()
	return len(r.ops)
}

// opsContent reads the round ids a store snapshot contains and checks every value.
func opsContent(ss moss.Snapshot) (ids []int, ok bool) {
	ok = true
	m, err := snapContent(ss)
	if err != nil {
		return nil, false
	}
	first := -1
	for k, v := range m {
		if k == "big" {
			continue
		}
		var id int
		if _, e := fmt.Sscanf(k, "r%02d", &id); e != nil {
			ok = false
			continue
		}
		ids = append(ids, id)
		if !bytes.Equal(v, opsValue(id)) {
			ok = false
		}
	}
	sort.Ints(ids)
	if len(ids) > 0 {
		first = ids[0]
	}
	big, has := m["big"]
	if has != (first >= 0) || (has && (len(big) != opsBigLen || big[0] != 'B' || big[len(big)-1] != 'B')) {
		ok = false
	}
	return ids, ok
}

// opsSpecs turns the coordinates to fail within one attempt into fault predicates.  A predicate
// that fires hides the operation from the predicates after it in the list, so a later
// occurrence of the same kind on the same file skips one operation less.
func opsSpecs(cs []opsCoord, newName, servedName string) []*faultSpec {
	sort.SliceStable(cs, func(i, j int) bool { return cs[i].occ < cs[j].occ })
	var out []*faultSpec
	for j, c := range cs {
		file := servedName
		if c.role == 'N' {
			file = newName
		}
		skip := c.occ
		for i := 0; i < j; i++ {
			if cs[i].kind == c.kind && cs[i].role == c.role && cs[i].occ < c.occ {
				skip--
			}
		}
		out = append(out, &faultSpec{Kind: c.kind, File: file, Skip: skip, Count: 1})
	}
	return out
}

// runOps executes one case: wishes[n] is the kind wanted for attempt n; inj are the operations to fail.
func runOps(cfg Config, wishes []string, inj []opsInj, dir string) *opsRun {
	run := &opsRun{reopenFile: -1}
	rec := &fileRecorder{record: true}
	h := newH(cfg, dir)
	h.gating = 0
	h.files = rec
	so, _ := h.storeOptions()
	s, err := moss.OpenStore(dir, so)
	if err != nil {
		run.problem = "open: " + err.Error()
		return run
	}
	h.store = s
	arrive := make(chan struct{}, 4)
	goCh := make(chan opsCmd)
	doneCh := make(chan error, 1)
	co := so.CollectionOptions
	ssInit, _ := s.Snapshot()
	co.LowerLevelInit = ssInit
	co.LowerLevelUpdate = func(higher moss.Snapshot) (moss.Snapshot, error) {
		arrive <- struct{}{}
		cmd := <-goCh
		if cmd.abort {
			return nil, errOpsAbort
		}
		rec.setFaults(cmd.faults)
		ss, err := s.Persist(higher, moss.StorePersistOptions{NoSync: cfg.NoSync,
			CompactionConcern: moss.CompactionConcern(cmd.concern)})
		rec.setFaults(nil)
		doneCh <- err
		return ss, err
	}
	c, err := moss.NewCollection(co)
	if err != nil {
		run.problem = "collection: " + err.Error()
		return run
	}
	c.Start()
	waitArrive := func() bool {
		select {
		case <-arrive:
			return true
		case <-time.After(120 * time.Second):
			return false
		}
	}
	footerID := func() (string, int64, []int, bool, int) {
		ss, _ := s.Snapshot()
		if ss == nil {
			return "", 0, nil, false, 0
		}
		d := moss.VerifDumpFooter(ss)
		ids, ok := opsContent(ss)
		ss.Close()
		return d.FileName, d.FilePos, ids, ok, len(d.Locs)
	}
	pending, atGate := false, false
	creates := 0
	for n, wish := range wishes {
		at := &opsAttempt{wish: wish}
		run.attempts = append(run.attempts, at)
		if wish != "noop" && !pending {
			b, _ := c.NewBatch(0, 0)
			if !opsAnyBatch(run.attempts[:n]) {
				big := bytes.Repeat([]byte{'B'}, opsBigLen)
				b.Set([]byte("big"), big)
			}
			b.Set([]byte(fmt.Sprintf("r%02d", n)), opsValue(n))
			if err := c.ExecuteBatch(b, moss.WriteOptions{}); err != nil {
				run.problem = fmt.Sprintf("attempt %d: ExecuteBatch: %v", n, err)
			}
			b.Close()
			pending = true
		}
		if wish != "noop" && !atGate {
			if !waitArrive() {
				run.problem = fmt.Sprintf("attempt %d: the persister never called LowerLevelUpdate", n)
				break
			}
			atGate = true
		}
		fname, fpos, _, _, nsegs := footerID()
		at.servedName, at.nsegs = fname, nsegs
		at.newName = moss.FormatFName(int64(creates + 1))
		// resolve the wish
		concern := 0
		at.forced = wish
		switch wish {
		case "full":
			concern = 2
		case "partial":
			maxSegs := cfg.LevelMaxSegs
			switch {
			case nsegs == 0:
				concern = 1 // nothing served: CompactionAllow appends (RPartial without a file)
			case nsegs >= maxSegs+1:
				concern = 1
			default:
				at.forced = "append"
			}
		}
		var cs []opsCoord
		for _, in := range inj {
			if in.round == n {
				cs = append(cs, in.co)
			}
		}
		faults := opsSpecs(cs, at.newName, at.servedName)
		at.armed = len(faults)
		h.store = s
		ctrBefore := h.storeCounters()
		errsBefore := atomic.LoadInt32(&h.onErrors)
		st0, _ := c.Stats()
		opsBefore := rec.numOps()
		closesBefore := rec.countKind("close")
		var perr error
		if wish == "noop" {
			rec.setFaults(faults)
			ss, e := s.Persist(nil, moss.StorePersistOptions{NoSync: cfg.NoSync})
			rec.setFaults(nil)
			perr = e
			if ss != nil {
				ss.Close()
			}
		} else {
			goCh <- opsCmd{concern: concern, faults: faults}
			perr = <-doneCh
			atGate = false
			if perr == nil {
				// the persister's reaction (publish, close the previous lower-level snapshot) is over
				// once TotPersisterLoopRepeat has moved
				deadline := time.Now().Add(120 * time.Second)
				for {
					st, _ := c.Stats()
					if st.TotPersisterLoopRepeat > st0.TotPersisterLoopRepeat {
						break
					}
					if time.Now().After(deadline) {
						run.problem = fmt.Sprintf("attempt %d: the persister never finished its reaction", n)
						break
					}
					sleepMicros(50)
				}
				pending = false
			} else {
				// OnError, then the same stack again: the persister is back at the gate
				if !waitArrive() {
					run.problem = fmt.Sprintf("attempt %d: no retry after the error", n)
					break
				}
				atGate = true
			}
		}
		at.ops = rec.opsFrom(opsBefore)
		for _, o := range at.ops {
			if o.Kind == "create" {
				creates++
			}
		}
		for _, f := range faults {
			at.trig += f.triggered
		}
		at.perr = perr != nil
		at.onerr = int(atomic.LoadInt32(&h.onErrors) - errsBefore)
		ctrAfter := h.storeCounters()
		switch {
		case ctrAfter.partial > ctrBefore.partial:
			at.observed = "partial"
		case ctrAfter.full > ctrBefore.full:
			at.observed = "full"
		case ctrAfter.persists > ctrBefore.persists:
			at.observed = "append"
		case perr != nil:
			at.observed = "unknown"
		default:
			at.observed = "noop"
		}
		fname2, fpos2, ids, ok, _ := footerID()
		at.committed = fname2 != fname || fpos2 != fpos
		at.content, at.valok = ids, ok
		at.files = opsSettledDir(dir, rec, closesBefore, perr != nil)
		if run.problem != "" {
			break
		}
	}
	// close everything: a persister parked at the gate (its stack is still dirty) is sent away
	// once the collection is marked closed
	closesBefore := rec.countKind("close")
	closed := make(chan struct{})
	go func() { c.Close(); s.Close(); close(closed) }()
	deadline := time.Now().Add(120 * time.Second)
	for {
		if d := moss.VerifDumpCollection(c); d == nil || d.Closed {
			break
		}
		if time.Now().After(deadline) {
			break
		}
		sleepMicros(50)
	}
	gone := false
	if atGate {
		select {
		case goCh <- opsCmd{abort: true}:
		case <-closed:
			gone = true
		}
	}
	for !gone {
		select {
		case <-arrive:
			select {
			case goCh <- opsCmd{abort: true}:
			case <-closed:
				gone = true
			}
		case <-closed:
			gone = true
		case <-time.After(120 * time.Second):
			run.problem = "close timeout"
			gone = true
		}
	}
	h.store = nil
	run.dir = opsSettledDir(dir, rec, closesBefore-1, true)
	// reopen with the same KeepFiles, no recorder, no failures
	h2 := newH(cfg, dir)
	h2.gating = 0
	so2, _ := h2.storeOptions()
	s2, err := moss.OpenStore(dir, so2)
	if err != nil {
		run.reopen = "error"
	} else {
		ss, _ := s2.Snapshot()
		d := moss.VerifDumpFooter(ss)
		run.reopenIDs, run.reopenOK = opsContent(ss)
		ss.Close()
		if d.FileName == "" {
			run.reopen = "empty"
		} else {
			run.reopen = "serves"
			run.reopenFile = opsSeqOf(d.FileName)
		}
		s2.Close()
	}
	run.dirAfter = opsSettledDir(dir, nil, 0, false)
	return run
}

func opsAnyBatch(as []*opsAttempt) bool {
	for _, a := range as {
		if a.wish != "noop" {
			return true
		}
	}
	return false
}

// opsMap maps the model steps of one recorded attempt to file operations.  Returns the
// injectable steps and "" or a description of how the recording deviates from the step list.
func opsMap(cfg Config, at *opsAttempt, r *rng) (map[string]opsCoord, string) {
	m := map[string]opsCoord{}
	count := func(file, kind string) int {
		n := 0
		for _, o := range at.ops {
			if o.File == file && o.Kind == kind {
				n++
			}
		}
		return n
	}
	created := ""
	for _, o := range at.ops {
		if o.Kind == "create" {
			created = o.File
		}
	}
	syncOn := !cfg.NoSync
	compSyncOn := !(cfg.NoSync && !(cfg.CompactionSync || cfg.SyncAfterBytes > 0))
	var shape []string
	expect := func(what string, got, want int) {
		if got != want {
			shape = append(shape, fmt.Sprintf("%s: %d, expected %d", what, got, want))
		}
	}
	kind := at.observed // the attempt was clean: the observed kind is what ran
	if kind != at.forced && !(at.forced == "partial" && at.servedName == "" && kind == "append") {
		shape = append(shape, fmt.Sprintf("forced %s but the store did %s", at.forced, kind))
	}
	switch kind {
	case "noop":
		expect("operations of a no-op", len(at.ops), 0)
	case "append":
		t, role, hdr := at.servedName, byte('F'), 0
		if at.servedName == "" {
			t, role, hdr = at.newName, 'N', 1
			expect("create", btoi(created == at.newName), 1)
			m["SOpen"] = opsCoord{"open", 'N', 0}
			m["SHeader"] = opsCoord{"write", 'N', 0}
		} else {
			expect("create", btoi(created != ""), 0)
		}
		W, S, Y := count(t, "write"), count(t, "stat"), count(t, "sync")
		if W < hdr+3 || S < 2 {
			shape = append(shape, fmt.Sprintf("append: %d writes, %d stats", W, S))
			break
		}
		m["SSegStat"] = opsCoord{"stat", role, 0}
		m["SSegWrite"] = opsCoord{"write", role, hdr + r.intn(W-1-hdr)}
		m["SFootStat"] = opsCoord{"stat", role, S - 1}
		m["SFootWrite"] = opsCoord{"write", role, W - 1}
		m["SLoadStat"] = opsCoord{"osfile", role, 0}
		expect("stats of an append with one segment", S, 2)
		if syncOn {
			expect("syncs", Y, 2)
			m["SSync1"] = opsCoord{"sync", role, 0}
			m["SSync2"] = opsCoord{"sync", role, 1}
		} else {
			expect("syncs", Y, 0)
		}
	case "partial":
		t := at.servedName
		W, S, Y := count(t, "write"), count(t, "stat"), count(t, "sync")
		expect("create", btoi(created != ""), 0)
		expect("stats of a partial compaction", S, 5)
		if W < 2 || S != 5 {
			shape = append(shape, fmt.Sprintf("partial: %d writes, %d stats", W, S))
			break
		}
		m["SFragStat"] = opsCoord{"stat", 'F', 0}
		m["SWStat"] = opsCoord{"stat", 'F', 1}
		m["SFootStat"] = opsCoord{"stat", 'F', 2}
		m["SSizeStat"] = opsCoord{"stat", 'F', 3 + r.intn(2)}
		m["SWData"] = opsCoord{"write", 'F', r.intn(W - 1)}
		m["SFootWrite"] = opsCoord{"write", 'F', W - 1}
		m["SLoadStat"] = opsCoord{"osfile", 'F', 0}
		mid := Y
		if compSyncOn {
			mid = Y - 2
		}
		if mid < 0 {
			shape = append(shape, fmt.Sprintf("partial: %d syncs", Y))
			break
		}
		if mid > 0 {
			m["SWSync"] = opsCoord{"sync", 'F', r.intn(mid)}
		}
		if compSyncOn {
			m["SSync1"] = opsCoord{"sync", 'F', mid}
			m["SSync2"] = opsCoord{"sync", 'F', mid + 1}
		}
	case "full":
		t := at.newName
		expect("create", btoi(created == t), 1)
		W, S, Y := count(t, "write"), count(t, "stat"), count(t, "sync")
		expect("stats of a full compaction on the new file", S, 2)
		if W < 3 || S != 2 {
			shape = append(shape, fmt.Sprintf("full: %d writes, %d stats", W, S))
			break
		}
		m["SOpen"] = opsCoord{"open", 'N', 0}
		m["SHeader"] = opsCoord{"write", 'N', 0}
		m["SWStat"] = opsCoord{"stat", 'N', 0}
		m["SFootStat"] = opsCoord{"stat", 'N', 1}
		m["SWData"] = opsCoord{"write", 'N', 1 + r.intn(W-2)}
		m["SFootWrite"] = opsCoord{"write", 'N', W - 1}
		m["SLoadStat"] = opsCoord{"osfile", 'N', 0}
		if at.servedName != "" {
			// both Stats after the commit are on the superseded file: removeFileOnClose(old), then the
			// "size after" statistic, which compactMaybe takes from the OLD footer's first segment
			expect("stats on the superseded file", count(at.servedName, "stat"), 2)
			m["SRmOldStat"] = opsCoord{"stat", 'F', 0}
			m["SSizeStat"] = opsCoord{"stat", 'F', 1}
		}
		mid := Y
		if compSyncOn {
			mid = Y - 2
		}
		if mid < 0 {
			shape = append(shape, fmt.Sprintf("full: %d syncs", Y))
			break
		}
		if mid > 0 {
			m["SWSync"] = opsCoord{"sync", 'N', r.intn(mid)}
		}
		if compSyncOn {
			m["SSync1"] = opsCoord{"sync", 'N', mid}
			m["SSync2"] = opsCoord{"sync", 'N', mid + 1}
		}
	default:
		shape = append(shape, "clean attempt of kind "+kind)
	}
	if os.Getenv("OPSDEBUG") != "" {
		fmt.Fprintf(os.Stderr, "attempt kind=%s served=%s new=%s:", kind, at.servedName, at.newName)
		for _, o := range at.ops {
			fmt.Fprintf(os.Stderr, " %s/%s", o.Kind, strings.TrimLeft(strings.TrimSuffix(strings.TrimPrefix(o.File, "data-"), ".moss"), "0"))
		}
		fmt.Fprintln(os.Stderr)
	}
	return m, strings.Join(shape, "; ")
}

func btoi(b bool) int {
	if b {
		return 1
	}
	return 0
}

// opsRmStatOcc: the occurrence of the Stat of removeFileOnClose(new file) after a failure of `first`.
func opsRmStatOcc(first string) int {
	switch first {
	case "SWStat", "SWSync", "SWData", "SSync1":
		return 1
	case "SFootStat", "SFootWrite", "SSync2", "SLoadStat":
		return 2
	}
	return -1
}

var opsForcePrefer bool // witness cases: take the first preferred step that exists

func opsPickStep(m map[string]opsCoord, r *rng, prefer []string) (string, opsCoord, bool) {
	for _, p := range prefer {
		if co, ok := m[p]; ok && (opsForcePrefer || r.chance(1, 2)) {
			return p, co, true
		}
	}
	var names []string
	for k := range m {
		names = append(names, k)
	}
	if len(names) == 0 {
		return "", opsCoord{}, false
	}
	sort.Strings(names)
	k := names[r.intn(len(names))]
	return k, m[k], true
}

func opsGenWishes(r *rng) []string {
	n := 3 + r.intn(4)
	w := []string{[]string{"append", "full", "partial"}[r.pick([]int{60, 25, 15})]}
	for len(w) < n {
		w = append(w, []string{"append", "partial", "full", "noop"}[r.pick([]int{30, 35, 25, 10})])
	}
	return w
}

func intsSx(a []int) sx {
	out := []sx{}
	for _, x := range a {
		out = append(out, x)
	}
	return out
}

func famOps(w *bufio.Writer, seed uint64, n int) error {
	emit := func(v sx) { w.WriteString(sxString(v)); w.WriteByte('\n') }
	for i := 0; i < n; i++ {
		cs := seed*1000003 + uint64(i)
		r := newRng(cs ^ 0x095)
		cfg := Config{LL: "store", LevelMaxSegs: 1 + r.intn(2), LevelMult: 2 + r.intn(2), PctN: 1, PctD: 1,
			NoSync: r.chance(1, 3), CompactionSync: r.chance(1, 3), KeepFiles: r.chance(1, 3),
			SyncAfterBytes: []int{-1, -1, 4096}[r.intn(3)]}
		wishes := opsGenWishes(r)
		// cases 0 and 1 of every shard are the witnesses of the known findings F30 (two failures in
		// one full compaction: footer sync and the clean-up Stat) and F5b (nothing ever committed)
		witness := ""
		if i == 0 {
			witness, wishes = "F30", []string{"append", "full", "append", "append"}
			cfg.NoSync, cfg.KeepFiles = false, false
		} else if i == 1 {
			witness, wishes = "F5b", []string{"append", "noop"}
		}
		runIt := func(inj []opsInj) *opsRun {
			dir := mustMkdirTemp(workDir, "ops")
			defer os.RemoveAll(dir)
			return runOps(cfg, wishes, inj, dir)
		}
		clean := runIt(nil)
		var shapes []string
		if clean.problem != "" {
			shapes = append(shapes, "clean run: "+clean.problem)
		}
		for k, at := range clean.attempts {
			if at.perr || at.onerr > 0 {
				shapes = append(shapes, fmt.Sprintf("clean attempt %d failed", k))
			}
		}
		// choose the failures
		var inj []opsInj
		two := r.chance(1, 4) || witness == "F30"
		pickRound := func(rn *opsRun, from int, wantFull bool) int {
			var c, full []int
			for k := from; k < len(rn.attempts); k++ {
				if rn.attempts[k].observed != "noop" && !rn.attempts[k].perr {
					c = append(c, k)
					if rn.attempts[k].observed == "full" && k+2 < len(rn.attempts) {
						full = append(full, k)
					}
				}
			}
			if wantFull && len(full) > 0 {
				return full[r.intn(len(full))]
			}
			if len(c) == 0 {
				return -1
			}
			return c[r.intn(len(c))]
		}
		final := clean
		if len(shapes) == 0 {
			sameRound := (two && r.chance(1, 2)) || witness == "F30"
			r1 := pickRound(clean, 0, sameRound)
			if witness == "F5b" {
				r1 = 0
			}
			if r1 >= 0 {
				m, shape := opsMap(cfg, clean.attempts[r1], r)
				if shape != "" {
					shapes = append(shapes, fmt.Sprintf("attempt %d: %s", r1, shape))
				}
				var prefer []string
				if witness == "F30" {
					prefer = []string{"SSync2"}
				} else if witness == "F5b" {
					prefer = []string{"SFootWrite", "SSegWrite"}
				} else if sameRound {
					prefer = []string{"SSync2", "SFootWrite", "SWData"}
				} else if two && clean.attempts[r1].observed == "partial" {
					prefer = []string{"SFragStat"}
				}
				opsForcePrefer = witness != ""
				s1, co, ok := opsPickStep(m, r, prefer)
				opsForcePrefer = false
				if ok {
					if co.kind == "write" && witness == "" && r.chance(1, 3) {
						co.kind = "shortwrite"
					}
					inj = append(inj, opsInj{r1, s1, co})
					if two {
						k1 := clean.attempts[r1].observed
						switch {
						case k1 == "full" && opsRmStatOcc(s1) >= 0 && (sameRound || r.chance(1, 2)):
							inj = append(inj, opsInj{r1, "SRmStat", opsCoord{"stat", 'N', opsRmStatOcc(s1)}})
						case s1 == "SFragStat" && r.chance(2, 3):
							s2 := []string{"SOpen", "SHeader", "SWStat"}[r.intn(3)]
							co2 := map[string]opsCoord{"SOpen": {"open", 'N', 0}, "SHeader": {"write", 'N', 0},
								"SWStat": {"stat", 'N', 0}}[s2]
							inj = append(inj, opsInj{r1, s2, co2})
						default:
							// a later attempt, mapped on the recording of the run with the first failure
							mid := runIt(inj)
							r2 := pickRound(mid, r1+1, false)
							if r2 >= 0 && mid.problem == "" {
								m2, shape2 := opsMap(cfg, mid.attempts[r2], r)
								if shape2 != "" {
									shapes = append(shapes, fmt.Sprintf("attempt %d after the first failure: %s", r2, shape2))
								}
								if s2, co2, ok := opsPickStep(m2, r, nil); ok {
									inj = append(inj, opsInj{r2, s2, co2})
								}
							}
						}
					}
				}
			}
			if len(inj) > 0 {
				final = runIt(inj)
			}
		}
		if final.problem != "" {
			shapes = append(shapes, "run: "+final.problem)
		}
		midsync := false
		injSx := []sx{}
		for _, in := range inj {
			if in.step == "SWSync" {
				midsync = true
			}
			injSx = append(injSx, L(in.round, in.step, opsStepIx[in.step], in.co.kind, string(in.co.role), in.co.occ))
		}
		var kinds, wishSx, cleanKinds, rounds []sx
		kinds, wishSx, cleanKinds, rounds = []sx{}, []sx{}, []sx{}, []sx{}
		for _, wsh := range wishes {
			wishSx = append(wishSx, wsh)
		}
		for _, at := range clean.attempts {
			cleanKinds = append(cleanKinds, at.observed)
		}
		for _, at := range final.attempts {
			kinds = append(kinds, at.forced)
			rounds = append(rounds, L(at.forced, at.observed, L("perr", at.perr), L("onerr", at.onerr),
				L("committed", at.committed), L("content", intsSx(at.content)), L("valok", at.valok),
				L("files", intsSx(at.files)), L("armed", at.armed), L("trig", at.trig), L("nsegs", at.nsegs)))
		}
		csync := cfg.CompactionSync || cfg.SyncAfterBytes > 0
		emit(L("case", i, int64(cs), cfg.sx(), L("universe", L())))
		emit(L("ops", L("opts", L("nosync", cfg.NoSync), L("csync", csync), L("midsync", midsync), L("keepfiles", cfg.KeepFiles)),
			L("wishes", wishSx), L("kinds", kinds), L("cleankinds", cleanKinds), L("inject", injSx),
			L("rounds", rounds),
			L("final", L("dir", intsSx(final.dir)),
				L("reopen", final.reopen, final.reopenFile, L("content", intsSx(final.reopenIDs)), L("valok", final.reopenOK)),
				L("dirafter", intsSx(final.dirAfter))),
			L("shape", fmt.Sprintf("%q", strings.Join(shapes, " | ")))))
		emit(L("end"))
	}
	return nil
}
