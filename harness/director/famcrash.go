package main

import (
	"bufio"
	"bytes"
	"encoding/binary"
	"fmt"
	"os"
	"path/filepath"
	"sort"

	"github.com/couchbase/moss"
)

// Family "crash" (C05): record the file operations of a workload, cut the
// trace at a crash point, materialise a disk image the crash model allows,
// reopen it with the real code, and hand the same bytes to the model.

const pageSz = 4096

type roundInfo struct {
	opsEnd   int  // number of recorded ops when the round had completed
	nbatches int  // batches covered by the store content after the round
	synced   bool // the round completed with syncing enabled (false: the NoSync phase of a mixed workload)
}

type crashWorkload struct {
	ops    []fileOp
	rounds []roundInfo
	refs   []map[string][]byte // reference content after n batches, n = 0..
	nosync bool
	// mixed workload: the first rounds run with syncing enabled, then collection and store are closed
	// and reopened with StorePersistOptions.NoSync; the images stay machine-crash images and what the
	// synced rounds covered has to survive whatever the un-synced rounds (a full compaction among
	// them) do afterwards.  optOut: every compaction sync was switched off explicitly
	// (CompactionSync false and CompactionSyncAfterBytes < 0).
	mixed, optOut bool
	switchOps     int // number of recorded ops at the switch to the NoSync phase
}

func cloneRef(m map[string][]byte) map[string][]byte {
	n := map[string][]byte{}
	for k, v := range m {
		n[k] = v
	}
	return n
}

// witness 3: the scripted workload of the repaired finding F44 (must hold).
// witness 1, 2: the scripted workloads of the known findings F44b and F45 (a mixed workload whose
// NoSync phase forces a full compaction with every compaction sync switched off; a mixed workload whose
// NoSync phase appends), so that every run meets them; 0: a generated workload.
func runCrashWorkload(r *rng, dir string, witness int) (*crashWorkload, error) {
	cfg := Config{LL: "store", MMPn: 8, MMPd: 10, MaxPre: 4}
	cfg.NoSync = r.chance(1, 3)
	cfg.Concern = r.pick([]int{2, 4, 3})
	cfg.LevelMaxSegs = 1 + r.intn(3)
	cfg.LevelMult = 2 + r.intn(3)
	cfg.PctN, cfg.PctD = 99, 100
	if r.chance(1, 2) {
		cfg.BufPages = 1
	}
	cfg.CompactionSync = r.chance(1, 2)
	cfg.SyncAfterBytes = []int{-1, -1, 0, 4096, -1}[r.intn(5)]
	switch witness {
	case 1:
		cfg.NoSync, cfg.CompactionSync, cfg.SyncAfterBytes = false, false, -1
	case 2:
		cfg.NoSync, cfg.CompactionSync, cfg.SyncAfterBytes, cfg.Concern = false, false, 0, 0
	case 3:
		// F44's situation (repaired): a zero-valued CompactionSyncAfterBytes stands for its default, whose
		// sync at the end of compaction has to make the new file durable before the old one is unlinked
		cfg.NoSync, cfg.CompactionSync, cfg.SyncAfterBytes = false, false, 0
	}
	h := newH(cfg, dir)
	h.gating = 0
	h.files = &fileRecorder{record: true}
	so, po := h.storeOptions()
	so.CollectionOptions.MergerIdleRunTimeoutMS = -1
	s, c, err := moss.OpenStoreCollection(dir, so, po)
	if err != nil {
		return nil, err
	}
	w := &crashWorkload{nosync: cfg.NoSync}
	rounds := 2 + r.intn(5)
	switchAt := -1
	if !cfg.NoSync && r.chance(1, 3) {
		w.mixed = true
		switchAt = 1 + r.intn(rounds-1)
		w.optOut = !cfg.CompactionSync && cfg.SyncAfterBytes < 0
	}
	forceInPhase2 := r.chance(1, 2)
	if witness > 0 {
		rounds, switchAt, w.mixed = 3, 1, true
		w.optOut = witness == 1
		forceInPhase2 = witness == 1 || witness == 3
	}
	syncedPhase := true
	ref := map[string][]byte{}
	w.refs = append(w.refs, cloneRef(ref))
	nb := 0
	wide := r.chance(1, 3) && witness == 0
	for round := 0; round < rounds; round++ {
		if round == switchAt {
			// from here on: no syncing (a new session of the application with other persist options)
			c.Close()
			s.Close()
			sleepMicros(5000)
			h.files.mu.Lock()
			w.switchOps = len(h.files.ops)
			h.files.mu.Unlock()
			po.NoSync = true
			if forceInPhase2 {
				po.CompactionConcern = moss.CompactionForce
			}
			syncedPhase = false
			s, c, err = moss.OpenStoreCollection(dir, so, po)
			if err != nil {
				return nil, err
			}
		}
		b, _ := c.NewBatch(0, 0)
		cnt := 0
		for _, k := range baseUniverse {
			switch r.intn(3) {
			case 0:
				v := []byte(fmt.Sprintf("c%d", round))
				if r.chance(1, 5) {
					v = bytes.Repeat([]byte{byte('a' + round)}, 3000+r.intn(3000))
				}
				b.Set(k, v)
				ref[string(k)] = v
				cnt++
			case 1:
				if round > 0 {
					b.Del(k)
					delete(ref, string(k))
					cnt++
				}
			}
		}
		if cnt == 0 {
			b.Set([]byte("k0"), []byte("z"))
			ref["k0"] = []byte("z")
		}
		if wide && round == 0 {
			// 45 child collections: every footer from now on spans three pages or more, so that a
			// crash can leave its first and last page on disk without one in between (the framing
			// checks of the footer scan pass, the JSON in between is not what was written)
			for ci := 0; ci < 45; ci++ {
				cb, err := b.NewChildCollectionBatch(fmt.Sprintf("wide-child-collection-%02d", ci), moss.BatchOptions{})
				if err == nil {
					cb.Set([]byte("k"), []byte("v"))
					ref[fmt.Sprintf("wide-child-collection-%02d/k", ci)] = []byte("v")
				}
			}
		}
		if round > 0 && r.chance(1, 4) && witness == 0 {
			// the value of the empty key is the byte image of the footer an earlier round wrote
			// (the last write of that round): it lands page-aligned at the start of this round's
			// key/value bytes, exactly where the backward footer scan looks once the real footers
			// behind it are torn
			h.files.mu.Lock()
			var img []byte
			prev := w.rounds[r.intn(len(w.rounds))]
			for i := prev.opsEnd - 1; i >= 0; i-- {
				if h.files.ops[i].Kind == "write" && len(h.files.ops[i].Data) > 0 {
					img = append([]byte{}, h.files.ops[i].Data...)
					break
				}
			}
			h.files.mu.Unlock()
			if len(img) > 16 {
				switch r.intn(4) {
				case 0:
					// ... with another format version in it: data that merely looks like the start of a
					// footer of some other version is not a footer either, the scan has to go on
					img[2*len(moss.StoreMagicBeg)] ^= 0x07
				case 1:
					// ... or just the magic pair and a few bytes
					img = append(append(append([]byte{}, moss.StoreMagicBeg...), moss.StoreMagicBeg...), 9, 0, 0, 0, 1, 2, 3, 4, 5, 6, 7, 8)
				}
			}
			if len(img) > 0 {
				b.Set([]byte{}, img)
				ref[""] = img
			}
		}
		c.ExecuteBatch(b, moss.WriteOptions{})
		b.Close()
		nb++
		w.refs = append(w.refs, cloneRef(ref))
		waitPersisted(c)
		sleepMicros(300)
		h.files.mu.Lock()
		w.rounds = append(w.rounds, roundInfo{opsEnd: len(h.files.ops), nbatches: nb, synced: syncedPhase})
		h.files.mu.Unlock()
		// now and then: revert to the previous footer (collection closed, as documented) and go on;
		// the reverted state counts as one more completed step of the history
		if round >= 1 && round < rounds-1 && r.chance(1, 5) && witness == 0 {
			c.Close()
			cur, _ := s.Snapshot()
			prev, perr := s.SnapshotPrevious(cur)
			if perr == nil && prev != nil {
				pm, e1 := snapContent(prev)
				if e1 == nil && s.SnapshotRevert(prev) == nil {
					ref = map[string][]byte{}
					for k, v := range pm {
						ref[k] = v
					}
					nb++
					w.refs = append(w.refs, cloneRef(ref))
					h.files.mu.Lock()
					w.rounds = append(w.rounds, roundInfo{opsEnd: len(h.files.ops), nbatches: nb, synced: syncedPhase})
					h.files.mu.Unlock()
				}
				prev.Close()
			}
			cur.Close()
			s.Close()
			sleepMicros(5000)
			s, c, err = moss.OpenStoreCollection(dir, so, po)
			if err != nil {
				return nil, err
			}
		}
	}
	c.Close()
	s.Close()
	sleepMicros(20000)
	h.files.mu.Lock()
	w.ops = append([]fileOp{}, h.files.ops...)
	h.files.mu.Unlock()
	return w, nil
}

type fileImg struct {
	durable []byte
	pending []fileOp // writes since the last sync
	exists  bool
}

func applyWrite(b []byte, off int64, data []byte) []byte {
	end := off + int64(len(data))
	if int64(len(b)) < end {
		b = append(b, make([]byte, end-int64(len(b)))...)
	}
	copy(b[off:end], data)
	return b
}

// buildImage materialises the directory after a crash just before op index p
// (ops[p], when a write, is torn at byte `torn`); strategy picks which
// un-synced page blocks reached the disk.
func buildImage(w *crashWorkload, p int, torn int, strategy int, r *rng) map[string][]byte {
	files := map[string]*fileImg{}
	get := func(n string) *fileImg {
		f := files[n]
		if f == nil {
			f = &fileImg{}
			files[n] = f
		}
		return f
	}
	for i := 0; i < p && i < len(w.ops); i++ {
		op := w.ops[i]
		f := get(op.File)
		switch op.Kind {
		case "create":
			f.exists, f.durable, f.pending = true, []byte{}, nil
		case "open":
			f.exists = true
		case "write":
			if op.Data != nil {
				f.pending = append(f.pending, op)
			}
		case "sync":
			for _, pw := range f.pending {
				f.durable = applyWrite(f.durable, pw.Off, pw.Data)
			}
			f.pending = nil
		case "remove":
			f.exists = false
		}
	}
	if p < len(w.ops) && w.ops[p].Kind == "write" && w.ops[p].Data != nil && torn > 0 {
		op := w.ops[p]
		if torn > len(op.Data) {
			torn = len(op.Data)
		}
		part := op
		part.Data = op.Data[:torn]
		f := get(op.File)
		f.pending = append(f.pending, part)
	}
	out := map[string][]byte{}
	for name, f := range files {
		if !f.exists {
			continue
		}
		img := append([]byte{}, f.durable...)
		if w.nosync {
			// process kill: the page cache survives, every issued write is there
			for _, pw := range f.pending {
				img = applyWrite(img, pw.Off, pw.Data)
			}
			out[name] = img
			continue
		}
		// machine crash: any subset of the un-synced page-sized blocks
		type blk struct {
			off  int64
			data []byte
		}
		var blocks []blk
		for _, pw := range f.pending {
			off, data := pw.Off, pw.Data
			for len(data) > 0 {
				n := pageSz - int(off%pageSz)
				if n > len(data) {
					n = len(data)
				}
				blocks = append(blocks, blk{off, data[:n]})
				off += int64(n)
				data = data[n:]
			}
		}
		// strategy 5: everything reaches the disk except ONE page in the middle of the last pending
		// write when that write spans three pages or more (a footer with its first and last page)
		hole := -1
		if strategy == 5 && len(f.pending) > 0 {
			last := f.pending[len(f.pending)-1]
			first := -1
			cnt := 0
			for bi, b := range blocks {
				if b.off >= last.Off && b.off < last.Off+int64(len(last.Data)) {
					if first < 0 {
						first = bi
					}
					cnt++
				}
			}
			if cnt >= 3 {
				hole = first + 1 + r.intn(cnt-2)
			}
		}
		for bi, b := range blocks {
			keep := false
			switch strategy {
			case 5:
				keep = bi != hole
			case 0: // none
			case 1: // all
				keep = true
			case 2: // random subset
				keep = r.chance(1, 2)
			case 3: // all but one
				keep = bi != r.intn(len(blocks))
			case 4: // only the last (e.g. the footer without its segments)
				keep = bi == len(blocks)-1
			}
			if keep {
				img = applyWrite(img, b.off, b.data)
			}
		}
		if strategy == 2 && r.chance(1, 3) && len(blocks) > 0 { // length anywhere in between
			last := blocks[len(blocks)-1]
			end := last.off + int64(len(last.data))
			if int64(len(img)) < end {
				img = append(img, make([]byte, int(end)-len(img))...)
			}
		}
		out[name] = img
	}
	return out
}

func famCrash(w *bufio.Writer, seed uint64, n int) error {
	emit := func(v sx) { w.WriteString(sxString(v)); w.WriteByte('\n') }
	caseID := 0
	for wi := 0; caseID < n; wi++ {
		cs := seed*1000003 + uint64(wi)
		r := newRng(cs ^ 0x5c)
		dir := mustMkdirTemp(workDir, "crashsrc")
		witness := 0
		if wi < 3 && os.Getenv("VERIF_NO_WITNESS") == "" {
			witness = wi + 1
		}
		wl, err := runCrashWorkload(r, dir, witness)
		os.RemoveAll(dir)
		if err != nil {
			return err
		}
		// the write/sync discipline of every file, for the model's barrier check: w = a write,
		// f = a footer write (starts with the magic pair and records its own offset), s = sync
		perFile := map[string][]sx{}
		var fileOrder []string
		for _, op := range wl.ops {
			if op.Kind != "write" && op.Kind != "sync" {
				continue
			}
			if _, ok := perFile[op.File]; !ok {
				fileOrder = append(fileOrder, op.File)
				perFile[op.File] = []sx{"file", fmt.Sprintf("%q", op.File)}
			}
			tag := "s"
			if op.Kind == "write" {
				tag = "w"
				d := op.Data
				if len(d) >= 44 && bytes.HasPrefix(d, moss.StoreMagicBeg) && bytes.HasPrefix(d[len(moss.StoreMagicBeg):], moss.StoreMagicBeg) &&
					int64(binary.LittleEndian.Uint64(d[len(d)-24:len(d)-16])) == op.Off {
					tag = "f"
				}
			}
			perFile[op.File] = append(perFile[op.File], tag)
		}
		optrace := []sx{"optrace"}
		for _, fn := range fileOrder {
			optrace = append(optrace, perFile[fn])
		}
		// the directory-level trace for the model's discipline files_ok (CrashFiles.v): creates, footer
		// writes, syncs and unlinks of the data files in the order they happened
		gtrace := []sx{"gtrace"}
		for _, op := range wl.ops {
			sq := seqOf(op.File)
			if sq < 0 || op.Err {
				continue
			}
			switch op.Kind {
			case "create":
				gtrace = append(gtrace, L("c", sq))
			case "sync":
				gtrace = append(gtrace, L("s", sq))
			case "remove":
				gtrace = append(gtrace, L("u", sq))
			case "write":
				d := op.Data
				if len(d) >= 44 && bytes.HasPrefix(d, moss.StoreMagicBeg) && bytes.HasPrefix(d[len(moss.StoreMagicBeg):], moss.StoreMagicBeg) &&
					int64(binary.LittleEndian.Uint64(d[len(d)-24:len(d)-16])) == op.Off {
					gtrace = append(gtrace, L("f", sq))
				}
			}
		}
		// crash points: every op boundary of interest + torn writes
		var points [][2]int
		for p := 0; p <= len(wl.ops); p++ {
			if p < len(wl.ops) && wl.ops[p].Kind == "write" && wl.ops[p].Data != nil {
				ln := len(wl.ops[p].Data)
				for _, t := range []int{1, 19, 20, 21, 43, 44, ln / 2, ln - 1, pageSz - 1, pageSz, pageSz + 1} {
					if t > 0 && t < ln {
						points = append(points, [2]int{p, t})
					}
				}
			}
			points = append(points, [2]int{p, 0})
		}
		var widePoints []int // crash points just after a write of a footer spanning >= 3 pages
		for p := 1; p <= len(wl.ops); p++ {
			op := wl.ops[p-1]
			if op.Kind == "write" && len(op.Data) > 2*pageSz+64 && bytes.HasPrefix(op.Data, moss.StoreMagicBeg) &&
				bytes.HasPrefix(op.Data[len(moss.StoreMagicBeg):], moss.StoreMagicBeg) {
				widePoints = append(widePoints, p)
			}
		}
		per := 16
		if per > n-caseID {
			per = n - caseID
		}
		// the crash point of a witness workload: just after the first unlink of the NoSync phase with
		// nothing un-synced on disk (F44b); just after the first footer write of the NoSync phase with
		// only the last un-synced page block on disk (F45: the footer without its segments)
		wpt, wstrategy := -1, 0
		if witness > 0 {
			for i := wl.switchOps; i < len(wl.ops); i++ {
				op := wl.ops[i]
				if (witness == 1 || witness == 3) && op.Kind == "remove" && seqOf(op.File) >= 0 {
					wpt, wstrategy = i+1, 0
					break
				}
				if d := op.Data; witness == 2 && op.Kind == "write" && len(d) >= 44 && bytes.HasPrefix(d, moss.StoreMagicBeg) &&
					bytes.HasPrefix(d[len(moss.StoreMagicBeg):], moss.StoreMagicBeg) {
					wpt, wstrategy = i+1, 4
					break
				}
			}
			if wpt >= 0 && per > 1 {
				per = 1
			}
		}
		for j := 0; j < per; j++ {
			pt := points[r.intn(len(points))]
			if len(wl.rounds) > 0 && pt[0] < wl.rounds[0].opsEnd && r.chance(3, 4) {
				// most crash points after the first completed round
				for tries := 0; tries < 20 && pt[0] < wl.rounds[0].opsEnd; tries++ {
					pt = points[r.intn(len(points))]
				}
			}
			strategy := r.intn(5)
			if len(widePoints) > 0 && r.chance(1, 3) {
				// right after a footer of three pages or more was written, before its sync: all of it
				// on disk but one page in the middle
				pt = [2]int{widePoints[r.intn(len(widePoints))], 0}
				strategy = 5
			}
			if wpt >= 0 {
				pt, strategy = [2]int{wpt, 0}, wstrategy
			}
			img := buildImage(wl, pt[0], pt[1], strategy, r)
			idir := mustMkdirTemp(workDir, "crashimg")
			var names []string
			for name, data := range img {
				os.WriteFile(filepath.Join(idir, name), data, 0o600)
				names = append(names, name)
			}
			sort.Strings(names)
			// what must have survived
			nSynced, nIssued := 0, 0
			for _, ri := range wl.rounds {
				if ri.opsEnd <= pt[0] && ri.synced {
					nSynced = ri.nbatches
				}
			}
			nIssued = len(wl.refs) - 1
			// reopen with the real code (on a copy, so that the image stays for the model)
			odir := idir + ".open"
			copyDir(idir, odir)
			cfg := Config{LL: "store", MMPn: 8, MMPd: 10, MaxPre: 4, KeepFiles: true}
			h := newH(cfg, odir)
			h.gating = 0
			so, po := h.storeOptions()
			so.CollectionOptions.MergerIdleRunTimeoutMS = -1
			opened, prefix := "failed", -1
			var fpos int64 = -1
			fname := ""
			errText := ""
			func() {
				defer func() {
					if rec := recover(); rec != nil {
						opened = "panic"
						errText = fmt.Sprint(rec)
					}
				}()
				s, c, err := moss.OpenStoreCollection(odir, so, po)
				if err != nil {
					errText = err.Error()
					return
				}
				opened = "ok"
				ss, _ := s.Snapshot()
				if ss != nil {
					d := moss.VerifDumpFooter(ss)
					fpos, fname = d.FilePos, d.FileName
					ss.Close()
				}
				cs, _ := c.Snapshot()
				got, _ := snapContent(cs) // child collections flattened to "name/key", like the references
				cs.Close()
				for nn := nIssued; nn >= 0; nn-- {
					if sameContent(got, wl.refs[nn]) {
						prefix = nn
						break
					}
				}
				if prefix < 0 && os.Getenv("VERIF_DEBUG_CRASH") != "" {
					fmt.Fprintf(os.Stderr, "case %d: content is no prefix: got %d keys, last ref %d keys\n", caseID, len(got), len(wl.refs[nIssued]))
					for k, v := range got {
						if w, ok := wl.refs[nIssued][k]; !ok || !bytes.Equal(w, v) {
							fmt.Fprintf(os.Stderr, "   got %q=%.20q want %.20q (present %v)\n", k, v, w, ok)
						}
					}
					for k := range wl.refs[nIssued] {
						if _, ok := got[k]; !ok {
							fmt.Fprintf(os.Stderr, "   missing %q\n", k)
						}
					}
				}
				c.Close()
				s.Close()
			}()
			os.RemoveAll(odir)
			fl := []sx{"files"}
			for _, nm := range names {
				fl = append(fl, L(seqOf(nm), fmt.Sprintf("%q", filepath.Join(idir, nm)), len(img[nm])))
			}
			emit(L("case", caseID, int64(cs), L("cfg", L("nosync", wl.nosync), L("point", pt[0], pt[1]), L("strategy", strategy),
				L("nops", len(wl.ops))), L("universe", L())))
			emit(L("crash", fl, L("opened", opened), L("prefix", prefix), L("nsynced", nSynced), L("nissued", nIssued),
				L("footer", seqOf(fname), fpos), L("err", fmt.Sprintf("%q", errText)), L("nosync", wl.nosync), L("mixed", wl.mixed), L("syncoptout", wl.optOut),
				L("partialwb", wl.mixed && pt[0] > wl.switchOps && (pt[1] > 0 || (strategy != 0 && strategy != 1))), optrace, gtrace))
			emit(L("end"))
			caseID++
		}
	}
	return nil
}

func sameContent(a, b map[string][]byte) bool {
	if len(a) != len(b) {
		return false
	}
	for k, v := range a {
		w, ok := b[k]
		if !ok || !bytes.Equal(v, w) {
			return false
		}
	}
	return true
}
