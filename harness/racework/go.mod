module verif/racework

go 1.14

require github.com/couchbase/moss v0.0.0

replace github.com/couchbase/moss => /repo
