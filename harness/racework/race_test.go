package racework

// Concurrent workload over the public API, run under the race detector
// (`go test -race`) by every C17 check.  The proof and the regenerated access
// table decide the lock-protected fields; this workload is the search for a
// concrete race anywhere else (published slices, the deferred-sort ticket
// protocol, segment buffers).  A reported race is a real race in the code
// under test; silence proves nothing and is not counted as an obligation.

import (
	"fmt"
	"os"
	"sync"
	"testing"
	"time"

	"github.com/couchbase/moss"
)

func workload(t *testing.T, deferred, cache bool, concern moss.CompactionConcern, children bool) {
	dir, _ := os.MkdirTemp("", "racework")
	defer os.RemoveAll(dir)
	so := moss.StoreOptions{
		CollectionOptions: moss.CollectionOptions{
			MergeOperator:       &moss.MergeOperatorStringAppend{Sep: ":"},
			DeferredSort:        deferred,
			CachePersisted:      cache,
			MaxPreMergerBatches: 2,
		},
		CompactionLevelMaxSegments: 2,
	}
	s, c, err := moss.OpenStoreCollection(dir, so, moss.StorePersistOptions{CompactionConcern: concern})
	if err != nil {
		t.Fatal(err)
	}
	var wg sync.WaitGroup
	stop := make(chan struct{})
	for w := 0; w < 3; w++ {
		wg.Add(1)
		go func(w int) {
			defer wg.Done()
			for i := 0; i < 60; i++ {
				b, err := c.NewBatch(0, 0)
				if err != nil {
					return
				}
				b.Set([]byte(fmt.Sprintf("w%d-k%d", w, i%7)), []byte(fmt.Sprintf("v%d", i)))
				b.Merge([]byte(fmt.Sprintf("w%d-m", w)), []byte("x"))
				if i%5 == 0 {
					b.Del([]byte(fmt.Sprintf("w%d-k%d", w, (i+1)%7)))
				}
				if children {
					cb, _ := b.NewChildCollectionBatch(fmt.Sprintf("c%d", w), moss.BatchOptions{})
					cb.Set([]byte("ck"), []byte(fmt.Sprintf("%d", i)))
					if i%17 == 0 {
						b.DelChildCollection(fmt.Sprintf("c%d", (w+1)%3))
					}
				}
				c.ExecuteBatch(b, moss.WriteOptions{})
				b.Close()
			}
		}(w)
	}
	for r := 0; r < 3; r++ {
		wg.Add(1)
		go func(r int) {
			defer wg.Done()
			for {
				select {
				case <-stop:
					return
				default:
				}
				ss, err := c.Snapshot()
				if err != nil {
					return
				}
				ss.Get([]byte("w0-k1"), moss.ReadOptions{})
				it, err := ss.StartIterator(nil, nil, moss.IteratorOptions{})
				if err == nil && it != nil {
					for n := 0; n < 20; n++ {
						if _, _, e := it.Current(); e != nil {
							break
						}
						if it.Next() != nil {
							break
						}
					}
					it.Close()
				}
				names, _ := ss.ChildCollectionNames()
				for _, nm := range names {
					cs, _ := ss.ChildCollectionSnapshot(nm)
					if cs != nil {
						cs.Get([]byte("ck"), moss.ReadOptions{})
						cs.Close()
					}
				}
				ss.Close()
				c.Get([]byte("w1-m"), moss.ReadOptions{})
				c.Stats()
				c.Histograms()
				s.Stats()
				if fs, _ := s.Snapshot(); fs != nil {
					fs.Get([]byte("w2-k2"), moss.ReadOptions{})
					fs.Close()
				}
				if r == 0 {
					c.(interface {
						NotifyMerger(string, bool) error
					}).NotifyMerger("mergeAll", false)
				}
				time.Sleep(200 * time.Microsecond)
			}
		}(r)
	}
	done := make(chan struct{})
	go func() { wg.Wait(); close(done) }()
	time.Sleep(50 * time.Millisecond)
	// writers finish on their own; readers are told to stop afterwards
	deadline := time.After(20 * time.Second)
	writersDone := make(chan struct{})
	go func() {
		// crude: poll until no batch executed for a while
		last := uint64(0)
		for {
			st, _ := c.Stats()
			if st.TotExecuteBatchEnd == last && last >= 180 {
				close(writersDone)
				return
			}
			last = st.TotExecuteBatchEnd
			time.Sleep(20 * time.Millisecond)
		}
	}()
	select {
	case <-writersDone:
	case <-deadline:
	}
	close(stop)
	<-done
	c.Close()
	s.Close()
}

func TestRaceWorkloads(t *testing.T) {
	for _, deferred := range []bool{false, true} {
		for _, cache := range []bool{false, true} {
			for _, concern := range []moss.CompactionConcern{moss.CompactionDisable, moss.CompactionAllow, moss.CompactionForce} {
				for _, children := range []bool{false, true} {
					workload(t, deferred, cache, concern, children)
				}
			}
		}
	}
}

// TestRaceCachePersistedMerges: CachePersisted keeps the persisted stack as the clean section while
// the merger may still be using that very stack as the base it merges against; many short rounds
// with Merge operands on fresh keys keep merger cycles and persister publishes overlapping.
func TestRaceCachePersistedMerges(t *testing.T) {
	dir, _ := os.MkdirTemp("", "racework")
	defer os.RemoveAll(dir)
	so := moss.StoreOptions{CollectionOptions: moss.CollectionOptions{
		MergeOperator: &moss.MergeOperatorStringAppend{Sep: ":"}, CachePersisted: true, MaxPreMergerBatches: 4}}
	s, c, err := moss.OpenStoreCollection(dir, so, moss.StorePersistOptions{NoSync: true})
	if err != nil {
		t.Fatal(err)
	}
	var wg sync.WaitGroup
	for w := 0; w < 4; w++ {
		wg.Add(1)
		go func(w int) {
			defer wg.Done()
			for i := 0; i < 500; i++ {
				b, err := c.NewBatch(0, 0)
				if err != nil {
					return
				}
				b.Merge([]byte(fmt.Sprintf("w%d-m%d", w, i%40)), []byte("x"))
				b.Set([]byte(fmt.Sprintf("w%d-s%d", w, i%13)), []byte("y"))
				c.ExecuteBatch(b, moss.WriteOptions{})
				b.Close()
				if i%7 == 0 {
					c.Get([]byte(fmt.Sprintf("w%d-m%d", (w+1)%4, i%40)), moss.ReadOptions{})
				}
			}
		}(w)
	}
	wg.Wait()
	c.Close()
	s.Close()
}

// Dirty limits with a lower level: the merger decides whether to wait for the persister from the
// sums over top/mid/base/clean while writers and the persister change those stacks.
func TestRaceDirtyLimits(t *testing.T) {
	dir, _ := os.MkdirTemp("", "racework")
	defer os.RemoveAll(dir)
	so := moss.StoreOptions{CollectionOptions: moss.CollectionOptions{
		MaxPreMergerBatches: 2, MaxDirtyOps: 3, MaxDirtyKeyValBytes: 64}}
	s, c, err := moss.OpenStoreCollection(dir, so, moss.StorePersistOptions{NoSync: true})
	if err != nil {
		t.Fatal(err)
	}
	var wg sync.WaitGroup
	for w := 0; w < 4; w++ {
		wg.Add(1)
		go func(w int) {
			defer wg.Done()
			for i := 0; i < 300; i++ {
				b, err := c.NewBatch(0, 0)
				if err != nil {
					return
				}
				b.Set([]byte(fmt.Sprintf("w%d-s%d", w, i%29)), []byte("0123456789"))
				b.Set([]byte(fmt.Sprintf("w%d-t%d", w, i%7)), []byte("y"))
				c.ExecuteBatch(b, moss.WriteOptions{})
				b.Close()
				if i%5 == 0 {
					c.Stats()
				}
			}
		}(w)
	}
	wg.Wait()
	c.Close()
	s.Close()
}
