module sortscan

go 1.23
