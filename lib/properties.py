"""Per-property configuration and the generic decision procedure."""
import os, re, shutil, time
from checklib import (coqchk, WORK, BUILD, log, build_all, scan_forbidden, proof_obligations, run_family,
                      load_known, match_known, write_replay, write_replay_text, write_evidence,
                      sample_of, TRUSTED_BASE, read_replay)

STRUCT = {"model:top", "model:mid", "model:base", "model:clean", "model:ll", "model:store",
          "model:cached", "model:not-enabled", "harness-error", "driver-error", "model:dirtysegs",
          "model:dirtyops"}
READS = {"model:gets", "model:iter", "tmodel:reads"}
STRUCT |= {"tmodel:coll", "tmodel:top", "tmodel:mid", "tmodel:base", "tmodel:clean", "tmodel:ll",
           "tmodel:store", "tmodel:cached", "tmodel:not-enabled", "tmodel:dirtysegs", "tmodel:dirtyops",
           "tmodel:theorem-system-differs",
           "tspec:unexpected-error"}
TREE = ("coll", "tree", "treerun")
HELD = "held"

# runs: (family, mode, runner, n_quick, n_thorough, labels)
PROPS = {
    "C01": dict(
        corpus=True, runs=[("coll", "flat-nomerge", "flatrun", 320, 6000, 22), TREE + (160, 3000, 24),
                           ("conc", "", "concrun", 80, 2000, 0)],
        corr=STRUCT | READS, corr_held=True,
        spec={"spec:gets", "spec:iter", "tspec:reads", "spec:history", "spec:fresh-snapshot-behind-get"}, spec_held=True,
        rule="generated label sequences (batches of Set/Del with unique keys woven with merger ingest/swap/hand-over, "
             "persister begin/publish/fail, snapshots, close/reopen) over memory-only, map-backed and store-backed "
             "collections with sampled options; a case is non-trivial when at some observed step a key has operations "
             "in two or more different sections (top/mid/base/clean/lower level); distinct by SHA-1 of configuration+labels",
        technique="Coq proof (invariant by induction over labels) + lock-step correspondence against the extracted model",
    ),
    "C02": dict(
        runs=[("coll", "flat", "flatrun", 320, 6000, 26), TREE + (160, 3000, 26), ("refs", "", "refsrun", 64, 1500, 0)],
        corr=STRUCT | READS, corr_held=True,
        spec={"spec:handle-changed", "spec:ref-use-after-release"}, spec_held=True,
        rule="as C01 with Merge operations; up to three snapshots are held open across the rest of each case and "
             "re-read in full (Get per universe key + iteration) after every later label, including across "
             "compactions and close/reopen of collection and store; non-trivial = a held snapshot was re-read after "
             "a later batch changed one of its keys (approximated by: case has a held snapshot and >= 2 sections share a key); "
             "the handle-lifetime family adds store snapshots, previous snapshots, child snapshots and iterators (also "
             "iterators that outlive their snapshot) re-read after every later round, compaction, revert-free reopen and Close",
        technique="Coq proof (snapshots are values; cache-soundness invariant) + re-read of open handles after every label",
    ),
    "C08": dict(
        corpus=True, runs=[("coll", "flat", "flatrun", 320, 6000, 24), TREE + (160, 3000, 24)],
        corr=STRUCT | READS | {"model:cget", "tmodel:cget"}, corr_held=True,
        spec={"spec:gets", "spec:iter", "spec:cget", "tspec:reads", "tspec:cget"}, spec_held=True,
        rule="as C01 with an order-sensitive operator (existing ++ ':' ++ operand) and Merge-heavy batches; "
             "non-trivial = a key has operations in >= 2 sections at an observed step",
        technique="Coq proof (merge_range satisfies merged_ok for an arbitrary operator) + lock-step correspondence",
    ),
    "C10": dict(
        corpus=True, runs=[("coll", "flat", "flatrun", 320, 6000, 24), TREE + (160, 3000, 24),
              ("coll", "nilmerge", "flatrun", 48, 800, 22), ("conc", "", "concrun", 100, 2000, 0)],
        corr=STRUCT | READS | {"model:cget", "tmodel:cget"}, corr_held=False,
        spec={"spec:cget", "spec:gets", "spec:iter", "tspec:reads", "tspec:cget", "spec:copied-value-not-intact",
              "spec:nocopy-differs", "spec:skiplowerlevel-get-differs", "spec:fresh-snapshot-behind-get", "spec:history"}, spec_held=False,
        rule="every value a copying Get returns is retained (the slice itself) with a private copy and compared after every "
             "later label and after snapshot, collection and store are closed (reads that fault are caught); every Get is "
             "repeated with NoCopyValue; the operator returns its existing value uncopied for the operand '='; "
             "free-running histories (the concurrent family of C03) in which a fresh snapshot must never be behind what "
             "Collection.Get just returned and the final, quiescent reads must show every batch; "
             "at every label Collection.Get, Snapshot.Get and iteration are read for every universe key and compared "
             "with each other through the reference; plus cases whose operator returns nil for the operand '!' "
             "(the known finding F17b lives there); non-trivial = a key has operations in >= 2 sections",
        technique="Coq proof (Collection.Get = Snapshot.Get on every reachable state) + three read paths at every label",
    ),
    "C13": dict(
        runs=[("coll", "map", "flatrun", 320, 6000, 26)],
        corr=STRUCT | READS | {"model:cget"}, corr_held=True,
        spec={"spec:gets", "spec:iter", "spec:cget"}, spec_held=True,
        rule="map-backed application lower level updated by the documented protocol, with injected LowerLevelUpdate "
             "failures; the lower level's content and the collection's view are compared with the model after every "
             "label; non-trivial = a key has operations in >= 2 sections",
        technique="Coq proof (protocol result is a legal update; prefix invariant) + lock-step correspondence",
    ),
    "C20": dict(
        runs=[("coll", "store", "flatrun", 320, 6000, 24), TREE + (200, 3000, 24), ("sync", "", "syncrun", 80, 2000, 0)],
        corr=STRUCT | READS, corr_held=False,
        spec={"spec:zero-gauges-unpersisted", "tspec:zero-gauges-unpersisted", "tspec:zero-gauges-child-existence",
              "spec:gauges-stuck-nonzero"},
        spec_held=False,
        rule="Stats() gauges sampled at every label and compared with the model's; whenever they are zero the store's "
             "own snapshot must equal the reference (checked through the model's store footer); non-trivial = a key "
             "has operations in >= 2 sections.  Converse (gauges return to zero): the wait/notify family's lost-wake-up "
             "scenario - the persister completes a round and looks for a sleeping merger exactly between the merger's "
             "skipped hand-over and its going to sleep - and its retry scenario must end with zero gauges within 5 s "
             "without any further batch or notification",
        technique="Coq proof (zero dirty segments => lower level = reference) + gauges vs store content at every label",
    ),
    "C03": dict(
        runs=[("conc", "", "concrun", 200, 4000, 0), TREE + (120, 2000, 24)],
        corr=STRUCT | READS, corr_held=False,
        spec={"spec:history", "spec:call-did-not-return", "spec:batch-failed", "tspec:reads",
              "spec:fresh-snapshot-behind-get"}, spec_held=False,
        rule="free-running histories: 2-4 writers on disjoint key sets (each batch overwrites a marker and three payload "
             "keys, adds a unique key, and writes a child collection in half of the cases), 1-3 snapshot readers, "
             "MaxPreMergerBatches 1-2 so that writers block, merger/persister/compactor ungated with short stalls "
             "injected in their progress callbacks, GOMAXPROCS in {1,2,4,16}, in-memory and store-backed with all "
             "compaction concerns; every call is stamped with a global clock and the recorded history goes through the "
             "verified checker (atomic per-writer prefix incl. child keys, real-time visibility, monotone prefixes); "
             "plus gate-driven tree lock-step cases, where every label is one critical section; non-trivial = >= 2 "
             "snapshots and >= 4 batches in the history",
        technique="Coq proof (per-writer prefix theorem over any interleaving; checker sound and complete) + recorded free-running histories through the extracted checker + gate-driven lock-step",
    ),
    "C04": dict(
        corpus=True, runs=[("coll", "store", "flatrun", 320, 6000, 26), TREE + (200, 3000, 26)],
        corr=STRUCT | READS, corr_held=False,
        spec={"spec:reopen-prefix", "tspec:reopen-prefix", "spec:gets", "spec:iter", "tspec:reads"}, spec_held=False,
        rule="store-backed collections closed at random points relative to merger/persister progress (a persistence "
             "round parked at its start completes during Close) and reopened, several cycles per case, all store "
             "options sampled; after every reopen the served content must equal the reference after some prefix of "
             "the executed batches (searched by the model), and later batches build on it; non-trivial = a key has "
             "operations in >= 2 sections at an observed step",
        technique="Coq proof (prefix invariant a<=b<=d; close leaves a prefix; cycles) + lock-step correspondence with reopen labels",
    ),
    "C06": dict(
        runs=[("fault", "", "faultrun", 320, 4000, 0), ("ops", "", "opsrun", 200, 4000, 0)],
        corr={"model:unsurfaced-failure", "model:retry", "model:ops-outcome", "driver-error", "harness-error"}, corr_held=False,
        spec={"spec:fault-lost-or-corrupt", "spec:never-caught-up", "spec:reopen-after-faults", "spec:ops-lost-after-reopen"},
        spec_held=False,
        rule="workloads of 3-5 rounds (append persists, leveled partial and forced full compactions, 1 or 512 buffer "
             "pages, large values so that section writers flush repeatedly) run once clean with every file operation "
             "recorded, then once per injected failure chosen among the recorded operations: kind open / write / short "
             "write / sync / stat on that file at that occurrence, bursts of 1, 2, 5 or persisting until cleared; during "
             "every round the collection's and the store's full content are sampled: collection = reference of all "
             "batches, store = a batch prefix that never shrinks, a round reporting success contains its batches; "
             "failures must surface through OnError; persistence must catch up; the reopened directory must serve what "
             "the store last exposed; non-trivial = the injected failure actually triggered",
        technique="Coq proof (every failure pattern of a round: success means served, failure surfaced and harmless, old file removed only after a complete footer) + fault injection by predicate on recorded workloads",
    ),
    "C07": dict(
        corpus=True, runs=[("coll", "store", "flatrun", 320, 6000, 30), TREE + (200, 3000, 30), ("refs", "", "refsrun", 48, 1000, 0)],
        corr=STRUCT | READS, corr_held=False,
        spec={"spec:gets", "spec:iter", "tspec:reads", "spec:full-compaction-shape", "tspec:full-compaction-shape",
              "spec:stale-files", "spec:stale-files-after-file-switch", "spec:leaked-fd", "spec:leaked-mapping"}, spec_held=False,
        rule="store-backed collections with CompactionConcern disable/allow/force, level parameters 1-4 / 2-9, "
             "fragmentation thresholds 0.1/0.65/0.99, buffer pages 1/512, sync options; the footer's segment list "
             "after every persistence round (append, partial compaction at the observed splice point, full "
             "compaction) is compared segment by segment with the model's; after every full compaction every "
             "collection of the footer tree must hold at most one segment, strictly ascending, without deletion "
             "markers; superseded data files must be gone from the directory, /proc/self/fd and /proc/self/maps once "
             "every handle is closed (the handle-lifetime family); non-trivial = >= 2 sections share a key",
        technique="Coq proof (compaction at every splice point preserves reads; full-compaction shape) + lock-step on the store footer",
    ),
    "C14": dict(
        runs=[("index", "func", "indexrun", 3000, 60000, 0), ("index", "api", "indexrun", 40, 600, 0)],
        corr={"model:index", "driver-error", "harness-error"}, corr_held=False,
        spec={"spec:index-dependent"}, spec_held=False,
        rule="function level: random ascending key sets (0-240 keys, shared prefixes, empty key, long keys, bytes 00/ff) "
             "with quota 1..100000 and minimum-key-bytes at/around the segment's total, so that indexes with every hop "
             "and truncated indexes arise; 12 probes each (present, just before/after a key, empty, above the last); "
             "index shape, window, findKeyPos and findStartKeyInclusivePos compared with the model; non-trivial = an "
             "index was actually built.  API level: one persisted three-round history reopened read-only under seven "
             "index settings (off, tiny quotas, exhausted quota, ample, default threshold); Get and range starts/ends "
             "must agree across settings and with the reference",
        technique="Coq proof (window contains key and lower bound for every hop/truncation; lookups = linear spec) + function- and API-level correspondence",
    ),
    "C18": dict(
        runs=[("readonly", "", "rorun", 60, 1500, 0)],
        corr={"model:open-result", "model:opens", "model:removes", "driver-error", "harness-error"}, corr_held=False,
        spec={"spec:readonly-dir-changed", "spec:readonly-mutating-op", "spec:open-content", "spec:open-failed-with-valid-file"},
        spec_held=False,
        rule="directories left by 1-4 persisted rounds (with and without forced compaction, files kept), then varied: "
             "as is; a newer file with an incomplete header page; a newer file with a full header and no footer; both; "
             "junk and unparseable data-file names; an older stale copy under a lower sequence number; each opened "
             "read-only and (on a copy) read-write with sampled KeepFiles / compaction concern / index options, through "
             "a recording OpenFile; against the read-only collection: batches, merger notification, Persist with forced "
             "compaction, close; compared: files opened (flags, order), files removed, SHA-256 of every file before/after, "
             "served content; non-trivial = the directory holds >= 2 data files",
        technique="Coq proof (read-only open/persist emit no mutating effect for any directory; newest valid file served) + recorded file operations and directory hashes",
    ),
    "C05": dict(
        runs=[("crash", "", "crashrun", 400, 20000, 0)],
        corr={"model:footer-choice", "model:open-result", "model:write-barrier", "model:files-discipline", "driver-error", "harness-error"}, corr_held=False,
        spec={"spec:open-failed", "spec:open-panic", "spec:not-a-prefix", "spec:lost-synced-round", "spec:first-round-unopenable",
              "spec:lost-synced-round-sync-opted-out", "model:files-discipline-sync-opted-out",
              "spec:lost-synced-round-nosync-partial-writeback", "spec:not-a-prefix-nosync-partial-writeback",
              "spec:open-failed-nosync-partial-writeback", "spec:open-panic-nosync-partial-writeback"},
        spec_held=False,
        rule="workloads of 2-6 persisted rounds (append persists, leveled partial compactions, forced full compactions, "
             "sync on/off, 1 or 512 buffer pages) are recorded through a wrapping File; crash points: every operation "
             "boundary and writes torn at bytes {1,19,20,21,43,44,len/2,len-1,P-1,P,P+1}; disk images: with syncing, the "
             "synced prefix plus {none, all, random subset, all but one, only the last} of the un-synced page blocks and "
             "un-synced length anywhere in between; without syncing, process kill (operations in order, last one torn); "
             "unlinks and creates ordered.  Each image is reopened by the real code (success, chosen file and footer "
             "offset, full content) and the same bytes are scanned by the model; the content must equal the reference "
             "after a prefix no shorter than the last round completed before the crash point; non-trivial = at least one "
             "round had completed before the crash point",
        technique="Coq proof (backward footer scan: finds the last complete footer and ignores any tail) + crash-image enumeration on recorded traces, same bytes to model and code",
    ),
    "C19": dict(
        runs=[("codec", "", "codecrun", 200, 3000, 0), ("batchbuf", "", "batchbufrun", 2400, 40000, 0),
              ("coll", "flat", "flatrun", 160, 3000, 20),
              ("crash", "", "crashrun", 160, 6000, 0)],
        corr={"model:batchbuf-res", "model:batchbuf-len", "model:batchbuf-cap", "model:batchbuf-buf", "model:batchbuf-kvs",
              "model:batchbuf-handle", "model:batchbuf-entries", "model:batchbuf-find", "model:batchbuf-get",
              "model:codec-word", "model:guard", "model:load-segment", "model:segment-layout", "model:roundtrip",
              "model:footer-choice", "model:open-result", "model:write-barrier", "model:files-discipline", "driver-error", "harness-error"} | STRUCT | READS, corr_held=False,
        spec={"spec:limits", "spec:gets", "spec:iter", "spec:open-failed", "spec:open-panic", "spec:not-a-prefix",
              "spec:lost-synced-round", "spec:batchbuf-entries", "spec:batchbuf-sort", "spec:batchbuf-find",
              "spec:batchbuf-get", "spec:batchbuf-rejected-changed", "spec:batchbuf-stale-handle"}, spec_held=False,
        rule="batch buffer at function level: call sequences of 4-17 calls (Set/Del/Merge, Alloc, copy into a handle incl. "
             "short and long copies, AllocSet/AllocDel/AllocMerge of staged handles in any order, split anywhere, nil value) "
             "on batches of capacity 0-200 so that plain operations outgrow the buffer, two thirds ending in sort.Sort and six "
             "Get/Cursor probes; after every call the error, len/cap/bytes of buf, kvs words and the entries decoded by the "
             "real getOperationKeyVal are compared with the extracted BatchBuf model and with the list of operations that "
             "returned nil; one case per process with real oversize lengths (2^24-byte key between accepted operations, "
             "Alloc-built and plain), one with the stale-handle witness; "
             "function level: 400 (op,keyLen,valLen) words per run at boundary lengths 0,1,2^16,2^24-1,2^24,2^24+1,2^28-1,"
             "2^28,2^28+1 and random, 200 page alignments; API level: a batch with a 2^24-byte key (rejected with "
             "ErrKeyTooLarge) between accepted operations, and a 2^24-1 byte key; byte level: segments with adversarial "
             "keys/values (empty, 0x00/0xFF, footer-magic look-alikes, page-size multiples) persisted by the real store "
             "and their file bytes parsed by the model's load_segment, layout compared with the model's writer; plus "
             "flat lock-step cases mixing plain and Alloc-built batches with DeferredSort/CachePersisted sampled; "
             "non-trivial = every case (each word / segment is checked)",
        technique="Coq proof (word round-trip and exact limit guard; persisted segment round-trip; page alignment) + function-, byte- and API-level correspondence",
    ),
    "C09": dict(
        runs=[("iter", "", "iterrun", 600, 20000, 0)],
        corr={"model:iterator", "driver-error", "harness-error"}, corr_held=False,
        spec={"spec:iterator", "spec:iterator-crash"}, spec_held=False,
        rule="snapshot shapes built on the real collection with the merger parked: 0-4 in-memory segments of 1-6 ops "
             "(Set/Del/Merge over 14 keys incl. empty key, shared prefixes, 0xff), optionally over a store-backed lower "
             "level of 1-2 persisted rounds; one third 'shaped' (an old segment or lower level holding the first key and "
             "newer single-op segments deleting/merging it, so cursors die during the leading-deletion skip); bounds nil / "
             "empty / equal / inverted / sharing prefixes; DefaultNaiveSeekToMaxTries in {100,1,2,0}; programs of 1-12 "
             "Next/SeekTo/Current calls incl. backward seeks and seeks after exhaustion; every call's result compared "
             "with the model and with the specification iterator; non-trivial = >= 2 live entries in range and the "
             "program seeks",
        technique="Coq proof (refinement of the cursor/heap iterator, both fast paths and SeekTo restart, to the specification iterator; program-level theorem) + call-by-call correspondence",
    ),
    "C12": dict(
        runs=[("history", "", "histrun", 300, 6000, 0), ("history", "tree", "histtreerun", 240, 4000, 0)],
        corr={"model:footer-segments", "model:persist-kind", "model:walk-chain", "model:revert-content", "model:revert",
              "model:reopen", "model:reopen-footer", "driver-error", "harness-error"}, corr_held=False,
        spec={"spec:round-content", "spec:walk-chain", "spec:previous-content-changed", "spec:previous-error",
              "spec:revert-content", "spec:revert-refused", "spec:reopen-content", "spec:previous-content",
              "spec:walk-endless"}, spec_held=False,
        rule="6-13 steps per case over one store: persisted rounds (append, leveled partial compaction, forced full "
             "compaction), full walks back from the current snapshot with SnapshotPrevious, SnapshotRevert to a footer "
             "0-3 steps back (collection closed, as documented), close/reopen, and continuation with more rounds; "
             "compared: the segment list of every footer written, the chain of footer offsets of every walk, the content "
             "of every previous snapshot against what was recorded when it was current, the reverted footer against its "
             "target, the reopened footer; non-trivial = a walk of length >= 1 or a successful revert.  Tree mode (240 cases): the "
             "same programs with child collections one and two levels down (written, created empty, deleted, re-created), "
             "a third of the cases with ALL data in child collections; every footer written, walked to, reverted to or "
             "reopened is compared with the tree chain model (PrevTree.v) on offsets and segments and read in full (Get per "
             "key, iteration, children recursively) against the reference tree of the batches behind it",
        technique="Coq proof (footer-chain model, flat and with tree footers: walk = history since the last compaction for every accepted history of rounds and reverts; revert exact; immutability of older footers) + lock-step over previous/revert programs",
    ),
    "C15": dict(
        runs=[("refs", "", "refsrun", 64, 1500, 0), ("owners", "", "ownersrun", 34, 340, 0)],
        corr={"model:owner-events", "model:owner-files", "model:owner-illegal-step", "driver-error", "harness-error"}, corr_held=False,
        spec={"spec:ref-count-jump", "spec:ref-use-after-release", "spec:ref-leak", "spec:handle-changed",
              "spec:leaked-fd", "spec:leaked-mapping", "spec:stale-files", "spec:stale-files-after-file-switch"}, spec_held=False,
        rule="8-19 steps per case over a store-backed collection (child collections in half of the cases, leveled and "
             "forced compactions, CachePersisted sampled): persisted rounds, collection snapshots, child snapshots, "
             "iterators advanced part-way, store snapshots and their predecessors, mergeAll cycles, closing the "
             "collection and the store while handles stay open, closing handles in random order; every open handle is "
             "re-read in full after every step and must show what it showed when opened; every AddRef/DecRef of the five "
             "ref-counted types is recorded through the verifRef hook and the trace goes through the monitor; at the end "
             "(polling up to 2 s for asynchronous unlinks) /proc/self/fd and /proc/self/maps must hold nothing under the "
             "store directory and the directory at most the current data file; non-trivial = more than 20 count events",
        technique="Coq proof (reference-count monitor: accepted traces have no use after release and no leak) + recorded AddRef/DecRef traces, re-reads of open handles, /proc observation",
    ),
    "C16": dict(
        runs=[("sync", "", "syncrun", 100, 2000, 0)],
        corr={"model:top", "model:blocked", "model:ok", "model:closedret", "model:syncret",
              "model2:top", "model2:blocked", "model2:ok", "model2:closedret", "model2:syncret", "model2:not-enabled", "model2:fuel",
              "driver-error", "harness-error"},
        corr_held=False,
        spec={"spec:top-exceeds-cap", "spec:unexpected-error", "spec:call-did-not-return",
              "spec:close-left-writers-blocked", "spec:after-close-not-errclosed", "spec:api-call-hung"}, spec_held=False,
        rule="MaxPreMergerBatches 1-3; 6-19 labels per case: writer goroutines calling ExecuteBatch (blocking when top is "
             "full), merger ingest and cycle end released through the gates, synchronous NotifyMerger calls (up to 6 "
             "pending), Close at a random point followed by NewBatch/Snapshot/Get/ExecuteBatch; after every label the "
             "settled counts (top height, blocked writers, returned nil / ErrClosed, answered notifications) are "
             "compared with the model; every tenth case is the stall scenario (persister wake-up test with a full ping "
             "queue while the merger is between cycles): every API call must return within 30 s; non-trivial = some "
             "writer was blocked by back-pressure, or the stall scenario.  The fine-grained model (Sync2) is stepped alongside by "
             "Sync2Run.apply_label (the label's outside or gated step, then every free step until none is enabled) and compared "
             "on the same counts (model2:* kinds)",
        technique="Coq proof (coarse and fine-grained wait/notify models: invariants, Close final, progress with a measure) + lock-step of both models on settled counts, scenarios with timeouts",
    ),
    "C17": dict(runs=[], corr=set(), corr_held=False, spec=set(), spec_held=False, rule="", technique=""),
    "C11": dict(
        corpus=True, runs=[TREE + (360, 6000, 28)],
        corr=STRUCT | READS | {"tmodel:cget"}, corr_held=True,
        spec={"tspec:reads", "tspec:cget", "tspec:reopen-prefix"}, spec_held=True,
        rule="histories over child names c1, c2 and nested c1/d1, c2/d1: create, write, delete, recreate, child-only "
             "and delete-only batches, woven with all merger/persister/compaction/reopen labels; every section's tree "
             "of stacks (with incarnation numbers canonicalised per path), the footer tree and the collection's child "
             "bookkeeping are compared with the model after every label, and every path's reads with the reference "
             "tree; non-trivial = a (path,key) has operations in >= 2 sections",
        technique="Coq proof (per-node view preservation under merge/persist/compaction/reopen; parent isolation) + lock-step over child trees",
    ),
}


def relevant(kinds, spec):
    corr, sp = [], []
    for k in kinds:
        if re.match(r"t?model:held\d+", k):
            if spec["corr_held"]:
                corr.append(k)
        elif re.match(r"t?spec:held\d+", k):
            if spec["spec_held"]:
                sp.append(k)
        elif k == "spec:memory-fault":   # reading through an open handle faulted: always a violation
            sp.append(k)
        elif k in spec["corr"]:
            corr.append(k)
        elif k in spec["spec"]:
            sp.append(k)
    return corr, sp


def classify(pid, spec, cases, known):
    """Per case: every mismatch is looked at.  A specification mismatch (implementation against the
    reference) that no known finding explains makes the case a violation, even when an earlier
    mismatch of the same case only broke the correspondence (the specification oracles do not
    depend on the model's state); otherwise the first correspondence mismatch counts."""
    viol, corr_breaks, known_hits = [], [], []
    for c in cases:
        if c["verdict"] in ("MISSING",):
            corr_breaks.append((c, "no verdict from the model runner"))
            continue
        first_corr, first_spec, hit = None, None, None
        for m in c["mismatches"]:
            corr, sp = relevant(m["kinds"], spec)
            if not corr and not sp:
                continue
            k = match_known(pid, c, m, known)
            if k is not None:
                hit = hit or k
                continue
            if sp and first_spec is None:
                first_spec = "specification violated at step %d (%s): %s" % (m["step"], m["label"], ",".join(sp))
            elif corr and first_corr is None:
                first_corr = "model and implementation differ at step %d (%s): %s" % (m["step"], m["label"], ",".join(corr))
        if hit is not None:
            known_hits.append((c, hit))
        if first_spec is not None:
            viol.append((c, first_spec))
        elif first_corr is not None and hit is None:
            corr_breaks.append((c, first_corr))
    return viol, corr_breaks, known_hits


def sort_protocol_tie(work):
    """C17, deferred-sort ticket protocol.  harness/sortscan translates segment.RequestSort,
    segmentStack.ensureSorted, every doSort call site and readyDeferredSort of /repo's CURRENT sources
    into the IR of coq/SortProto.v (SortTable.v); SortTie.v proves the generated terms equal to the
    programs the C17_sort_* theorems are about.  When that fails, the bounded explorer of SortProto.v
    runs on the GENERATED programs (SortSearch.v, vm_compute): a violating schedule is the replay of a
    VIOLATION, none found = obligation broken, no failing input found.
    Returns (ok, problem or None, violation text or None, summary)."""
    from checklib import (sh, VERIF, COQ, GOENV, Lock)
    from checklib import REPO as REPO_DIR
    gen = os.path.join(work, "sortgen")
    os.makedirs(gen, exist_ok=True)
    with Lock(os.path.join(BUILD, "lock")):
        rc, out = sh(["go", "build", "-o", os.path.join(BUILD, "sortscan"), "."],
                     cwd=os.path.join(VERIF, "harness", "sortscan"), env=GOENV, timeout=900)
    if rc != 0:
        return False, "sortscan does not build:\n" + out[-1500:], None, "sortscan: build failed"
    rc, report = sh([os.path.join(BUILD, "sortscan"), "-dir", REPO_DIR, "-out", gen], timeout=300)
    if rc != 0:
        return (False, "the deferred-sort protocol of /repo is outside the IR of SortProto.v (no theorem applies, "
                "no search possible):\n" + report[-1500:], None, "sortscan: untranslatable")
    coqc = ["coqc", "-Q", COQ, "Moss", "-Q", gen, "Gen"]
    rc, out = sh(coqc + [os.path.join(gen, "SortTable.v")], timeout=600)
    if rc != 0:
        return False, "SortTable.v (generated) does not compile:\n" + out[-1500:], None, "sortscan: table rejected"
    rc, out = sh(coqc + [os.path.join(gen, "SortTie.v")], timeout=600)
    if rc == 0:
        return True, None, None, "generated RequestSort / ensureSorted / doSort sites = the proved programs"
    which = "SortTie.v"
    ml = re.search(r"line (\d+)", out)
    if ml:
        for ln in reversed(open(os.path.join(gen, "SortTie.v")).read().split("\n")[:int(ml.group(1))]):
            me = re.match(r"Example (\w+)", ln)
            if me:
                which = me.group(1)
                break
    problem = ("the deferred-sort protocol in /repo is not the one the C17_sort_* theorems are about (%s fails):\n%s"
               % (which, report[-1200:]))
    rc, sout = sh(coqc + [os.path.join(gen, "SortSearch.v")], timeout=1500)
    flat = " ".join(sout.split())
    mv = re.search(r"= Violation (\{\|.*?\|\}) (\[.*?\]) \((V\w+ \d+ \d+)\)", flat)
    if mv:
        text = ("; deferred-sort ticket protocol: the bounded explorer (SortProto.search, vm_compute) on the programs\n"
                "; generated from /repo finds a schedule with a violation (VWriteWrite s g: g enters the write section of\n"
                "; segment s while another goroutine is inside; VWriteAfterRead: a sort starts on a segment a reader has\n"
                "; searched; VReadInWrite: a reader searches s while it is being sorted; VReadUnsync: a reader searches s\n"
                "; without happens-after the end of its sort; VClose: close of a closed channel)\n"
                "; configuration (goroutine kinds; born-sorted flags): %s\n; schedule (goroutine, segment read): %s\n"
                "; violation: %s\n; generated programs:\n; %s\n"
                "; replay: sortscan -dir $VERIF_REPO -out D && coqc SortTable.v && "
                "Eval vm_compute in replay (progs_of ...) <configuration> <schedule>\n"
                % (mv.group(1), mv.group(2), mv.group(3), report.strip().replace("\n", "\n; ")))
        return False, problem, text, "explorer: violation %s" % mv.group(3)
    mn = re.search(r"= (NoViolation \d+ \d+|Incomplete .*)", flat)
    return (False, problem + "\nbounded explorer on the generated programs: %s" % (mn.group(1)[:200] if mn else "failed: " + sout[-400:]),
            None, "explorer: no violation")


def run_c17(pid, tier, seed, replay):
    """C17: the access table is regenerated from /repo by lockscan and checked inside Coq."""
    import subprocess, json
    from checklib import (sh, VERIF, COQ, GOENV, Lock)
    from checklib import REPO as REPO_DIR, point_modules_at_repo
    point_modules_at_repo()
    t0 = time.time()
    res = build_all(need_go=False)
    problems = []
    if not res["coq"][0]:
        problems.append("Coq development does not build:\n" + res["coq"][1][-1500:])
    forb = scan_forbidden()
    if forb:
        problems.append("forbidden declarations: " + "; ".join(forb[:5]))
    po = proof_obligations(pid) if res["coq"][0] else dict(obligations=3, discharged=0, theorems=[], axioms=[], ok=False, output="")
    if res["coq"][0] and not po["ok"]:
        problems.append("theorems of C17 not all accepted:\n" + po["output"][-1500:])
    work = os.path.join(WORK, "C17.%d" % os.getpid())
    os.makedirs(work, exist_ok=True)
    unjust, counts, report, table_ok = -1, {}, "", False
    try:
        with Lock(os.path.join(BUILD, "lock")):
            rc, out = sh(["go", "build", "-o", os.path.join(BUILD, "lockscan"), "."],
                         cwd=os.path.join(VERIF, "harness", "lockscan"), env=GOENV, timeout=900)
        if rc != 0:
            problems.append("lockscan does not build:\n" + out[-1500:])
        else:
            rc, report = sh([os.path.join(BUILD, "lockscan"), "-dir", REPO_DIR, "-coq", os.path.join(work, "Table.v")], timeout=600)
            m = re.search(r"UNJUSTIFIED (\d+)", report)
            unjust = int(m.group(1)) if m else -1
            for mm in re.finditer(r"COUNT (\w+)\s+(\d+)", report):
                counts[mm.group(1)] = int(mm.group(2))
            if rc != 0 or unjust < 0:
                problems.append("lockscan failed on /repo:\n" + report[-1500:])
            else:
                rc2, out2 = sh(["coqc", "-Q", COQ, "Moss", "-o", os.path.join(work, "Table.vo"), os.path.join(work, "Table.v")], timeout=900)
                table_ok = rc2 == 0
                if not table_ok:
                    problems.append("the regenerated access table does not satisfy check_table (table_ok fails):\n" + out2[-800:])
        sp_ok, sp_problem, sp_violation, sp_summary = sort_protocol_tie(work)
        if sp_problem:
            problems.append(sp_problem)
        unjustified = [ln for ln in report.splitlines() if " JNone" in ln]
        out_lines, rc_final, nviol = [], 0, 0
        race_out = ""
        # The table covers the lock-protected fields of two structs.  Everything else that permitted
        # concurrent use touches (published slices, the deferred-sort ticket protocol, segment
        # buffers) is exercised by concurrent workloads under Go's race detector on every run: a
        # reported race is a real race in the code under test (the detector has no false positives),
        # so it is a violation with the report as replay; silence there proves nothing and is not
        # counted as a discharged obligation.
        env = dict(GOENV, CGO_ENABLED="1")
        import shutil as _sh
        _sh.copyfile(os.path.join(REPO_DIR, "go.sum"), os.path.join(VERIF, "harness", "racework", "go.sum"))
        reps = "3" if tier == "thorough" else "1"
        rcr, race_out = sh(["go", "test", "-race", "-count=" + reps, "-timeout", "15m", "."],
                           cwd=os.path.join(VERIF, "harness", "racework"), env=env, timeout=1800)
        if "DATA RACE" in race_out and not problems:
            nviol = 1
            rc_final = 1
            text = "; property C17\n; the race detector reports a data race under permitted concurrent use (harness/racework, go test -race)\n"
            path = write_replay_text(pid, "race", text + race_out[:8000])
            out_lines.append("VIOLATION property=%s replay=%s" % (pid, path))
        elif rcr != 0 and "DATA RACE" not in race_out and not problems:
            problems.append("the concurrent workload (harness/racework) fails without a race report:\n" + race_out[-1500:])
        if problems:
            nviol = len(problems)
            rc_final = 1
            text = "; property C17\n; " + "\n; ".join(p.replace("\n", "\n; ") for p in problems) + "\n"
            text += "; unjustified accesses:\n" + "\n".join("; " + u for u in unjustified[:40]) + "\n"
            if sp_violation:
                path = write_replay_text(pid, "sortproto", text + sp_violation)
                out_lines.append("VIOLATION property=%s replay=%s" % (pid, path))
            elif "DATA RACE" in race_out:
                text += "; race detector output of harness/racework (go test -race):\n" + race_out[:6000]
                path = write_replay_text(pid, "race", text)
                out_lines.append("VIOLATION property=%s replay=%s" % (pid, path))
            else:
                text += "; go test -race on harness/racework found no race\n"
                path = write_replay_text(pid, "table", text)
                out_lines.append("VIOLATION property=%s replay=%s no-failing-input-found" % (pid, path))
        samples = [ln for ln in report.splitlines() if re.match(r"\S+\.go:\d+", ln)][:6]
        coverage = dict(
            obligations=po["obligations"] + 2, discharged=po["discharged"] + (1 if table_ok else 0) + (1 if sp_ok else 0),
            sort_protocol_tie=sp_summary,
            checker_cmd="make -C /verif/coq && coqc props/C17.v && lockscan -dir /repo -coq Table.v && coqc Table.v (Example table_ok by vm_compute)",
            trusted_base=TRUSTED_BASE + ["lockscan (Go, go/packages + go/types): the translator that extracts every access to the "
                                         "lock-protected fields of collection and Store and its justification; its classification rules "
                                         "are trusted; the link between a justification label and `disciplined` is by inspection, not proved"],
            theorems=po["theorems"] + ["table_ok (regenerated)", "generated_progs_are_current (regenerated)"], axioms=po["axioms"],
            programs=1, disagreements_checked=unjust if unjust >= 0 else 0,
            evaluations=sum(counts.values()), distinct_nontrivial=sum(v for k, v in counts.items() if k != "JConstructor"),
            rule="every read/write of a lock-protected field of `collection` and `Store` in non-test files, found through "
                 "go/types selections; non-trivial = justified by a held lock, a LOCKED function whose call sites hold it, the "
                 "gotLock parameter, or the snapshot callback (not a constructor access)",
            samples=samples or ["(no report)"], justification_counts=counts, unjustified=unjust,
            race_detector_run=bool(race_out), race_detector_found_race=("DATA RACE" in race_out),
            explanation="lock-set discipline => race freedom proved in Coq for arbitrary traces; the access table is regenerated "
                        "from /repo's working tree on every run and checked by vm_compute inside Coq; narrow: covers the "
                        "lock-protected fields of two structs, not copy-on-write publication, the deferred-sort ticket protocol, "
                        "atomics on stats, histograms or the mmap layer",
        )
        write_evidence(pid, tier, seed, "proof", coverage,
                       ["lockscan's classification rules are sound for the code shapes that occur in moss (44 mutants/controls tested)",
                        "Go memory model: mutex release happens-before later acquire"], time.time() - t0, nviol)
        for ln in out_lines:
            print(ln)
        sys_stdout_flush()
        if rc_final == 0:
            log("C17: ok (%d accesses, %d unjustified, table_ok=%s, %.1fs)" % (sum(counts.values()), unjust, table_ok, time.time() - t0))
        return rc_final
    finally:
        shutil.rmtree(work, ignore_errors=True)


def replay_case(pid, spec, replay, workdir, known, problems):
    """check <ID> --replay FILE: regenerate the shard the case came from (same family, mode, count
    and director seed: every random choice derives from them), re-execute it against /repo's working
    tree, run the model over it and judge only the replayed case.  Exit 1 + VIOLATION when it still
    fails, exit 0 when it no longer does.  Evidence files are not rewritten by a replay."""
    rr, recorded = read_replay(replay)
    if problems:
        print("VIOLATION property=%s replay=%s no-failing-input-found" % (pid, replay))
        log("\n".join(problems))
        return 1
    if not rr:
        log("%s: replay file carries no rerun line (a proof/table replay): run the check itself" % pid)
        return 2
    cases, _, herrs = run_family(rr["family"], rr["mode"], rr["n"], rr["labels"], 0, rr["runner"], workdir,
                                 extra=rr.get("extra") or None, only=(rr["n"], rr["dseed"]))
    mine = [c for c in cases if c["case"] == rr["case"]]
    if not mine:
        log("%s: replayed shard produced no case %d (%s)" % (pid, rr["case"], "; ".join(herrs[:3])))
        print("VIOLATION property=%s replay=%s no-failing-input-found" % (pid, replay))
        return 1
    same = "".join(mine[0]["labels"]) == "".join(__import__("checklib").case_labels(recorded)) if recorded else None
    viol, corr_breaks, known_hits = classify(pid, spec, mine, known)
    for c, k in known_hits:
        print("KNOWN-FINDING: property=%s %s: %s" % (pid, k["id"], k["what"]))
    for c, why in viol + corr_breaks:
        log("%s: replay still fails: %s" % (pid, why))
        for m in c["mismatches"][:3]:
            for d in m["detail"][:6]:
                log("    " + d[:400])
    log("%s: replayed case %d of %s/%s seed %s: labels %s the recorded ones" %
        (pid, rr["case"], rr["family"], rr["mode"], rr["dseed"],
         "identical to" if same else ("differ from (scheduling- or code-dependent generation)" if same is not None else "not compared with")))
    if viol:
        print("VIOLATION property=%s replay=%s" % (pid, replay))
        return 1
    if corr_breaks:
        print("VIOLATION property=%s replay=%s no-failing-input-found" % (pid, replay))
        return 1
    log("%s: replay no longer fails" % pid)
    return 0


def run_property(pid, tier, seed, replay):
    if pid == "C17":
        return run_c17(pid, tier, seed, replay)
    t0 = time.time()
    spec = PROPS[pid]
    workdir = os.path.join(WORK, "%s.%d" % (pid, os.getpid()))
    known = load_known()
    try:
        return _run(pid, spec, tier, seed, replay, workdir, known, t0)
    finally:
        shutil.rmtree(workdir, ignore_errors=True)


def _run(pid, spec, tier, seed, replay, workdir, known, t0):
    res = build_all()
    problems = []  # proof-side problems (strings)
    coq_ok = res["coq"][0]
    if not coq_ok:
        problems.append("Coq development does not build:\n" + res["coq"][1][-1500:])
    if coq_ok and "ocaml" in res and not res["ocaml"][0]:
        problems.append("extraction / OCaml build failed:\n" + res["ocaml"][1][-1500:])
    forb = scan_forbidden()
    if forb:
        problems.append("forbidden declarations: " + "; ".join(forb[:5]))
    po = dict(obligations=1, discharged=0, theorems=[], axioms=[], ok=False, output="")
    if coq_ok:
        po = proof_obligations(pid)
        if not po["ok"]:
            problems.append("theorems of %s not all accepted (discharged %d of %d; axioms %s):\n%s" %
                            (pid, po["discharged"], po["obligations"], po.get("bad_axioms"), po["output"][-1500:]))
    chk_summary = None
    if coq_ok and tier == "thorough" and not replay:
        ok_chk, chk_summary = coqchk(pid)
        if not ok_chk:
            problems.append("coqchk does not accept the compiled development without assumptions: " + chk_summary)
    go_ok = res.get("go", (True, ""))[0]
    all_cases, hist, herrs = [], {}, []
    if not go_ok:
        problems.append("harness does not build against /repo with -tags verif:\n" + res["go"][1][-1500:])
    elif not (coq_ok and res.get("ocaml", (False,))[0]):
        pass
    else:
        if replay:
            return replay_case(pid, spec, replay, workdir, known, problems)
        # the corpus runs first: scripted witnesses of earlier findings and of situations that proofs
        # or seeded changes singled out (corpus/witness/*.script), through the gated implementation
        import glob as _glob
        for si, sf in enumerate(sorted(_glob.glob(os.path.join(os.path.dirname(WORK), "corpus", "witness", "*.script")))
                                if spec.get("corpus") else []):
            cases, h, he = run_family("coll", "script", 1, 0, seed, "treerun", os.path.join(workdir, "corpus%d" % si),
                                      extra=["-replay", sf], jobs=1)
            all_cases += cases
            herrs += he
        for (family, mode, runner, nq, nt, labels) in spec["runs"]:
            n = nq if tier == "quick" else nt
            cases, h, he = run_family(family, mode, n, labels, seed, runner, workdir)
            all_cases += cases
            herrs += he
            for k, v in h.items():
                hist[k] = hist.get(k, 0) + v
    viol, corr_breaks, known_hits = classify(pid, spec, all_cases, known)
    for he in herrs:
        corr_breaks.append((dict(seed="x", case=0, lines=[], mismatches=[], labels=[]), "harness: " + he))

    out_lines = []
    seen_known = set()
    for c, k in known_hits:
        if k["id"] not in seen_known:
            seen_known.add(k["id"])
            out_lines.append("KNOWN-FINDING: property=%s %s: %s" % (pid, k["id"], k["what"]))
    rc = 0
    nviol = 0
    if viol:
        for c, why in viol[:3]:
            path = write_replay(pid, c, why)
            out_lines.append("VIOLATION property=%s replay=%s" % (pid, path))
        nviol = len(viol)
        rc = 1
    elif problems or corr_breaks:
        # failing-input search: a fresh, larger batch of cases, looking for a specification violation
        found = None
        if go_ok and coq_ok and res.get("ocaml", (False,))[0]:
            for (family, mode, runner, nq, nt, labels) in spec["runs"]:
                cases2, _, _ = run_family(family, mode, max(3 * nq, 900), labels, seed + 7919, runner,
                                          os.path.join(workdir, "search"))
                v2, _, _ = classify(pid, spec, cases2, known)
                if v2:
                    found = v2[0]
                    break
        if found:
            path = write_replay(pid, found[0], found[1])
            out_lines.append("VIOLATION property=%s replay=%s" % (pid, path))
        else:
            if corr_breaks:
                c, why = corr_breaks[0]
                path = write_replay(pid, c, "correspondence no longer checks: " + why,
                                    extra="; ".join(p.splitlines()[0] for p in problems))
            else:
                path = write_replay_text(pid, "proof", "; property %s\n; proof obligation no longer checks\n%s\n" %
                                         (pid, "\n".join(problems)))
            out_lines.append("VIOLATION property=%s replay=%s no-failing-input-found" % (pid, path))
        nviol = len(corr_breaks) + len(problems)
        rc = 1

    nontrivial = {}
    for c in all_cases:
        if c["nontrivial"] > 0 and c["verdict"] in ("AGREE", "DISAGREE"):
            nontrivial[c["digest"]] = 1
    evaluated = [c for c in all_cases if c["verdict"] in ("AGREE", "DISAGREE")]
    samples = [sample_of(c) for c in evaluated[:2]]
    coverage = dict(
        obligations=po["obligations"], discharged=po["discharged"],
        checker_cmd="make -C /verif/coq (coqc 8.16.1, full .vo build) && coqc -Q . Moss props/%s.v (Print Assumptions)" % pid,
        trusted_base=TRUSTED_BASE, theorems=po["theorems"], axioms=po["axioms"],
        evaluations=len(evaluated), distinct_nontrivial=len(nontrivial), rule=spec["rule"],
        samples=samples if samples else [dict(note="no case evaluated")],
        steps_compared=sum(c["steps"] for c in evaluated),
        label_histogram=hist, skipped=sum(1 for c in all_cases if c["verdict"] == "SKIP"),
        known_findings_seen=sorted(seen_known),
        correspondence_breaks=len(corr_breaks), spec_violations=len(viol),
        coqchk=chk_summary or "not run in this tier (thorough tier runs coqchk -silent -o over the property's libraries)",
        explanation="theorems about the Gallina model accepted by the kernel; the model is tied to /repo's working tree by "
                    "running the extracted model and the implementation in lock step on the same labels and comparing "
                    "every section, read and gauge after every label",
    )
    write_evidence(pid, tier, seed, "proof", coverage,
                   ["the correspondence is differential testing at step granularity: it bounds the tie between model and code",
                    "merge operator total/deterministic", "POSIX file and mmap semantics"], time.time() - t0, nviol)
    for ln in out_lines:
        print(ln)
    sys_stdout_flush()
    if rc == 0:
        log("%s: ok (%d cases, %d non-trivial, %d/%d theorems, %.1fs)" %
            (pid, len(evaluated), len(nontrivial), po["discharged"], po["obligations"], time.time() - t0))
    return rc


def sys_stdout_flush():
    import sys
    sys.stdout.flush()
