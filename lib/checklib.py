"""Shared machinery of /verif/bin/check (see DESIGN.md section 2.3)."""
import argparse, fcntl, hashlib, json, os, re, shutil, subprocess, sys, time

VERIF = os.path.dirname(os.path.dirname(os.path.abspath(__file__)))
REPO = os.environ.get("VERIF_REPO", "/repo")   # the tree under test; only tools/try_seeded.py overrides it (scratch copy)
BUILD = os.path.join(VERIF, ".build")
WORK = os.path.join(VERIF, ".work")
REPLAYS = os.path.join(VERIF, "replays")
EVID = os.path.join(VERIF, "evidence")
COQ = os.path.join(VERIF, "coq")
JOBS = int(os.environ.get("VERIF_JOBS", "8"))

GOENV = dict(os.environ, GOFLAGS="-mod=mod", GOPROXY="off", GOSUMDB="off",
             GOTOOLCHAIN="local", CGO_ENABLED=os.environ.get("CGO_ENABLED", "0"))

ALLOWED_AXIOMS = {
    # standard-library axioms a theorem may depend on (none is expected today)
    "functional_extensionality_dep", "FunctionalExtensionality.functional_extensionality_dep",
    "proof_irrelevance", "ProofIrrelevance.proof_irrelevance", "JMeq_eq", "JMeq.JMeq_eq",
    "classic", "Classical_Prop.classic", "Eqdep.Eq_rect_eq.eq_rect_eq",
}

TRUSTED_BASE = [
    "Coq 8.16.1 kernel (coqc); vm_compute only for concrete witnesses; no native_compute",
    "axioms: none (Print Assumptions of every property theorem: Closed under the global context)",
    "extraction: ExtrOcamlBasic only (Extract Inductive bool/option/unit/list/prod/sumbool/sumor); no Extract Constant; N/positive/nat stay inductive; OCaml 4.13.1",
    "hand-written OCaml drivers (trace parser, printers, case bookkeeping) in /verif/ocaml",
    "Go director (/verif/harness): gating, dump, generators, canonicalisation; verif-tagged hooks in /repo (verif_on.go, export_verif.go)",
    "merge operator assumed total and deterministic (instantiated with string-append)",
    "modelled, not verified: sync.Mutex/Cond/channels, goroutine scheduling, os.File/mmap semantics, sort.Sort, container/heap, bytes.Compare",
]


def log(msg):
    sys.stderr.write(msg + "\n")
    sys.stderr.flush()


def sh(cmd, timeout=1200, cwd=None, env=None, inp=None):
    try:
        p = subprocess.run(cmd, cwd=cwd, env=env, input=inp, stdout=subprocess.PIPE,
                           stderr=subprocess.STDOUT, timeout=timeout, shell=isinstance(cmd, str))
        return p.returncode, p.stdout.decode("utf-8", "replace")
    except subprocess.TimeoutExpired as e:
        return 124, (e.stdout or b"").decode("utf-8", "replace") + "\nTIMEOUT"


class Lock:
    def __init__(self, path):
        self.path = path

    def __enter__(self):
        os.makedirs(os.path.dirname(self.path), exist_ok=True)
        self.f = open(self.path, "w")
        fcntl.flock(self.f, fcntl.LOCK_EX)
        return self

    def __exit__(self, *a):
        fcntl.flock(self.f, fcntl.LOCK_UN)
        self.f.close()


def newest_mtime(paths):
    m = 0
    for p in paths:
        if os.path.isdir(p):
            for root, _, files in os.walk(p):
                for f in files:
                    m = max(m, os.path.getmtime(os.path.join(root, f)))
        elif os.path.exists(p):
            m = max(m, os.path.getmtime(p))
    return m


# ----------------------------------------------------------------------------
# build

def build_coq():
    """Full .vo build of the development (incremental). Returns (ok, output)."""
    if not os.path.exists(os.path.join(COQ, "Makefile")) or \
            os.path.getmtime(os.path.join(COQ, "_CoqProject")) > os.path.getmtime(os.path.join(COQ, "Makefile")):
        rc, out = sh("coq_makefile -f _CoqProject -o Makefile", cwd=COQ)
        if rc != 0:
            return False, out
    rc, out = sh("make -j16", cwd=COQ, timeout=3000)
    return rc == 0, out


def build_ocaml():
    srcs = [os.path.join(VERIF, "ocaml", f) for f in os.listdir(os.path.join(VERIF, "ocaml"))
            if f.endswith((".ml", ".v", ".sh")) and f not in ("model.ml",)]
    vos = [os.path.join(COQ, f) for f in os.listdir(COQ) if f.endswith(".vo")]
    targets = [os.path.join(BUILD, t) for t in ("flatrun", "treerun", "indexrun", "rorun", "crashrun", "codecrun", "histrun", "histtreerun", "faultrun", "iterrun", "syncrun", "concrun", "refsrun", "ownersrun", "opsrun", "batchbufrun")]
    if all(os.path.exists(t) for t in targets) and \
            min(os.path.getmtime(t) for t in targets) > newest_mtime(srcs + vos):
        return True, "up to date"
    rc, out = sh("./build.sh", cwd=os.path.join(VERIF, "ocaml"), timeout=900)
    return rc == 0, out


def point_modules_at_repo():
    """A scratch copy of /verif testing a scratch copy of the repository (tools/try_seeded.py)."""
    if REPO != "/repo":
        for gm in (os.path.join(VERIF, "harness", "go.mod"), os.path.join(VERIF, "harness", "racework", "go.mod")):
            txt = open(gm).read()
            txt = re.sub(r"(github.com/couchbase/moss => )\S+", lambda m: m.group(1) + REPO, txt)
            open(gm, "w").write(txt)


def build_go():
    """Always rebuilt: the implementation under test is /repo's working tree."""
    shutil.copyfile(os.path.join(REPO, "go.sum"), os.path.join(VERIF, "harness", "go.sum"))
    point_modules_at_repo()
    rc, out = sh(["go", "build", "-tags", "verif", "-o", os.path.join(BUILD, "director"), "./director"],
                 cwd=os.path.join(VERIF, "harness"), env=GOENV, timeout=900)
    return rc == 0, out


def build_all(need_go=True):
    os.makedirs(BUILD, exist_ok=True)
    os.makedirs(WORK, exist_ok=True)
    res = {}
    with Lock(os.path.join(BUILD, "lock")):
        ok, out = build_coq()
        res["coq"] = (ok, out)
        if ok:
            ok2, out2 = build_ocaml()
            res["ocaml"] = (ok2, out2)
        if need_go:
            ok3, out3 = build_go()
            res["go"] = (ok3, out3)
    return res


# ----------------------------------------------------------------------------
# proof obligations

FORBIDDEN = re.compile(r"\b(Admitted|admit|Axiom|Axioms|Parameter|Parameters|Conjecture|Hypothesis|Variable|"
                       r"Unset\s+Guard|bypass_check|type-in-type|impredicative-set|Admit\s+Obligations)\b")


def scan_forbidden():
    """No Admitted/admit/Axiom/Parameter/... anywhere; Variable/Hypothesis only inside sections."""
    bad = []
    for root in (COQ, os.path.join(COQ, "props"), os.path.join(VERIF, "ocaml")):
        if not os.path.isdir(root):
            continue
        for f in sorted(os.listdir(root)):
            if not f.endswith(".v"):
                continue
            depth = 0
            for i, line in enumerate(open(os.path.join(root, f), encoding="utf-8"), 1):
                code = re.sub(r"\(\*.*?\*\)", "", line)
                if re.match(r"\s*Section\b", code):
                    depth += 1
                if re.match(r"\s*End\s+\w+\s*\.", code) and depth > 0:
                    depth -= 1
                m = FORBIDDEN.search(code)
                if m:
                    w = m.group(1)
                    if w in ("Variable", "Hypothesis") and depth > 0:
                        continue
                    if code.lstrip().startswith("(*"):
                        continue
                    bad.append("%s:%d: %s" % (f, i, line.strip()))
    return bad


def proof_obligations(pid):
    """Compile coq/props/<pid>.v; returns dict(obligations, discharged, axioms, ok, output, theorems)."""
    path = os.path.join(COQ, "props", pid + ".v")
    src = open(path, encoding="utf-8").read()
    theorems = re.findall(r"^Theorem\s+(\w+)", src, re.M)
    rc, out = sh(["coqc", "-Q", ".", "Moss", "props/%s.v" % pid], cwd=COQ, timeout=1200)
    closed = out.count("Closed under the global context")
    axioms = []
    for blk in re.findall(r"Axioms:\n((?:.+\n)+?)(?=\n|\Z)", out):
        for ln in blk.splitlines():
            m = re.match(r"(\S+)\s*:", ln)
            if m:
                axioms.append(m.group(1))
    bad_axioms = [a for a in axioms if a not in ALLOWED_AXIOMS and a.split(".")[-1] not in ALLOWED_AXIOMS]
    discharged = closed + out.count("Axioms:") if rc == 0 else 0
    if rc != 0:
        # theorems before the failing line are discharged
        m = re.search(r"line (\d+)", out)
        if m:
            upto = int(m.group(1))
            lines = src.splitlines()[:upto]
            discharged = max(0, len(re.findall(r"^Theorem\s+\w+", "\n".join(lines), re.M)) - 1)
    return dict(obligations=len(theorems), discharged=min(discharged, len(theorems)), axioms=axioms,
                bad_axioms=bad_axioms, ok=(rc == 0 and not bad_axioms and closed + out.count("Axioms:") >= len(theorems)),
                output=out, theorems=theorems)


def coqchk(pid):
    """Thorough tier: re-check the compiled libraries the property's theorems depend on with the
    independent checker and report the axioms it finds.  Returns (ok, summary)."""
    src = open(os.path.join(COQ, "props", pid + ".v"), encoding="utf-8").read()
    mods = []
    for m in re.finditer(r"From Moss Require Import ([^.]*)\.", src):
        for w in m.group(1).split():
            if w not in mods:
                mods.append(w)
    if not mods:
        return True, "no Moss library imported"
    rc, out = sh(["coqchk", "-silent", "-o", "-Q", ".", "Moss"] + ["Moss." + m for m in mods], cwd=COQ, timeout=3400)
    ax = re.search(r"\* Axioms:\s*(.*?)\n\s*\n", out, re.S)
    axioms = ax.group(1).strip() if ax else "?"
    ok = rc == 0 and axioms == "<none>" and "type-in-type: <none>" in out and "positivity is assumed: <none>" in out \
        and "unsafe (co)fixpoints: <none>" in out
    return ok, "coqchk -silent -o %s: rc=%d axioms=%s" % (" ".join(mods), rc, axioms) + ("" if ok else "\n" + out[-1200:])


# ----------------------------------------------------------------------------
# running the director and a model runner over generated cases

def split_cases(trace_path):
    """Yield (case_id, seed, lines) per case of a trace file."""
    cur, cid, seed = None, None, None
    with open(trace_path, encoding="utf-8", errors="replace") as f:
        for line in f:
            if line.startswith("(case "):
                if cur is not None:
                    yield cid, seed, cur
                parts = line.split(" ", 3)
                cid, seed = int(parts[1]), parts[2]
                cur = [line]
            elif cur is not None:
                cur.append(line)
    if cur is not None:
        yield cid, seed, cur


LABEL_RE = re.compile(r"^\(step (\((?:[^()]|\((?:[^()]|\((?:[^()]|\((?:[^()]|\([^()]*\))*\))*\))*\))*\))")


def case_labels(lines):
    out = [lines[0].split("(universe")[0]]
    for ln in lines[1:]:
        if ln.startswith("(step "):
            # the label is the first balanced s-expression after "(step "
            depth, i = 0, 6
            start = i
            while i < len(ln):
                if ln[i] == "(":
                    depth += 1
                elif ln[i] == ")":
                    depth -= 1
                    if depth == 0:
                        break
                i += 1
            out.append(ln[start:i + 1])
    return out


def run_family(family, mode, n, labels, seed, runner, workdir, extra=None, jobs=JOBS, only=None):
    """Run `n` generated cases of a director family split over `jobs` processes, then the model
    runner over the traces.  Returns a list of case dicts and the merged label histogram.
    `only=(count, director_seed)` reruns exactly one shard of an earlier run (replay)."""
    os.makedirs(workdir, exist_ok=True)
    per = max(1, (n + jobs - 1) // jobs)
    shards = []
    for j in range(jobs):
        cnt = min(per, n - j * per)
        if cnt <= 0:
            break
        shards.append((j, cnt, seed * 131 + j))
    if only is not None:
        shards = [(0, only[0], only[1])]
    procs = []
    rerun = {}
    for j, cnt, dseed in shards:
        tr = os.path.join(workdir, "%s-%s-%d.trace" % (family, mode, j))
        cmd = [os.path.join(BUILD, "director"), family, "-mode", mode, "-n", str(cnt), "-labels", str(labels),
               "-seed", str(dseed), "-out", tr, "-work", os.path.join(workdir, "w%d" % j)] + (extra or [])
        rerun[tr] = dict(family=family, mode=mode, n=cnt, labels=labels, dseed=dseed, runner=runner, extra=extra or [])
        procs.append((tr, subprocess.Popen(cmd, stdout=subprocess.PIPE, stderr=subprocess.PIPE)))
    hist, harness_errors, traces = {}, [], []
    for tr, p in procs:
        try:
            _, err = p.communicate(timeout=3000 if n > 1500 else 900)
        except subprocess.TimeoutExpired:
            p.kill()
            _, err = p.communicate()
            harness_errors.append("director timeout")
        err = err.decode("utf-8", "replace")
        m = re.search(r"labels: map\[(.*?)\]", err)
        if m:
            for kv in m.group(1).split():
                k, v = kv.split(":")
                hist[k] = hist.get(k, 0) + int(v)
        for ln in err.splitlines():
            if ln.startswith("case ") or "panic" in ln or ln.startswith("director:"):
                harness_errors.append(ln)
        traces.append(tr)
    cases = []
    for tr in traces:
        if not os.path.exists(tr):
            continue
        # the extracted model works on lists (a data file is a list of bytes): give the runner the
        # stack it needs instead of the shell's default 8 MB
        rc, out = sh("ulimit -s unlimited 2>/dev/null || ulimit -s 1000000; exec %s %s"
                     % (os.path.join(BUILD, runner), tr), timeout=3000)
        verdicts = {}
        cur_mis = {}
        last = None
        for ln in out.splitlines():
            if ln.startswith("CASE "):
                m = re.match(r"CASE (\d+) seed=(\S+) (\S+)(.*)", ln)
                verdicts[int(m.group(1))] = (m.group(3), m.group(4))
            elif ln.startswith("MISMATCH ") or ln.startswith("HARNESS-ERROR") or ln.startswith("DRIVER-ERROR"):
                m = re.search(r"case=(\d+)", ln)
                cid = int(m.group(1)) if m else -1
                km = re.search(r"kinds=(\S+)", ln)
                kinds = km.group(1).split(",") if km else [ln.split()[0].lower()]
                sm = re.search(r"step=(\d+)", ln)
                lm = re.search(r"label=(\S+)", ln)
                last = dict(step=int(sm.group(1)) if sm else -1, label=lm.group(1) if lm else "", kinds=kinds, detail=[ln])
                cur_mis.setdefault(cid, []).append(last)
            elif ln.startswith("  ") and last is not None:
                last["detail"].append(ln)
        if rc != 0:
            harness_errors.append("runner %s failed on %s: %s" % (runner, tr, out[-300:]))
        for cid, seed_s, lines in split_cases(tr):
            v = verdicts.get(cid, ("MISSING", ""))
            labs = case_labels(lines)
            info = dict(case=cid, seed=seed_s, verdict=v[0], info=v[1].strip(), trace=tr, lines=lines,
                        labels=labs, mismatches=cur_mis.get(cid, []), rerun=rerun.get(tr),
                        digest=hashlib.sha1("\n".join(labs).encode()).hexdigest())
            m = re.search(r"nontrivial=(\d+)", v[1])
            info["nontrivial"] = int(m.group(1)) if m else 0
            m = re.search(r"steps=(\d+)", v[1])
            info["steps"] = int(m.group(1)) if m else 0
            cases.append(info)
    return cases, hist, harness_errors


# ----------------------------------------------------------------------------
# known findings

def load_known():
    path = os.path.join(VERIF, "known_findings.jsonl")
    out = []
    if os.path.exists(path):
        for ln in open(path, encoding="utf-8"):
            ln = ln.strip()
            if ln and not ln.startswith("#"):
                out.append(json.loads(ln))
    return out


def sig_nilmerge_iter(case, mis):
    """An iterator yields a key whose merged value is nil (FullMerge returned nil) while Get reports
    it absent: the trace contains the nil-making operand and only iteration observations differ."""
    text = "".join(case["lines"])
    if " x21)" not in text:
        return False
    return all(k in ("model:iter", "spec:iter") or re.match(r"(model|spec):held\d+", k) for k in mis["kinds"])


def sig_child_existence(case, mis):
    """Zero gauges while the store does not yet reflect the mere creation of an empty child
    collection or the deletion of one (no key's value differs)."""
    return "tspec:zero-gauges-child-existence" in mis["kinds"] and \
        "tspec:zero-gauges-unpersisted" not in mis["kinds"] and \
        not any(k.startswith("tmodel:") for k in mis["kinds"])


def sig_first_round(case, mis):
    """Crash before the very first persistence round completed: the directory holds a data file
    without any footer and cannot be opened (expected: open as empty)."""
    return "spec:first-round-unopenable" in mis["kinds"] and not any(k.startswith("model:") for k in mis["kinds"])


def sig_nosync_partial_writeback(case, mis):
    """Mixed workload (synced rounds, then rounds with StorePersistOptions.NoSync), machine crash in the
    NoSync phase with SOME of the un-synced pages written back: a NoSync round's footer is written without
    the barrier, so it can be on disk without its data."""
    return all(k.endswith("-nosync-partial-writeback") for k in mis["kinds"]) and len(mis["kinds"]) > 0


def sig_sync_opted_out(case, mis):
    """Mixed workload whose NoSync phase runs a full compaction while every compaction sync was switched
    off explicitly (CompactionSync false, CompactionSyncAfterBytes < 0): the new file is never synced and
    the old one, which held the synced rounds, is unlinked."""
    return all(k.endswith("-sync-opted-out") for k in mis["kinds"]) and len(mis["kinds"]) > 0


def sig_stale_handle(case, mis):
    """NewBatch with a small capacity, Alloc, a plain Set/Del/Merge that outgrows the capacity (append moves
    buf), then AllocSet/AllocDel/AllocMerge of the handle obtained before: keyStart := cap(buf) - cap(key)
    is computed against the NEW array."""
    return mis["kinds"] == ["spec:batchbuf-stale-handle"]


def sig_file_switch(case, mis):
    """A round kept nothing of the old footer (every collection with persisted data was dropped),
    the store started a new data file without compacting, and the old file was never unlinked."""
    return mis["kinds"] == ["spec:stale-files-after-file-switch"]


def sig_ops_two_failures(case, mis):
    """A full compaction whose footer phase failed AND whose clean-up Stat (removeFileOnClose of the
    new file) failed too leaves a newer file with a complete footer; rounds committed to the older
    file afterwards are lost by the next OpenStore."""
    text = " ".join(mis["detail"])
    return mis["kinds"] == ["spec:ops-lost-after-reopen"] and "SRmStat" in text and "OpenStore: serves file" in text


def sig_ops_first_round(case, mis):
    """No round ever committed (failures in the first rounds): the header-only first file makes the
    directory unopenable - F5 reached by I/O failures and a clean Close instead of a crash."""
    text = " ".join(mis["detail"])
    return mis["kinds"] == ["spec:ops-lost-after-reopen"] and "committed rounds ()" in text and "OpenStore: error" in text


SIGNATURES = {"stale-files-after-file-switch": sig_file_switch, "ops-two-failures-stale-newer-file": sig_ops_two_failures,
              "ops-first-round-unopenable": sig_ops_first_round, "first-round-unopenable": sig_first_round, "nosync-partial-writeback": sig_nosync_partial_writeback,
              "compaction-sync-opted-out": sig_sync_opted_out, "batchbuf-stale-handle": sig_stale_handle, "nilmerge-iter": sig_nilmerge_iter, "zero-gauges-child-existence": sig_child_existence}


def match_known(pid, case, mis, known):
    for k in known:
        if k.get("status") != "known" or pid not in k.get("properties", [k.get("property")]):
            continue
        f = SIGNATURES.get(k.get("signature"))
        if f and f(case, mis):
            return k
    return None


# ----------------------------------------------------------------------------
# evidence and verdict

def write_replay(pid, case, why, extra=None):
    os.makedirs(REPLAYS, exist_ok=True)
    path = os.path.join(REPLAYS, "%s-seed%s-case%d.replay" % (pid, case.get("seed", "x"), case.get("case", 0)))
    with open(path, "w", encoding="utf-8") as f:
        f.write("; property %s\n; %s\n" % (pid, why))
        if case.get("rerun"):
            # everything `check <ID> --replay <this file>` needs to regenerate and re-execute the case
            f.write("; rerun %s\n" % json.dumps(dict(case.get("rerun"), case=case.get("case", 0))))
        for m in case.get("mismatches", [])[:6]:
            for d in m["detail"][:8]:
                f.write("; " + d[:2000] + "\n")
        if extra:
            f.write("; " + extra + "\n")
        f.writelines(case.get("lines", []))
    return path


def read_replay(path):
    """Returns (rerun dict or None, recorded trace lines) of a replay file."""
    rerun, lines = None, []
    with open(path, encoding="utf-8", errors="replace") as f:
        for ln in f:
            if ln.startswith("; rerun "):
                try:
                    rerun = json.loads(ln[len("; rerun "):])
                except ValueError:
                    rerun = None
            elif not ln.startswith(";"):
                lines.append(ln)
    return rerun, lines


def write_replay_text(pid, name, text):
    os.makedirs(REPLAYS, exist_ok=True)
    path = os.path.join(REPLAYS, "%s-%s.replay" % (pid, name))
    with open(path, "w", encoding="utf-8") as f:
        f.write(text)
    return path


def write_evidence(pid, tier, seed, level, coverage, assumptions, wall, violations):
    os.makedirs(EVID, exist_ok=True)
    ev = dict(property_id=pid, tier=tier, seed=seed, level=level, coverage=coverage,
              assumptions=assumptions, wall_s=round(wall, 2), violations=violations)
    tmp = os.path.join(EVID, pid + ".json.tmp")
    with open(tmp, "w", encoding="utf-8") as f:
        json.dump(ev, f, indent=1)
    os.replace(tmp, os.path.join(EVID, pid + ".json"))


def sample_of(case, maxlabels=14):
    return dict(seed=case["seed"], case=case["case"], verdict=case["verdict"],
                labels=[l[:160] for l in case["labels"][:maxlabels]])


def main(argv):
    from properties import PROPS, run_property
    ap = argparse.ArgumentParser(prog="check")
    ap.add_argument("pid")
    ap.add_argument("--tier", default=os.environ.get("VERIF_TIER", "quick"), choices=["quick", "thorough"])
    ap.add_argument("--replay", default=None)
    a = ap.parse_args(argv)
    if a.pid not in PROPS:
        print("unknown property", a.pid)
        return 2
    seed = int(os.environ.get("VERIF_SEED", "1"))
    return run_property(a.pid, a.tier, seed, a.replay)
