(* Prefix.v — ghost bookkeeping for "how much of the batch history has reached
   which section": a <= b <= d <= |h| with
     lower level            reads as the reference after the first a batches,
     base over it           ... after the first b,
     mid over base over it  ... after the first d,
   (top over all of it: the whole history — CollectionFacts.inv_view).
   The ghost is computed from the labels alone; it never influences the model. *)
From Coq Require Import List NArith Bool Lia Arith.
From Moss Require Import Bytes BytesFacts Segment SegmentFacts Stack StackFacts
     Collection CollectionFacts.

Record ghost := { ga : nat; gb : nat; gd : nat }.

Definition ghost0 : ghost := {| ga := 0; gb := 0; gd := 0 |}.

(* hlen = number of batches executed before this label *)
Definition gstep (c : cfg) (s : cstate) (hlen : nat) (g : ghost) (lb : label) : ghost :=
  match lb with
  | LIngest => {| ga := ga g; gb := gb g; gd := hlen |}
  | LHandover =>
      match base s, mid s with
      | None, Some _ => if has_ll c then {| ga := ga g; gb := gd g; gd := gd g |} else g
      | _, _ => g
      end
  | LPPublish _ => {| ga := gb g; gb := gb g; gd := gd g |}
  | _ => g
  end.

Section WithMerge.
  Variable fm : bytes -> value -> bytes -> value.
  Notation sget := (sget fm).
  Notation llv := (llv fm).
  Notation step := (step fm).
  Notation ref_from := (ref_from fm).

  Fixpoint grun (c : cfg) (s : cstate) (hlen : nat) (g : ghost) (ls : list label)
    : option (cstate * ghost) :=
    match ls with
    | [] => Some (s, g)
    | lb :: r =>
        match step c s lb with
        | Some s' => grun c s' (hlen + length (label_batches lb)) (gstep c s hlen g lb) r
        | None => None
        end
    end.

  Lemma grun_run c s hlen g ls s' g' :
    grun c s hlen g ls = Some (s', g') -> run fm c s ls = Some s'.
  Proof.
    revert s hlen g. induction ls as [|lb r IH]; simpl; intros s hlen g H.
    - now injection H as <- <-.
    - destruct (step c s lb); [|discriminate]. eauto.
  Qed.

  Lemma run_grun c s hlen g ls s' :
    run fm c s ls = Some s' -> exists g', grun c s hlen g ls = Some (s', g').
  Proof.
    revert s hlen g. induction ls as [|lb r IH]; simpl; intros s hlen g H.
    - injection H as <-. eauto.
    - destruct (step c s lb); [|discriminate]. eauto.
  Qed.

  Record PInv (m0 : bytes -> value) (h : list segment) (s : cstate) (g : ghost) : Prop := {
    p_ord : ga g <= gb g /\ gb g <= gd g /\ gd g <= length h;
    p_ll : forall k, llv (ll s) k = ref_from m0 (firstn (ga g) h) k;
    p_base : forall k, sget (olist (base s)) (llv (ll s)) k = ref_from m0 (firstn (gb g) h) k;
    p_mid : forall k, sget (olist (mid s) ++ olist (base s)) (llv (ll s)) k
                      = ref_from m0 (firstn (gd g) h) k;
    p_nobase : base s = None -> ga g = gb g
  }.

  Lemma firstn_app_le {A} n (l1 l2 : list A) : n <= length l1 -> firstn n (l1 ++ l2) = firstn n l1.
  Proof.
    intros H. rewrite firstn_app. replace (n - length l1) with 0 by lia.
    simpl. now rewrite app_nil_r.
  Qed.

  Lemma pinv_init l : PInv (llv l) [] (init l) ghost0.
  Proof. constructor; simpl; auto. Qed.

  Lemma pinv_same m0 h s s' g :
    mid s' = mid s -> base s' = base s -> ll s' = ll s ->
    PInv m0 h s g -> PInv m0 h s' g.
  Proof.
    intros E2 E3 E5 [Ho Hl Hb Hm Hn]. constructor; rewrite ?E2, ?E3, ?E5; auto.
  Qed.

  Theorem step_pinv c m0 h s g lb s' :
    closed s = false -> InvOpen fm c m0 h s -> PInv m0 h s g ->
    step c s lb = Some s' ->
    closed s' = true \/ PInv m0 (h ++ label_batches lb) s' (gstep c s (length h) g lb).
  Proof.
    intros Ecl HI [Ho Hl Hb Hm Hn] Hs.
    unfold Collection.step in Hs. rewrite Ecl in Hs.
    destruct Ho as [Hab [Hbd Hdh]].
    assert (Hf : forall n x, n <= length h -> firstn n (h ++ x) = firstn n h)
      by (intros; apply firstn_app_le; auto).
    destruct lb; simpl label_batches; simpl gstep; rewrite ?app_nil_r.
    - (* LBatch *)
      destruct (uniq_keys (keys b) && negb (Nat.eqb (length b) 0)); [|discriminate].
      injection Hs as <-. right. constructor; simpl; auto.
      + rewrite app_length; simpl; lia.
      + intros k. rewrite Hf by lia. auto.
      + intros k. rewrite Hf by lia. auto.
      + intros k. rewrite Hf by lia. auto.
    - (* LIngest *)
      destruct (merger s); try discriminate. injection Hs as <-.
      right. constructor; simpl; auto.
      + lia.
      + intros k. rewrite firstn_all. rewrite <- (inv_view _ _ _ _ _ HI k).
        unfold dirty. now rewrite <- app_assoc.
    - (* LSwap *)
      destruct (merger s) as [|mb ml|] eqn:Em; try discriminate.
      destruct (Nat.ltb lvl (length (olist (mid s))) || Nat.eqb (length (olist (mid s))) 0);
        [|discriminate].
      injection Hs as <-. right. constructor; simpl; auto.
      intros k. rewrite <- (Hm k). rewrite !sget_app.
      pose proof (inv_mcap _ _ _ _ _ HI) as Hc. rewrite Em in Hc.
      destruct (olist (mid s)) as [|x xs] eqn:Eo; auto.
      destruct (Nat.ltb lvl (length (x :: xs))); auto.
      rewrite (merge_stack_ext fm lvl (x :: xs) _ (sget (olist (base s)) (llv (ll s)))) by (intros; apply Hc).
      apply merge_stack_view.
    - (* LHandover *)
      assert (HP0 : PInv m0 h s g) by (constructor; auto).
      destruct (merger s); try discriminate.
      destruct (base s) eqn:Eb, (mid s) eqn:Emid;
        try (injection Hs as <-; right; apply (pinv_same m0 h s); simpl; auto; fail).
      destruct (has_ll c); injection Hs as <-; right.
      + constructor; simpl; auto.
        * lia.
        * intros k. rewrite <- (Hm k). rewrite ?Eb, ?Emid. simpl. rewrite ?app_nil_r. reflexivity.
        * intros k. rewrite <- (Hm k). rewrite ?Eb, ?Emid. simpl. rewrite ?app_nil_r. reflexivity.
        * discriminate.
      + apply (pinv_same m0 h s); simpl; auto.
    - (* LPBegin *)
      assert (HP0 : PInv m0 h s g) by (constructor; auto).
      destruct (persister s); try discriminate.
      destruct (base s) eqn:Eb; try discriminate.
      destruct (has_ll c); try discriminate. injection Hs as <-.
      right. apply (pinv_same m0 h s); simpl; auto.
    - (* LPPublish *)
      destruct (persister s); try discriminate.
      destruct (base s) as [b|] eqn:Eb; try discriminate.
      destruct (publish_ok fm b (ll s) ll') eqn:G; [|discriminate].
      injection Hs as <-. pose proof (publish_ok_spec fm _ _ _ G) as Hp.
      right. constructor; simpl; try lia; auto.
      + intros k. rewrite Hp. rewrite <- (Hb k). rewrite ?Eb. reflexivity.
      + intros k. rewrite Hp. rewrite <- (Hb k). rewrite ?Eb. reflexivity.
      + intros k. rewrite <- (Hm k). rewrite ?Eb. simpl. rewrite app_nil_r, sget_app. simpl.
        apply sget_ext. apply Hp.
    - (* LPFail *)
      assert (HP0 : PInv m0 h s g) by (constructor; auto).
      destruct (persister s); try discriminate. injection Hs as <-.
      right. apply (pinv_same m0 h s); simpl; auto.
    - (* LSnap *)
      assert (HP0 : PInv m0 h s g) by (constructor; auto).
      injection Hs as <-. right. apply (pinv_same m0 h s); simpl; auto.
    - (* LClose *)
      injection Hs as <-. left. reflexivity.
  Qed.

  Theorem grun_pinv c l ls s g :
    grun c (init l) 0 ghost0 ls = Some (s, g) -> closed s = false ->
    PInv (llv l) (batches ls) s g.
  Proof.
    assert (G : forall ls h s0 g0 s g,
               closed s0 = false -> InvOpen fm c (llv l) h s0 -> PInv (llv l) h s0 g0 ->
               grun c s0 (length h) g0 ls = Some (s, g) -> closed s = false ->
               PInv (llv l) (h ++ batches ls) s g).
    { induction ls0 as [|lb r IH]; intros h s0 g0 s1 g1 Ecl HI HP Hr Hcl; simpl in Hr.
      - injection Hr as <- <-. simpl. now rewrite app_nil_r.
      - destruct (step c s0 lb) as [s'|] eqn:Es; [|discriminate].
        rewrite batches_cons, app_assoc.
        pose proof (step_inv fm c (llv l) h s0 lb s' (or_intror HI) Es) as HI'.
        pose proof (step_pinv c (llv l) h s0 g0 lb s' Ecl HI HP Es) as HP'.
        destruct (closed s') eqn:Ecl'.
        + (* closed: no further step is possible; r must be empty or the run fails *)
          destruct r as [|lb2 r2]; simpl in Hr.
          * injection Hr as <- <-. congruence.
          * unfold Collection.step in Hr. rewrite Ecl' in Hr. discriminate.
        + destruct HI' as [?|HI']; [congruence|]. destruct HP' as [?|HP']; [congruence|].
          apply (IH (h ++ label_batches lb) s' (gstep c s0 (length h) g0 lb) s1 g1); auto.
          rewrite app_length. exact Hr. }
    intros Hr Hcl.
    apply (G ls [] (init l) ghost0 s g); auto.
    - pose proof (inv_init fm c l) as [H|H]; [discriminate|exact H].
    - apply pinv_init.
  Qed.

  (* the persisted prefix never shrinks: ga only ever moves to gb >= ga *)
  Lemma gstep_monotone c m0 h s g lb :
    PInv m0 h s g -> ga g <= ga (gstep c s (length h) g lb).
  Proof.
    intros [[Hab _] _ _ _ _]. destruct lb; simpl; auto.
    destruct (base s), (mid s); auto. destruct (has_ll c); auto.
  Qed.
End WithMerge.
