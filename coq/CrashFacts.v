From Coq Require Import List Bool Arith Lia.
From Moss Require Import Crash.

(* while scanning with dirty = false at position n, every earlier write has a sync behind it *)
Definition all_synced_before (tr : list cop) (n : nat) : Prop :=
  forall i, i < n -> is_write_at tr i = true -> sync_between tr (S i) n = true.

Lemma sync_between_app_sync pre suf i n :
  length pre = n -> i <= n -> sync_between (pre ++ CSync :: suf) i (S n) = true.
Proof.
  intros Hl Hi. unfold sync_between. apply existsb_exists. exists CSync. split; auto.
  replace (S n - i) with (S (n - i)) by lia.
  assert (E : skipn i (pre ++ CSync :: suf) = skipn i pre ++ CSync :: suf).
  { rewrite skipn_app. replace (i - length pre) with 0 by lia. reflexivity. }
  rewrite E. rewrite firstn_app.
  assert (Hs : length (skipn i pre) = n - i) by (rewrite skipn_length; lia).
  rewrite Hs. replace (S (n - i) - (n - i)) with 1 by lia.
  apply in_or_app. right. simpl. auto.
Qed.

Lemma in_firstn {A} n (l : list A) x : In x (firstn n l) -> In x l.
Proof.
  revert l; induction n as [|n IH]; intros [|a l] H; simpl in *; auto; try tauto.
  destruct H as [->|H]; auto.
Qed.

Lemma sync_between_mono tr i j k : j <= k -> sync_between tr i j = true -> sync_between tr i k = true.
Proof.
  unfold sync_between. intros Hjk H. apply existsb_exists in H. destruct H as [o [Hin Ho]].
  apply existsb_exists. exists o. split; auto.
  assert (E : firstn (j - i) (skipn i tr) = firstn (j - i) (firstn (k - i) (skipn i tr))).
  { rewrite firstn_firstn. f_equal. lia. }
  rewrite E in Hin. apply in_firstn in Hin. exact Hin.
Qed.

(* the scan invariant: with the ops before position n being `pre`,
   dirty = false means every write in pre is followed by a sync within pre *)
Lemma barrier_from_footer_synced :
  forall suf pre dirty,
    barrier_from dirty suf = true ->
    (dirty = false -> all_synced_before (pre ++ suf) (length pre)) ->
    forall i, is_footer_at (pre ++ suf) i = true -> length pre <= i ->
      all_synced_before (pre ++ suf) i.
Proof.
  induction suf as [|o suf IH]; intros pre dirty Hb Hd i Hf Hi.
  - unfold is_footer_at in Hf. rewrite app_nil_r in Hf.
    rewrite (proj2 (nth_error_None pre i)) in Hf by lia. discriminate.
  - assert (Eapp : pre ++ o :: suf = (pre ++ [o]) ++ suf) by (rewrite <- app_assoc; reflexivity).
    assert (Hlen : length (pre ++ [o]) = S (length pre)) by (rewrite app_length; simpl; lia).
    destruct (Nat.eq_dec i (length pre)) as [->|Hne].
    + (* the footer is o itself *)
      unfold is_footer_at in Hf. rewrite nth_error_app2 in Hf by lia.
      rewrite Nat.sub_diag in Hf. simpl in Hf.
      destruct o as [[|]|]; try discriminate.
      simpl in Hb. apply andb_true_iff in Hb. destruct Hb as [Hdirty _].
      apply Hd. now destruct dirty.
    + rewrite Eapp in *. 
      destruct o as [[|]|]; simpl in Hb.
      * apply andb_true_iff in Hb. destruct Hb as [_ Hb].
        apply (IH (pre ++ [CWrite true]) true Hb); [discriminate| exact Hf | lia].
      * apply (IH (pre ++ [CWrite false]) true Hb); [discriminate| exact Hf | lia].
      * apply (IH (pre ++ [CSync]) false Hb); [| exact Hf | lia].
        intros _ j Hj Hw. rewrite Hlen in *. rewrite <- Eapp.
        apply sync_between_app_sync; auto. 
        destruct (Nat.eq_dec j (length pre)) as [->|]; [|lia].
        exfalso. unfold is_write_at in Hw. rewrite <- Eapp in Hw.
        rewrite nth_error_app2 in Hw by lia. rewrite Nat.sub_diag in Hw. discriminate.
Qed.

(* C05, write ordering: if the trace keeps the barrier, then in EVERY crash
   image — any crash point, any subset / tearing of the un-synced writes — a
   footer that is completely on disk has everything that was written before it
   completely on disk too.  So a footer the backward scan accepts never points
   at missing bytes, and the content it serves is the content of a completed
   round. *)
Theorem complete_footer_has_its_data tr p present i j :
  barrier_ok tr = true -> legal_image tr p present ->
  is_footer_at tr i = true -> present i = true ->
  j < i -> is_write_at tr j = true -> present j = true.
Proof.
  intros Hb [Hl1 Hl2] Hf Hp Hj Hw.
  assert (Hip : i < p).
  { destruct (Nat.lt_ge_cases i p); auto. rewrite (Hl2 i) in Hp by lia. discriminate. }
  pose proof (barrier_from_footer_synced tr [] false Hb) as H. simpl in H.
  assert (Hall : all_synced_before tr i).
  { apply H; auto; try lia. intros _ k Hk. lia. }
  apply Hl1; [lia|]. apply (sync_between_mono tr (S j) i p); [lia|]. apply Hall; auto.
Qed.

(* without the barrier the statement is false: footer on disk, data not *)
Theorem no_barrier_refuted :
  exists tr p present i j,
    legal_image tr p present /\ is_footer_at tr i = true /\ present i = true /\
    j < i /\ is_write_at tr j = true /\ present j = false.
Proof.
  exists [CWrite false; CWrite true; CSync], 2, (fun i => Nat.eqb i 1), 1, 0.
  repeat split; auto.
  - intros i Hi Hs. destruct i as [|[|i]]; simpl in *; try discriminate; try lia; auto.
  - intros i Hi. destruct i as [|[|i]]; try lia. reflexivity.
Qed.

(* non-vacuity: the trace of an ordinary round keeps the barrier *)
Example barrier_holds_for_a_round :
  barrier_ok [CWrite false; CWrite false; CSync; CWrite true; CSync; CWrite false; CSync; CWrite true; CSync] = true.
Proof. reflexivity. Qed.
