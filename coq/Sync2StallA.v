(* Sync2StallA.v - measures, tactics and the persister's part of the no-stall theorem for
   data at rest (Sync2.v).  The merger's cases are in Sync2StallB/C.v (checked in
   parallel); Sync2Stall.v assembles the theorems. *)
From Coq Require Import List Arith Bool Lia.
Import ListNotations.
From Moss Require Import Sync2 Sync2Facts Sync2ProgressA Sync2Progress.

(* ------------------------------------------------------------------ *)
(* measures (they do not depend on the configuration) *)

(* something is dirty: the gauges are non-zero *)
Definition dirty (s : state) : bool := (0 <? z_top s) || z_mid s || z_base s.
(* the gauges are zero: nothing in stackDirtyTop, stackDirtyMid, stackDirtyBase *)
Definition gauges_zero (s : state) : Prop :=
  z_top s = 0 /\ z_mid s = false /\ z_base s = false.

(* persister: steps until it has published the round on stackDirtyBase (weights leave
   room for the wake-up term of a sleeping merger, which counts again after the publish) *)
Definition dPb (s : state) : nat :=
  match z_pp s with
  | PPublish => 3 | PUpdate => 4 | PChk => 5 | PTop | PWoken => 6 | PCloseOut _ => 7
  | _ => 8 end.
(* a sleeping merger that nothing wakes yet: the persister's steps up to its ping *)
Definition wk (s : state) : nat := if wakeable s || z_base s then 0 else dPp s.
(* the dirty-limit wait: the persister's close of the outgoing channel *)
Definition ow (s : state) : nat := if z_oready s then 0 else 1.
(* merger: steps until the hand-over / until the ingest *)
Definition dHo (s : state) : nat :=
  match z_mp s with
  | MHandover => 1 | MMerge => 2 | MIngest => 3 | MDrain => 4
  | MSelect => 5 + wk s | MCheck => 11 | MReply => 12 | MWaitOut _ => 13 + ow s
  | _ => 0 end.
Definition dIn (s : state) : nat :=
  match z_mp s with
  | MIngest => 1 | MDrain => 2 | MSelect => 3 + wk s | MCheck => 9 | MReply => 10
  | MWaitOut _ => 11 + ow s | MHandover => 13 | MMerge => 14
  | _ => 0 end.
Definition mu_g (s : state) : nat :=
  (if 0 <? z_top s then 40 + dIn s else if z_mid s then dHo s else 0)
  + (if z_mid s then 10 else 0)
  + (if z_base s then dPb s else 0).

Lemma dPp_bound s : dPp s <= 5.
Proof. unfold dPp. destruct (z_pp s); lia. Qed.
Lemma wk_bound s : wk s <= 5.
Proof. unfold wk. pose proof (dPp_bound s). destruct (wakeable s || z_base s); lia. Qed.
Lemma dIn_bound s : dIn s <= 14.
Proof. unfold dIn, ow. pose proof (wk_bound s). destruct (z_mp s); destruct (z_oready s); lia. Qed.
Lemma dHo_bound s : dHo s <= 14.
Proof. unfold dHo, ow. pose proof (wk_bound s). destruct (z_mp s); destruct (z_oready s); lia. Qed.
Lemma dPb_bound s : dPb s <= 8.
Proof. unfold dPb. destruct (z_pp s); lia. Qed.

Lemma mu_g_bound s : mu_g s <= 72.
Proof.
  unfold mu_g. pose proof (dIn_bound s). pose proof (dHo_bound s). pose proof (dPb_bound s).
  destruct (0 <? z_top s), (z_mid s), (z_base s); lia.
Qed.

Lemma nsync_app q b : nsync (q ++ [b]) = nsync q + (if b then 1 else 0).
Proof. induction q as [|x r IH]; simpl; [lia|]. rewrite IH. lia. Qed.

Ltac rwf := repeat match goal with
  | H : z_mid _ = _ |- _ => rewrite H in *
  | H : z_base _ = _ |- _ => rewrite H in *
  | H : z_incc _ = _ |- _ => rewrite H in *
  | H : z_hp _ = _ |- _ => rewrite H in *
  | H : z_armed _ = _ |- _ => rewrite H in *
  | H : z_oready _ = _ |- _ => rewrite H in *
  | H : c_ll _ = _ |- _ => rewrite H in *
  | H : (0 <? z_top _) = _ |- _ => rewrite H in *
  | H : z_top _ = 0 |- _ => rewrite H in *
  end.
Ltac kill := try discriminate; try congruence.
Ltac norm := zs; rwf; rewrite ?Nat.ltb_irrefl, ?Nat.eqb_refl, ?orb_true_r, ?andb_false_r in *;
  cbn [negb orb andb nsync length app] in *.
Ltac one_case := match goal with
  | |- context[match z_pp ?x with _ => _ end] => let E := fresh "E" in destruct (z_pp x) eqn:E
  | |- context[match z_out ?x with _ => _ end] => let E := fresh "E" in destruct (z_out x) eqn:E
  | |- context[match z_q ?x with _ => _ end] => let E := fresh "E" in destruct (z_q x) eqn:E
  | |- context[if ?x then _ else _] => let E := fresh "E" in destruct x eqn:E
  | |- context[match z_mp ?x with _ => _ end] => let E := fresh "E" in destruct (z_mp x) eqn:E
  end.
(* first the shape of the new state is decided, only then the measure is unfolded *)
Ltac gdec_with unf := subst; kill; cbv zeta; unfold room, writer_enter, broadcast_top, broadcast_base in *;
  rwall; inj; norm; kill;
  repeat (one_case; kill; norm; kill);
  unf; norm; kill; try lia;
  repeat (one_case; kill; norm; kill; try lia);
  try (exfalso; b2p; kill; lia).
Ltac gdec := gdec_with ltac:(unfold mu_g, dIn, dHo, wk, ow, dPb, dPp, wakeable).
Ltac gintro :=
  match goal with |- _ -> _ =>
    let X := fresh "X" in intros X;
    destruct X as (I & K & Ll & Cl & NP0); unfold inv in I; unfold invK in K;
    destruct K as [K1 K2]
  end.

Section StallA.
Variable c : config.
Hypothesis cap_pos : 1 <= c_cap c.
Hypothesis qcap_pos : 1 <= c_qcap c.

(* no call is made by a background step: "no caller is pending" is stable *)
Lemma bg_keeps_not_pending s l s' :
  step c s l = Some s' -> bg l = true -> ~ pending s -> ~ pending s'.
Proof.
  intros H B NP.
  assert (NP0 : z_wwait s + z_wwoken s + z_wclcur s + z_wclold s + z_nsyn s + z_nasy s
                + nsync (z_q s) + z_pongs s = 0) by (unfold pending in NP; lia).
  clear NP. unfold pending.
  destruct l; try discriminate B; step_cases H;
  unfold writer_enter, broadcast_base, broadcast_top, room in *; zs.
  all: try (match goal with H : orphan_nth _ _ = Some _ |- _ =>
              apply orphan_nsync in H; destruct H as [H _]; lia end).
  all: b2p; try lia.
  all: goal_cases; zs; rewrite ?nsync_app; cbn [nsync] in *; try lia.
Qed.

(* the situation of the no-stall theorem: proved invariants, a lower level, open, no
   caller pending *)
Definition gctx (s : state) : Prop :=
  inv c s /\ invK c s /\ c_ll c = true /\ z_closed s = false /\
  z_wwait s + z_wwoken s + z_wclcur s + z_wclold s + z_nsyn s + z_nasy s
    + nsync (z_q s) + z_pongs s = 0.
Definition ggoal (s : state) : Prop :=
  exists l s', bg l = true /\ step c s l = Some s' /\ mu_g s' < mu_g s.

(* stackDirtyBase is set: the persister's round is enabled step by step, whatever the
   merger is doing, and ends with the publish *)
Ltac gb s Hb Epp := unfold mu_g, dIn, dHo, wk, ow, dPb; zs; rewrite ?Hb, ?Epp; rewrite ?orb_true_r;
  destruct (0 <? z_top s), (z_mid s); lia.
Lemma g_base s : gctx s -> z_base s = true -> ggoal s.
Proof.
  gintro. intros Hb. unfold ggoal.
  assert (Lk : z_lk s = false) by apply I.
  destruct (z_pp s) eqn:Epp.
  - exists LPTop, (set_pp PChk s). split; [reflexivity|]. split.
    { unfold step, step_gen, guard. rewrite Epp, Lk, Hb. reflexivity. }
    gb s Hb Epp.
  - exfalso. sat. congruence.
  - exists LPTop, (set_pp PChk s). split; [reflexivity|]. split.
    { unfold step, step_gen, guard. rewrite Epp, Lk, Hb. reflexivity. }
    gb s Hb Epp.
  - exists LPChk, (set_pp PUpdate s). split; [reflexivity|]. split.
    { unfold step, step_gen. rewrite Epp, Cl. reflexivity. }
    gb s Hb Epp.
  - exists LPUpdOk, (set_pp PPublish s). split; [reflexivity|]. split.
    { unfold step, step_gen. rewrite Epp. reflexivity. }
    gb s Hb Epp.
  - eexists LPPublish, _. split; [reflexivity|]. split.
    { unfold step, step_gen, guard. rewrite Epp, Lk. reflexivity. }
    unfold mu_g, dIn, dHo, wk, ow, dPb, dPp, wakeable; zs. rewrite ?Hb, ?Epp. rewrite ?orb_true_r.
    cbn [orb].
    destruct (0 <? z_top s), (z_mid s), (z_mp s), (z_incc s), (z_q s); cbn [orb]; lia.
  - eexists LPCloseOut, _. split; [reflexivity|]. split.
    { unfold step, step_gen. rewrite Epp. reflexivity. }
    destruct g as [g|]; [destruct (z_mp s) eqn:Emp; [..|destruct (g =? g0)| |]|];
    unfold mu_g, dIn, dHo, wk, ow, dPb; zs; rewrite ?Hb, ?Emp, ?Epp; rewrite ?orb_true_r;
    destruct (0 <? z_top s), (z_mid s), (z_oready s); lia.
  - exfalso. sat. congruence.
  - exfalso. sat. congruence.
Qed.
End StallA.
