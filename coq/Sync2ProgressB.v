(* Sync2ProgressB.v - heavy cases of open_step (checked in parallel with C) *)
From Coq Require Import List Arith Bool Lia.
Import ListNotations.
From Moss Require Import Sync2 Sync2Facts Sync2ProgressA.

Section B.
Variable c : config.
Hypothesis cap_pos : 1 <= c_cap c.
Hypothesis qcap_pos : 1 <= c_qcap c.

Lemma open_MReply s : octx c s -> z_mp s = MReply -> ogoal c s.
Proof. octx_intro. intros Emp. unfold ogoal. take c s LMReply; timeout 800 (dd odec). Qed.

Lemma open_MSelPing s b r : octx c s -> z_mp s = MSelect -> z_q s = b :: r -> ogoal c s.
Proof. octx_intro. intros Emp Eq. unfold ogoal. take c s LMSelPing; timeout 800 (dd odec). Qed.
End B.
