(* Tree.v — collections with child collections, as the code has them: every
   section (top, mid, base, clean) and the lower-level footer is a TREE of
   segment stacks keyed by child name, each node carrying the incarnation
   number of the child collection it was built for; the collection keeps its
   own tree of incarnation counters.  Lists of segments are NEWEST FIRST.
   Executable definitions only. *)
From Moss Require Export Stack Collection Store.

Definition cname := bytes.

(* a persisted footer node: Footer{SegmentLocs/ss, incarNum, ChildFooters} *)
Inductive fnode := FN (fsegs : list segment) (fincar : N) (fkids : list (cname * fnode)).

(* a segmentStack node; llcap = the lower-level snapshot the node carries
   (root: the collection's; child: the child footer captured when the node
   was assembled by snapshot()) — used to resolve Merge operands. *)
Inductive sstack :=
  SS (segs : list segment) (incar : N) (llcap : option fnode) (kids : list (cname * sstack)).

(* the collection's own bookkeeping: incarNum, highestIncarNum, childCollections *)
Inductive cnode := CN (cincar chighest : N) (ckids : list (cname * cnode)).

(* a batch: ops plus child batches; None = DelChildCollection *)
Inductive tbatch := TB (ops : segment) (bkids : list (cname * option tbatch)).

Definition ss_segs (s : sstack) := match s with SS a _ _ _ => a end.
Definition ss_incar (s : sstack) := match s with SS _ i _ _ => i end.
Definition ss_llcap (s : sstack) := match s with SS _ _ l _ => l end.
Definition ss_kids (s : sstack) := match s with SS _ _ _ k => k end.
Definition fn_segs (f : fnode) := match f with FN a _ _ => a end.
Definition fn_incar (f : fnode) := match f with FN _ i _ => i end.
Definition fn_kids (f : fnode) := match f with FN _ _ k => k end.
Definition cn_incar (c : cnode) := match c with CN i _ _ => i end.
Definition cn_highest (c : cnode) := match c with CN _ h _ => h end.
Definition cn_kids (c : cnode) := match c with CN _ _ k => k end.

Section Assoc.
  Context {A : Type}.
  Fixpoint assoc (n : cname) (l : list (cname * A)) : option A :=
    match l with
    | [] => None
    | (n', a) :: r => if beqb n' n then Some a else assoc n r
    end.
  Fixpoint aremove (n : cname) (l : list (cname * A)) : list (cname * A) :=
    match l with
    | [] => []
    | (n', a) :: r => if beqb n' n then aremove n r else (n', a) :: aremove n r
    end.
  (* replace in place if present, else append *)
  Fixpoint aset (n : cname) (a : A) (l : list (cname * A)) : list (cname * A) :=
    match l with
    | [] => [(n, a)]
    | (n', a') :: r => if beqb n' n then (n, a) :: r else (n', a') :: aset n a r
    end.
End Assoc.

Definition okid {A} (n : cname) (o : option (list (cname * A))) : option A :=
  match o with Some l => assoc n l | None => None end.

(* ---- emptiness, merge-freeness --------------------------------------- *)
Fixpoint ss_is_empty (s : sstack) : bool :=
  match s with
  | SS a _ _ kids =>
      Nat.eqb (length a) 0 &&
      (fix all (l : list (cname * sstack)) : bool :=
         match l with [] => true | (_, c) :: r => ss_is_empty c && all r end) kids
  end.

Fixpoint ss_has_merge (s : sstack) : bool :=
  match s with
  | SS a _ _ kids =>
      existsb seg_has_merge a ||
      (fix any (l : list (cname * sstack)) : bool :=
         match l with [] => false | (_, c) :: r => ss_has_merge c || any r end) kids
  end.

(* ---- buildStackDirtyTop ---------------------------------------------- *)

(* buildStackDirtyTop(nil, cur): copy cur, keeping only children that still
   exist with the same incarnation, recursively. *)
Fixpoint prune (m : cnode) (s : sstack) {struct s} : sstack :=
  match s with
  | SS a _ ll kids =>
      SS a (cn_incar m) ll
         ((fix go (l : list (cname * sstack)) : list (cname * sstack) :=
             match l with
             | [] => []
             | (n, c) :: r =>
                 match assoc n (cn_kids m) with
                 | Some cm => if N.eqb (cn_incar cm) (ss_incar c)
                              then (n, prune cm c) :: go r else go r
                 | None => go r
                 end
             end) kids)
  end.

(* the top-of-stack segment a batch contributes *)
Definition batch_segs (ops : segment) : list segment :=
  match ops with [] => [] | _ => [sort_seg ops] end.

Fixpoint build_top (m : cnode) (b : tbatch) (cur : option sstack) {struct b} : cnode * sstack :=
  match b with
  | TB ops bkids =>
      let cur_kids := match cur with Some s => ss_kids s | None => [] end in
      let cur_segs := match cur with Some s => ss_segs s | None => [] end in
      (* the batch's children, in batch order *)
      let '(hi, mkids, rvkids) :=
        (fix go (l : list (cname * option tbatch)) (acc : N * list (cname * cnode) * list (cname * sstack))
           : N * list (cname * cnode) * list (cname * sstack) :=
           match l with
           | [] => acc
           | (n, None) :: r =>
               let '(hi, mk, rv) := acc in go r (hi, aremove n mk, rv)
           | (n, Some cb) :: r =>
               let '(hi, mk, rv) := acc in
               let '(child, hi') :=
                 match assoc n mk with
                 | Some c => (c, hi)
                 | None => (CN (hi + 1) (hi + 1) [], (hi + 1)%N)
                 end in
               let '(child', cst) := build_top child cb (assoc n cur_kids) in
               go r (hi', aset n child' mk, aset n cst rv)
           end) bkids (cn_highest m, cn_kids m, []) in
      (* children of the existing top that the batch did not mention *)
      let rvkids' :=
        (fix cp (l : list (cname * sstack)) (rv : list (cname * sstack)) : list (cname * sstack) :=
           match l with
           | [] => rv
           | (n, c) :: r =>
               match assoc n rv with
               | Some _ => cp r rv
               | None =>
                   match assoc n mkids with
                   | Some cm => if N.eqb (cn_incar cm) (ss_incar c)
                                then cp r (aset n (prune cm c) rv) else cp r rv
                   | None => cp r rv
                   end
               end
           end) cur_kids rvkids in
      (CN (cn_incar m) hi mkids,
       SS (batch_segs ops ++ cur_segs) (cn_incar m) None rvkids')
  end.

(* ---- snapshot(): assemble sections into one stack tree ----------------- *)

(* secs: the stacks of this node from each included section, NEWEST FIRST
   (top, mid, base, clean order).  ll: the lower-level node for this path
   (a child footer of another incarnation is ignored).  llroot: whether
   the root has a lower-level snapshot (then every child collection gets a
   node). *)
Fixpoint assemble (m : cnode) (secs : list sstack) (ll : option fnode) (llroot : bool) : sstack :=
  match m with
  | CN inc _ mkids =>
      SS (concat (map ss_segs secs)) inc ll
         ((fix go (l : list (cname * cnode)) : list (cname * sstack) :=
             match l with
             | [] => []
             | (n, cm) :: r =>
                 let csecs :=
                   fold_right (fun s acc =>
                                 match assoc n (ss_kids s) with
                                 | Some c => if N.eqb (ss_incar c) (cn_incar cm) then c :: acc else acc
                                 | None => acc
                                 end) [] secs in
                 let mentioned :=
                   existsb (fun s => match assoc n (ss_kids s) with
                                     | Some c => N.eqb (ss_incar c) (cn_incar cm)
                                     | None => false end) secs in
                 (* the lower level's child is used only when it is the same incarnation *)
                 let cll := match ll with
                            | Some f => match assoc n (fn_kids f) with
                                        | Some y => if N.eqb (fn_incar y) (cn_incar cm) then Some y else None
                                        | None => None end
                            | None => None end in
                 if llroot || mentioned
                 then (n, assemble cm csecs cll llroot) :: go r
                 else go r
             end) mkids)
  end.

(* ---- reads --------------------------------------------------------------- *)
Section WithMerge.
  Variable fm : bytes -> value -> bytes -> value.

  Definition fn_get (f : option fnode) : bytes -> value :=
    match f with Some n => sget fm (fn_segs n) no_below | None => no_below end.

  (* Snapshot.Get on a stack node *)
  Definition ss_get (s : sstack) (k : bytes) : value :=
    sget fm (ss_segs s) (fn_get (ss_llcap s)) k.

  (* ---- segmentStack.merge, recursively -------------------------------- *)
  (* levels chosen per node (observed from the implementation) *)
  Inductive lvltree := LT (lvl : nat) (lkids : list (cname * lvltree)).
  Definition lt_lvl (t : lvltree) := match t with LT l _ => l end.
  Definition lt_kids (t : lvltree) := match t with LT _ k => k end.

  Fixpoint merge_node (t : lvltree) (s : sstack) (base : option sstack) {struct s} : sstack :=
    match s with
    | SS a inc ll kids =>
        let below := match base with
                     | Some b => sget fm (ss_segs b) (fn_get (ss_llcap b))
                     | None => fn_get ll
                     end in
        let lvl := if Nat.ltb (lt_lvl t) (length a) then lt_lvl t else 0 in
        SS (merge_stack fm lvl a below) inc ll
           ((fix go (l : list (cname * sstack)) : list (cname * sstack) :=
               match l with
               | [] => []
               | (n, c) :: r =>
                   let bc := match base with
                             | Some b => match assoc n (ss_kids b) with
                                         | Some x => if N.eqb (ss_incar x) (ss_incar c) then Some x else None
                                         | None => None end
                             | None => None end in
                   let ct := match assoc n (lt_kids t) with Some x => x | None => LT 0 [] end in
                   (n, merge_node ct c bc) :: go r
               end) kids)
    end.
End WithMerge.

(* ---- the store side ------------------------------------------------------ *)
Section StoreTree.
  Variable fm : bytes -> value -> bytes -> value.

  (* buildNewFooter + persistSegments: append the non-empty segments; a child
     of the footer survives only if the handed-down stack has it with the
     same incarnation; children absent from the stack are dropped. *)
  Fixpoint append_footer (f : option fnode) (s : sstack) {struct s} : fnode :=
    match s with
    | SS a inc _ kids =>
        FN (filter nonempty a ++ match f with Some x => fn_segs x | None => [] end) inc
           ((fix go (l : list (cname * sstack)) : list (cname * fnode) :=
               match l with
               | [] => []
               | (n, c) :: r =>
                   let fc := match f with
                             | Some x => match assoc n (fn_kids x) with
                                         | Some y => if N.eqb (fn_incar y) (ss_incar c) then Some y else None
                                         | None => None end
                             | None => None end in
                   (n, append_footer fc c) :: go r
               end) kids)
    end.

  (* compaction: mergeSegStacks + writeSegments (+ spliceFooter).  The root is
     compacted at splice point sp; children are compacted in full (sp = 0 for
     every child: their segment lists are not aligned with the root's). *)
  Fixpoint compact_node (sp : nat) (incl : bool) (f : option fnode) (s : sstack) {struct s} : fnode :=
    match s with
    | SS a inc _ kids =>
        let fs := match f with Some x => fn_segs x | None => [] end in
        let n := length fs - sp in
        let upper := a ++ firstn n fs in
        let lower := skipn n fs in
        FN (merge_range false incl upper (sget fm (upper ++ lower) no_below) :: lower) inc
           ((fix go (l : list (cname * sstack)) : list (cname * fnode) :=
               match l with
               | [] => []
               | (nm, c) :: r =>
                   let fc := match f with
                             | Some x => match assoc nm (fn_kids x) with
                                         | Some y => if N.eqb (fn_incar y) (ss_incar c) then Some y else None
                                         | None => None end
                             | None => None end in
                   (nm, compact_node 0 incl fc c) :: go r
               end) kids)
    end.

  (* a child collection of the footer that the stack no longer has (or has as
     another incarnation), at any depth: it was dropped since *)
  Fixpoint kids_changed (f : fnode) (s : sstack) {struct f} : bool :=
    match f with
    | FN _ _ fkids =>
        (fix any (l : list (cname * fnode)) : bool :=
           match l with
           | [] => false
           | (n, cf) :: r =>
               match assoc n (ss_kids s) with
               | Some cs => negb (N.eqb (ss_incar cs) (fn_incar cf)) || kids_changed cf cs || any r
               | None => true
               end
           end) fkids
    end.

  Definition nothing_to_persist (higher : sstack) (f : fnode) : bool :=
    ss_is_empty higher && negb (kids_changed f higher).

  Definition tree_persist (ch : persist_choice) (higher : sstack) (f : fnode) : option fnode :=
    match ch with
    | PNoop => if nothing_to_persist higher f then Some f else None
    | PAppend => if nothing_to_persist higher f then None else Some (append_footer (Some f) higher)
    | PCompact sp =>
        if Nat.leb sp (length (fn_segs f)) then
          if ss_is_empty higher && Nat.leb (length (fn_segs f)) 1 then None
          else Some (compact_node sp (negb (Nat.eqb sp 0)) (Some f) higher)
        else None
    end.

  (* restoreCollection: fresh incarnation numbers, assigned in list order;
     the footer's nodes are renumbered in place. *)
  Fixpoint restore (inc : N) (f : fnode) {struct f} : cnode * fnode :=
    match f with
    | FN a _ kids =>
        let '(hi, ck, fk) :=
          (fix go (l : list (cname * fnode)) (hi : N)
             : N * list (cname * cnode) * list (cname * fnode) :=
             match l with
             | [] => (hi, [], [])
             | (n, cf) :: r =>
                 let hi' := (hi + 1)%N in
                 let '(cc, cf') := restore hi' cf in
                 let '(hi2, ck, fk) := go r hi' in
                 (hi2, (n, cc) :: ck, (n, cf') :: fk)
             end) kids inc in
        (CN inc hi ck, FN a inc fk)
    end.
End StoreTree.
