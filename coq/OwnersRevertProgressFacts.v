(* OwnersRevertProgressFacts.v -- PROGRESS of the EXTENDED ownership model
   (OwnersRevert.v): from every state a sequence of operations of the current
   code reaches, XPrev, XRevert, XOpenColl and every embedded operation of
   Owners.v run to their end, so the C15_revert_* statements hold for every
   legal sequence without the premise that xrun succeeds.  Invariant, rules,
   tactic: OwnersProgressRules.v, OwnersProgressLoops.v; the operations of
   Owners.v: OwnersProgressFacts.v. *)
From Coq Require Import List Arith Bool Lia.
From Moss Require Import Owners OwnersFacts OwnersRevert OwnersRevertFacts
  OwnersProgress OwnersProgressRules OwnersProgressLoops OwnersProgressFacts.
Import ListNotations.

(* the new primitive: a renumbered footer keeps kind, count and references *)
Lemma runs_settag o t s (Q : state -> Prop) : G s -> (exists ob, nth_error (hp s) o = Some ob) ->
  (forall h', G (mkState h' (files s) (regs s) (handles s) (hand s) (leaked s) (elog s) (ct s)) ->
              grow (hp s) h' ->
              Q (mkState h' (files s) (regs s) (handles s) (hand s) (leaked s) (elog s) (ct s))) ->
  runs (settag o t) s Q.
Proof.
  intros [I [T R]] [ob Ho] K. eexists. split.
  - unfold settag. rewrite Ho. reflexivity.
  - apply K.
    + split; [|split].
      * apply (pres_settag o t s); auto. unfold settag. rewrite Ho. reflexivity.
      * simpl. eapply Ty_upd; eauto. eapply ty_obj_same; [| | |apply (T o ob Ho)]; reflexivity.
      * eapply RootsTy_ext; [| | |exact R]; simpl; auto. eapply kext_upd; eauto.
    + eapply grow_upd; eauto.
Qed.

Lemma runs_each_settag ks e : forall s (Q : state -> Prop), G s -> allk (hp s) ks KFooter ->
  (forall h', G (mkState h' (files s) (regs s) (handles s) (hand s) (leaked s) (elog s) (ct s)) ->
              grow (hp s) h' ->
              Q (mkState h' (files s) (regs s) (handles s) (hand s) (leaked s) (elog s) (ct s))) ->
  runs (each ks (fun k => settag k e)) s Q.
Proof.
  induction ks as [|k r IH]; intros s Q HG A K; destruct s as [h fs rg hs l lk lg c]; simpl each; norm.
  - apply runs_ret. apply K; auto. apply grow_refl.
  - assert (A' : allk h r KFooter) by (intros x Hx; apply A; right; exact Hx).
    assert (Hk : hask h k KFooter) by (apply A; left; reflexivity).
    apply runs_bind. apply (runs_settag k e _ _ HG); norm.
    { eapply hask_exists; eauto. }
    intros h1 HG1 Hgr1. tr_grow Hgr1. apply IH; auto.
    intros h2 HG2 Hgr2. norm. apply K; auto. grow_tac.
Qed.

Ltac rstepX :=
  norm; rewrite_known; norm;
  lazymatch goal with
  | |- runs (each ?ms addref) ?s _ =>
      withG ltac:(fun HG =>
        apply (runs_each_addref ms s _ HG);
        [ norm; try solve [alllive_tac]
        | let Hgr := fresh "Hgr" in let HG' := fresh "HG" in let Hs := fresh "Hs" in
          intros ? ? ? HG' Hgr Hs; norm; tr_grow Hgr; clear HG ])
  | |- _ => rstepL
  end.
Ltac gox := repeat rstepX.
Ltac goxf := gox; try fin.

Lemma runs_revert_kids cs : forall acc cont s (Q : state -> Prop), G s -> allk (hp s) cs KFooter ->
  (forall h' l' lg' ks,
     G (mkState h' (files s) (regs s) (handles s) l' (leaked s) lg' (ct s)) ->
     grow (hp s) h' -> hsplit l' ks (hand s) -> allhas h' ks KFooter false ->
     runs (cont (acc ++ ks)) (mkState h' (files s) (regs s) (handles s) l' (leaked s) lg' (ct s)) Q) ->
  runs (revert_kids cs acc cont) s Q.
Proof.
  induction cs as [|c r IH]; intros acc cont s Q HG A K; destruct s as [h fs rg hs l lk lg c0];
    simpl revert_kids; norm.
  - rewrite <- (app_nil_r acc). apply K; auto. apply grow_refl.
    intro x. rewrite cn_nil. lia. apply allhas_nil.
  - assert (Hc : hask h c KFooter) by (apply A; left; reflexivity).
    assert (A' : allk h r KFooter) by (intros x Hx; apply A; right; exact Hx).
    rstepX. rstepX. rstepX. rstepX. rstepX. apply IH; auto.
    intros h2 l2 lg2 ks HG2 Hgr2 Hs2 Hks. norm. rewrite <- app_assoc. simpl app. apply K; auto.
    + grow_tac.
    + hand_le.
    + intros x [<-|Hx]; [|apply Hks; exact Hx]. eapply has_kext; [apply grow_kext; exact Hgr2|eassumption].
Qed.

Ltac rstepY :=
  norm; rewrite_known; norm;
  lazymatch goal with
  | |- runs (revert_kids ?cs ?acc ?cont) ?s _ =>
      withG ltac:(fun HG =>
        apply (runs_revert_kids cs acc cont s _ HG);
        [ norm; try solve [allk_tac]
        | let Hgr := fresh "Hgr" in let HG' := fresh "HG" in let Hs := fresh "Hs" in
          let Hks := fresh "Hks" in
          intros ? ? ? ? HG' Hgr Hs Hks; norm; tr_grow Hgr; clear HG ])
  | |- runs (revert_footer _ _) _ _ => unfold revert_footer
  | |- runs (rd (file_ref _) _) _ _ => unfold file_ref
  | |- _ => rstepX
  end.
Ltac goy := repeat rstepY.
Ltac goyf := goy; try fin.

Ltac start :=
  let HG := fresh "HG" in let Hh := fresh "Hh" in let HC := fresh "HC" in
  let C1 := fresh "C1" in let C2 := fresh "C2" in
  intros [HG [Hh HC]];
  match goal with |- runs _ ?s _ => destruct s as [h fs rg hs l lk lg c] end;
  let HI := fresh "HI" in assert (HI := HG : Init _);
  norm; match goal with H : ?x = [] |- _ => subst x end; pose proof HC as [C1 C2]; norm.

Lemma ok_prev2 a fd n1 n2 n3 s : Good s -> runs (op_prev2 a fd n1 n2 n3 ;; finish) s Good.
Proof. start. unfold op_prev2. goyf. Qed.

Lemma ok_revert a m s : Good s -> runs (op_revert a m ;; finish) s Good.
Proof. start. unfold op_revert. goyf. Qed.

Lemma ok_open_coll s : Good s -> Cinv s -> runs (op_open_coll ;; finish) s Good.
Proof.
  intros HGd [Cv _]. revert HGd. start. unfold op_open_coll. rstepY. rstepY; [|fin].
  assert (Ell : rg SLL = None).
  { match goal with Hc : copen c = false |- _ => destruct (Cv Hc) as [_ [_ N]] end.
    unfold none_at, coll_slots in N. simpl in N. destruct (rg SLL); [discriminate N|reflexivity]. }
  goy; try fin. unfold with_ct in *. norm.
  match goal with
  | |- runs (each ?ks (fun k => settag k ?e)) ?s _ =>
      withG ltac:(fun HG => apply (runs_each_settag ks e s _ HG)); norm
  end.
  - match goal with
    | HG : G ?s, Hk : hask _ ?o KFooter |- allk _ (kids_of ?o _) _ =>
        eapply allhas_allk; exact (proj1 (kids_facts s o KFooter HG Hk))
    end.
  - intros h2 HG2 Hgr2. fin;
      match goal with Hc : copen c = false |- _ => destruct (Cv Hc) as [M [P _]] end;
      try (destruct C1 as [A B]; [lia|]; assumption); try (apply C2; lia).
Qed.

(* ------------------------------------------------------------------ *)
(* PROGRESS of the extended system *)

Theorem xstep_progress x st : Good st -> Cinv st -> xcurrent_code x = true ->
  exists st', xstep x st = Some st' /\ Good st' /\ Cinv st'.
Proof.
  intros HG HC C.
  assert (P : exists st', xstep x st = Some st' /\ Good st').
  { unfold xstep. destruct x as [o|h fd a b c|h m|]; simpl xbody.
    - assert (Co : current_code o = true) by (destruct o; simpl in C; auto; discriminate C).
      exact (step_progress o st HG Co).
    - apply ok_prev2; auto.
    - apply ok_revert; auto.
    - apply ok_open_coll; auto. }
  destruct P as [st' [E HG']]. exists st'. split; auto. split; auto. eapply xstep_Cinv; eauto.
Qed.

Inductive xreachable : state -> Prop :=
  | xreach_init : xreachable init
  | xreach_step : forall st x st', xreachable st -> xlegal st x = true -> xstep x st = Some st' ->
                                   xreachable st'.

Lemma xreachable_good st : xreachable st -> Good st /\ Cinv st.
Proof.
  induction 1 as [|st x st' R [IH1 IH2] L E]; [split; [exact Good_init|exact Cinv_init]|].
  destruct (xstep_progress x st IH1 IH2 L) as [s [E' Hs]]. congruence.
Qed.

Theorem xlegal_step_never_faults : forall st x,
  xreachable st -> xlegal st x = true -> exists st', xstep x st = Some st'.
Proof.
  intros st x R L. destruct (xreachable_good st R) as [H1 H2].
  destruct (xstep_progress x st H1 H2 L) as [s [E _]]. eauto.
Qed.

Lemma xlegal_seq_from_runs ops : forall st, Good st -> Cinv st -> xlegal_seq_from st ops = true ->
  exists st', xrun_from st ops = Some st' /\ Good st'.
Proof.
  induction ops as [|o r IH]; intros st HG HC L; simpl in *.
  - eauto.
  - apply andb_prop in L. destruct L as [L1 L2].
    destruct (xstep_progress o st HG HC L1) as [s [E [Hs Cs]]]. rewrite E in *. apply IH; auto.
Qed.

Theorem xlegal_use_never_faults : forall ops, xlegal_seq ops = true -> exists st, xrun ops = Some st.
Proof.
  intros ops L. destruct (xlegal_seq_from_runs ops init Good_init Cinv_init L) as [st [E _]]. eauto.
Qed.

Theorem xlegal_seq_iff ops : xlegal_seq ops = true <-> forallb xcurrent_code ops = true.
Proof.
  unfold xlegal_seq. generalize init, Good_init, Cinv_init.
  induction ops as [|o r IH]; intros st HG HC; simpl; [tauto|].
  unfold xlegal at 1. destruct (xcurrent_code o) eqn:C; simpl; [|split; discriminate].
  destruct (xstep_progress o st HG HC C) as [s [E [Hs Cs]]]. rewrite E. apply IH; auto.
Qed.

Theorem x_ownership_invariant_unconditional : forall ops, xlegal_seq ops = true ->
  exists st, xrun ops = Some st /\
    forall o, cnt_of (hp st) o = cn o (roots st) + cn o (allrefs (hp st)).
Proof.
  intros ops L. destruct (xlegal_use_never_faults ops L) as [st E]. exists st. split; auto.
  eapply x_ownership_invariant; eauto.
Qed.

Theorem x_no_dangling_reference_unconditional : forall ops, xlegal_seq ops = true ->
  exists st, xrun ops = Some st /\
    (forall o, In o (roots st) -> cnt_of (hp st) o > 0) /\
    (forall a ob r, nth_error (hp st) a = Some ob -> In r (orefs ob) ->
                    o_cnt ob > 0 /\ cnt_of (hp st) r > 0).
Proof.
  intros ops L. destruct (xlegal_use_never_faults ops L) as [st E]. exists st. split; auto.
  eapply x_no_dangling_reference; eauto.
Qed.

Theorem x_handle_data_alive_unconditional : forall ops, xlegal_seq ops = true ->
  exists st, xrun ops = Some st /\
    forall hd r o, In hd (handles st) -> In r (hrefs hd) -> reach (hp st) r o ->
      cnt_of (hp st) o > 0.
Proof.
  intros ops L. destruct (xlegal_use_never_faults ops L) as [st E]. exists st. split; auto.
  eapply x_handle_data_alive; eauto.
Qed.

Theorem x_all_closed_all_released_unconditional : forall ops, xlegal_seq ops = true ->
  exists st, xrun ops = Some st /\
    (all_closed st ->
     (forall o, cnt_of (hp st) o = 0) /\ open_fds st = [] /\ mappings st = 0).
Proof.
  intros ops L. destruct (xlegal_use_never_faults ops L) as [st E]. exists st. split; auto.
  intros AC. eapply x_all_closed_all_released_current_code; eauto. apply xlegal_seq_iff. exact L.
Qed.

(* satisfiable on a history with a revert, a previous snapshot and a re-opened collection *)
Definition xw_progress : list xop :=
  [XOp (OpBatch true); XOp OpMergerIngest; XOp (OpMergerSwap BrMerged); XOp OpMergerHandover;
   XOp OpPersistBegin; XOp (OpPersistRun (PAppend false 1 1)); XOp (OpPersistPublish false);
   XOp OpStoreSnap; XOp (OpBatch false); XOp OpMergerIngest; XOp (OpMergerSwap BrMerged);
   XOp OpMergerHandover; XOp OpPersistBegin; XOp (OpPersistRun (PAppend false 1 0));
   XOp (OpPersistPublish false); XPrev 0 true 1 1 1; XRevert 0 RvDone; XRevert 1 RvWriteFail;
   XOp OpCollClose; XOpenColl; XOp OpSnapFresh;
   XOp (OpCloseH 0); XOp (OpCloseH 0); XOp (OpCloseH 0); XOp OpCollClose; XOp OpStoreClose].
Example xlegal_seq_witness :
  xlegal_seq xw_progress = true /\
  match xrun xw_progress with Some st => all_closed_b st = true /\ length (hp st) > 10 | None => False end.
Proof. vm_compute. split; [reflexivity|split; [reflexivity|lia]]. Qed.

Print Assumptions xstep_progress.
Print Assumptions xlegal_step_never_faults.
Print Assumptions xlegal_use_never_faults.
Print Assumptions xlegal_seq_iff.
Print Assumptions x_ownership_invariant_unconditional.
Print Assumptions x_no_dangling_reference_unconditional.
Print Assumptions x_handle_data_alive_unconditional.
Print Assumptions x_all_closed_all_released_unconditional.
