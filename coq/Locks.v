(* C17 -- "Permitted concurrent use is free of data races".

   Definitions only (the proofs are in LocksFacts.v).

   Part 1: a small trace model of mutexes, forks and memory accesses, the
           happens-before order of the Go memory model restricted to those
           events, data races, and the locking discipline that moss follows
           for the fields of [collection] and [Store] declared after
           "m sync.Mutex // Protects the fields that follow".

   Part 2: the shape of the static access table that the Go tool [lockscan]
           regenerates from the moss sources (Table.v), and its reflective
           checker. *)

From Coq Require Import List Arith Bool Relations.
Import ListNotations.

(* ------------------------------------------------------------------ *)
(* Part 1: executions.                                                 *)

Definition thread := nat.
Definition lock := nat.
Definition loc := nat.

Inductive ev : Type :=
| Acq (t : thread) (m : lock)
| Rel (t : thread) (m : lock)
| Rd (t : thread) (x : loc)
| Wr (t : thread) (x : loc)
| Fork (t child : thread).

Definition thread_of (e : ev) : thread :=
  match e with
  | Acq t _ | Rel t _ | Rd t _ | Wr t _ | Fork t _ => t
  end.

(* The state a trace is checked against: who holds each lock, and which
   threads have already executed an event. *)
Record mstate : Type := MState {
  holder : lock -> option thread;
  seen : thread -> bool
}.

Definition init_state : mstate :=
  {| holder := fun _ => None; seen := fun _ => false |}.

Definition upd {A : Type} (f : nat -> A) (k : nat) (v : A) : nat -> A :=
  fun k' => if Nat.eqb k' k then v else f k'.

Definition step (s : mstate) (e : ev) : mstate :=
  let sn := upd (seen s) (thread_of e) true in
  match e with
  | Acq t m => {| holder := upd (holder s) m (Some t); seen := sn |}
  | Rel _ m => {| holder := upd (holder s) m None; seen := sn |}
  | _ => {| holder := holder s; seen := sn |}
  end.

(* A lock is acquired only when free and released only by its holder.  A
   forked thread is a new one: it is not the forking thread and it has not
   executed anything yet. *)
Definition enabled (s : mstate) (e : ev) : bool :=
  match e with
  | Acq _ m => match holder s m with None => true | Some _ => false end
  | Rel t m => match holder s m with Some t' => Nat.eqb t t' | None => false end
  | Fork t c => negb (seen s c) && negb (Nat.eqb t c)
  | _ => true
  end.

Fixpoint wf_from (s : mstate) (tr : list ev) : bool :=
  match tr with
  | [] => true
  | e :: tr' => enabled s e && wf_from (step s e) tr'
  end.

Definition wf_exec (tr : list ev) : Prop := wf_from init_state tr = true.

(* The state just before the event at position [i]. *)
Definition state_at (tr : list ev) (i : nat) : mstate :=
  fold_left step (firstn i tr) init_state.

(* Thread [t] holds lock [m] when the event at position [i] executes (its
   lock set contains [m]). *)
Definition holds (tr : list ev) (i : nat) (t : thread) (m : lock) : Prop :=
  holder (state_at tr i) m = Some t.

(* ------------------------------------------------------------------ *)
(* Happens-before over positions of the trace.                         *)

(* [j] is the first event of thread [c]. *)
Definition first_of (tr : list ev) (c : thread) (j : nat) : Prop :=
  (exists e, nth_error tr j = Some e /\ thread_of e = c) /\
  (forall k e, k < j -> nth_error tr k = Some e -> thread_of e <> c).

Inductive hb1 (tr : list ev) : nat -> nat -> Prop :=
| hb_po : forall i j e1 e2,
    i < j ->
    nth_error tr i = Some e1 -> nth_error tr j = Some e2 ->
    thread_of e1 = thread_of e2 ->
    hb1 tr i j
| hb_sync : forall i j t1 t2 m,
    i < j ->
    nth_error tr i = Some (Rel t1 m) -> nth_error tr j = Some (Acq t2 m) ->
    hb1 tr i j
| hb_fork : forall i j t c,
    i < j ->
    nth_error tr i = Some (Fork t c) -> first_of tr c j ->
    hb1 tr i j.

Definition hb (tr : list ev) : nat -> nat -> Prop := clos_trans nat (hb1 tr).

(* ------------------------------------------------------------------ *)
(* Accesses, conflicts, races.                                         *)

(* The event at position [i] is a read ([w = false]) or a write
   ([w = true]) of [x] by [t]. *)
Definition access_at (tr : list ev) (i : nat) (t : thread) (x : loc)
           (w : bool) : Prop :=
  nth_error tr i = Some (if w then Wr t x else Rd t x).

Definition conflict_on (tr : list ev) (x : loc) (i j : nat) : Prop :=
  exists ti tj wi wj,
    access_at tr i ti x wi /\ access_at tr j tj x wj /\
    ti <> tj /\ (wi || wj = true).

Definition race_on (tr : list ev) (x : loc) (i j : nat) : Prop :=
  conflict_on tr x i j /\ ~ hb tr i j /\ ~ hb tr j i.

(* ------------------------------------------------------------------ *)
(* The discipline.                                                     *)

(* [guard x = Some m]: location [x] is covered, its mutex is [m]. *)
Definition covered (guard : loc -> option lock) (x : loc) : Prop :=
  guard x <> None.

(* Constructor exemption: the access at [i] by [t] is made before [t]
   forks any other thread that ever accesses [x]. *)
Definition prepub (tr : list ev) (i : nat) (t : thread) (x : loc) : Prop :=
  forall j u w,
    access_at tr j u x w -> u <> t ->
    exists k, i < k /\ nth_error tr k = Some (Fork t u).

Definition disciplined (guard : loc -> option lock) (tr : list ev) : Prop :=
  forall i t x w m,
    access_at tr i t x w -> guard x = Some m ->
    holds tr i t m \/ prepub tr i t x.

(* ------------------------------------------------------------------ *)
(* Part 2: the static access table produced by lockscan.               *)

Inductive just : Type :=
| JHolds               (* inside a region that holds the owner's mutex *)
| JLockedFunc          (* in a function all of whose callers hold it    *)
| JGotLockParam        (* in collection.snapshot, lock taken unless told *)
| JCallbackUnderLock   (* in a callback that is invoked under the lock  *)
| JConstructor         (* on an object that is not published yet        *)
| JAtomic              (* through sync/atomic only                      *)
| JNone.               (* no justification found                        *)

Record access : Type := Access {
  a_field : nat;
  a_func : nat;
  a_kind : bool;             (* true = write *)
  a_justification : just
}.

Definition just_ok (j : just) : bool :=
  match j with JNone => false | _ => true end.

Definition check_table (tbl : list access) : bool :=
  forallb (fun a => just_ok (a_justification a)) tbl.

Definition count_just (p : just -> bool) (tbl : list access) : nat :=
  length (filter (fun a => p (a_justification a)) tbl).
