(* Owners.v -- an executable model of OWNERSHIP for the reference-counted
   objects of moss (FileRef, mmapRef, Footer incl. child footers, segmentStack
   incl. child stacks, SnapshotWrapper): which object holds a counted reference
   to which, which roots (store, collection, merger, persister, user handles)
   hold references, and the AddRef/DecRef sequences of every operation in code
   order.  Definitions only; the proofs are in OwnersFacts.v. *)
From Coq Require Export List Arith Bool Lia.
Export ListNotations.

(* ------------------------------------------------------------------ *)
(* objects *)

Inductive kind := KFile | KMmap | KFooter | KStack | KWrap.
Definition oid := nat.

Record obj := mkObj {
  o_kind : kind;
  o_top  : bool;          (* top-level footer / stack (true) or a child's (false) *)
  o_cnt  : nat;           (* the refs / refCount field *)
  o_refs : list oid;      (* counted references held: Footer -> SegmentLocs[i].mref;
                             mmapRef -> fref; segmentStack -> lowerLevelSnapshot;
                             SnapshotWrapper -> ss *)
  o_kids : list oid;      (* counted references on children: Footer.ChildFooters,
                             segmentStack.childSegStacks (position = child name) *)
  o_file : nat;           (* KFile, KMmap: the data file; child footers and child stacks:
                             the incarnation number of their child collection *)
  o_rm   : bool           (* KFile: removeFileOnClose was registered *)
}.

Definition orefs (ob : obj) : list oid := o_refs ob ++ o_kids ob.

Definition rank (ob : obj) : nat :=
  match o_kind ob with
  | KFile => 0
  | KMmap => 1
  | KFooter => if o_top ob then 3 else 2
  | KWrap => 4
  | KStack => if o_top ob then 6 else 5
  end.

Definition heap := list obj.

Fixpoint upd (i : nat) (x : obj) (h : heap) : heap :=
  match h with
  | [] => []
  | y :: r => match i with 0 => x :: r | S j => y :: upd j x r end
  end.

Definition cnt_of (h : heap) (o : oid) : nat :=
  match nth_error h o with Some ob => o_cnt ob | None => 0 end.
Definition refs_at (h : heap) (o : oid) : list oid :=
  match nth_error h o with Some ob => o_refs ob | None => [] end.
Definition kids_at (h : heap) (o : oid) : list oid :=
  match nth_error h o with Some ob => o_kids ob | None => [] end.
Definition allrefs (h : heap) : list oid := flat_map orefs h.

Definition set_cnt (ob : obj) (n : nat) : obj :=
  mkObj (o_kind ob) (o_top ob) n (o_refs ob) (o_kids ob) (o_file ob) (o_rm ob).
Definition set_refs (ob : obj) (rs : list oid) : obj :=
  mkObj (o_kind ob) (o_top ob) (o_cnt ob) rs (o_kids ob) (o_file ob) (o_rm ob).
Definition set_rm (ob : obj) : obj :=
  mkObj (o_kind ob) (o_top ob) (o_cnt ob) (o_refs ob) (o_kids ob) (o_file ob) true.
Definition cleared (ob : obj) : obj :=
  mkObj (o_kind ob) (o_top ob) 0 [] [] (o_file ob) (o_rm ob).

Fixpoint remove1 (o : oid) (l : list oid) : option (list oid) :=
  match l with
  | [] => None
  | x :: r => if Nat.eqb x o then Some r
              else match remove1 o r with Some r' => Some (x :: r') | None => None end
  end.
Fixpoint removes (rs l : list oid) : option (list oid) :=
  match rs with
  | [] => Some l
  | r :: t => match remove1 r l with Some l' => removes t l' | None => None end
  end.
Fixpoint del_file (f : nat) (fs : list nat) : list nat :=
  match fs with [] => [] | x :: r => if Nat.eqb x f then del_file f r else x :: del_file f r end.

Definition is_some {A} (x : option A) : bool := match x with Some _ => true | None => false end.
Definition olist {A} (x : option A) : list A := match x with Some a => [a] | None => [] end.

(* ------------------------------------------------------------------ *)
(* release: DecRef with its cascade, depth first in code order (a Footer
   drops its SegmentLocs then its child footers; a segmentStack its
   lowerLevelSnapshot then its child stacks; a wrapper its snapshot; a mapping
   its FileRef; a FileRef closes the file and runs the after-close callback
   that unlinks it).  Every decrement is logged. *)

Definition event := (oid * nat)%type.       (* object, count after the change *)

Fixpoint release (fuel : nat) (work : list oid) (h : heap) (fs : list nat) (lg : list event)
  : option (heap * list nat * list event) :=
  match work with
  | [] => Some (h, fs, lg)
  | o :: w =>
    match fuel with
    | 0 => None
    | S f =>
      match nth_error h o with
      | None => None
      | Some ob =>
        match o_cnt ob with
        | 0 => None                                 (* DecRef of a released object *)
        | 1 => release f (orefs ob ++ w) (upd o (cleared ob) h)
                 (match o_kind ob with
                  | KFile => if o_rm ob then del_file (o_file ob) fs else fs
                  | _ => fs end)
                 (lg ++ [(o, 0)])
        | S (S n) => release f w (upd o (set_cnt ob (S n)) h) fs (lg ++ [(o, S n)])
        end
      end
    end
  end.

Definition total (h : heap) : nat := fold_right (fun ob n => o_cnt ob + n) 0 h.

(* ------------------------------------------------------------------ *)
(* roots *)

Inductive slot :=
  | SFooter   (* Store.footer *)
  | SLL       (* collection.lowerLevelSnapshot *)
  | STop | SMid | SBase | SClean   (* collection.stackDirtyTop/Mid/Base, stackClean *)
  | SCached   (* collection.latestSnapshot *)
  | MMid | MBase                    (* runMerger locals stackDirtyMid, stackDirtyBase *)
  | PNext.                          (* runPersister local llssNext *)

Definition all_slots := [SFooter; SLL; STop; SMid; SBase; SClean; SCached; MMid; MBase; PNext].

Definition slot_eqb (a b : slot) : bool :=
  match a, b with
  | SFooter, SFooter | SLL, SLL | STop, STop | SMid, SMid | SBase, SBase
  | SClean, SClean | SCached, SCached | MMid, MMid | MBase, MBase | PNext, PNext => true
  | _, _ => false
  end.

Definition coll_slots := [SLL; STop; SMid; SBase; SClean; SCached; MMid; MBase; PNext].
Definition regfile := slot -> option oid.
Definition rset (r : regfile) (s : slot) (v : option oid) : regfile :=
  fun s' => if slot_eqb s s' then v else r s'.
Definition root_of (r : regfile) : list oid := flat_map (fun s => olist (r s)) all_slots.

(* user handles.  An iterator is not reference counted itself; it holds the
   counted reference of its lower-level iterator (a Footer, the closer of the
   footer's own iterator), its own closer (a Footer) and - the heap iterator
   of a collection snapshot (iterator.ownsSS, iterator.go:43-46, 100-106) - a
   counted reference on the segmentStack it was started on (iterator.ss).
   The iterators of a Footer, the lower-level iterator handed out by
   optimize() and an iteratorSingle hold no stack (ss = None). *)
Inductive handle :=
  | HSnap (s : oid)                         (* collection snapshot or child snapshot of one *)
  | HFoot (f : oid)                         (* store snapshot, previous snapshot, child of one *)
  | HIter (ss : option oid) (ll : option oid) (closer : option oid)
  (* NOT the current code: the iterator before repair 75e1b64, whose ss is a
     BORROWED, uncounted pointer to the segmentStack it was started on *)
  | HIter_pre_fix (ss : option oid) (ll : option oid) (closer : option oid).

Definition hrefs (h : handle) : list oid :=
  match h with
  | HSnap s => [s]
  | HFoot f => [f]
  | HIter s ll c => olist s ++ olist ll ++ olist c
  | HIter_pre_fix _ ll c => olist ll ++ olist c
  end.

Record ctl := mkCtl {
  nch : nat;              (* number of child collections (names 0 .. nch-1) *)
  mph : nat;              (* merger: 0 waiting, 1 ingested, 2 swapped *)
  pph : nat;              (* persister: 0 waiting, 1 has a base, 2 LowerLevelUpdate returned *)
  pbase : option oid;     (* persister's BORROWED stackDirtyBase *)
  copen : bool;           (* collection not closed *)
  sopen : bool;           (* store not closed *)
  cur : option nat;       (* ghost: the current (most recently started) data file *)
  nextfile : nat;         (* Store.nextFNameSeq *)
  inc : nat               (* incarnation given to child collections created now *)
}.

Record state := mkState {
  hp : heap;
  files : list nat;       (* data files present in the directory *)
  regs : regfile;
  handles : list handle;
  hand : list oid;        (* counted references held in locals of the running function *)
  leaked : list oid;      (* references a function returned without releasing or storing *)
  elog : list event;      (* every count change, in order: comparable with verifRef *)
  ct : ctl
}.

Definition roots (st : state) : list oid :=
  root_of (regs st) ++ flat_map hrefs (handles st) ++ hand st ++ leaked st.

(* ------------------------------------------------------------------ *)
(* the little language the operations are written in *)

Definition M := state -> option state.
Definition ret : M := fun st => Some st.
Definition bind (a b : M) : M := fun st => match a st with Some s => b s | None => None end.
Notation "a ;; b" := (bind a b) (at level 61, right associativity).
Definition rd {A} (f : state -> A) (k : A -> M) : M := fun st => k (f st) st.
Definition whenS {A} (x : option A) (k : A -> M) : M :=
  match x with Some a => k a | None => ret end.
Fixpoint each {A} (l : list A) (k : A -> M) : M :=
  match l with [] => ret | a :: r => k a ;; each r k end.
Definition guard (b : state -> bool) (m : M) : M := fun st => if b st then m st else Some st.

Definition with_hp (st : state) h fs lg : state :=
  mkState h fs (regs st) (handles st) (hand st) (leaked st) lg (ct st).
Definition with_hand (st : state) l : state :=
  mkState (hp st) (files st) (regs st) (handles st) l (leaked st) (elog st) (ct st).
Definition with_ct (st : state) c : state :=
  mkState (hp st) (files st) (regs st) (handles st) (hand st) (leaked st) (elog st) c.

(* AddRef: only on an object that is still alive *)
Definition addref (o : oid) : M := fun st =>
  match nth_error (hp st) o with
  | Some ob =>
      match o_cnt ob with
      | 0 => None
      | S n => Some (mkState (upd o (set_cnt ob (S (S n))) (hp st)) (files st) (regs st)
                       (handles st) (o :: hand st) (leaked st)
                       (elog st ++ [(o, S (S n))]) (ct st))
      end
  | None => None
  end.

(* DecRef of a reference held in a local *)
Definition decref (o : oid) : M := fun st =>
  match remove1 o (hand st) with
  | None => None
  | Some l =>
      match release (S (total (hp st))) [o] (hp st) (files st) (elog st) with
      | Some (h, fs, lg) => Some (mkState h fs (regs st) (handles st) l (leaked st) lg (ct st))
      | None => None
      end
  end.

Definition rank_lt_all (h : heap) (rs : list oid) (n : nat) : bool :=
  forallb (fun r => match nth_error h r with Some ob => Nat.ltb (rank ob) n | None => false end) rs.

(* a new object is born with a count of one (held by the local that receives
   it) and takes over the references rs / ks from the locals *)
Definition alloc (k : kind) (top : bool) (rs ks : list oid) (file : nat) : M := fun st =>
  let ob := mkObj k top 1 rs ks file false in
  match removes (rs ++ ks) (hand st) with
  | None => None
  | Some l =>
      if rank_lt_all (hp st) (rs ++ ks) (rank ob)
      then Some (mkState (hp st ++ [ob]) (files st) (regs st) (handles st)
                   (length (hp st) :: l) (leaked st) (elog st) (ct st))
      else None
  end.
Definition fresh (st : state) : oid := length (hp st).
Definition alloc_k (k : kind) (top : bool) (rs ks : list oid) (file : nat) (cont : oid -> M) : M :=
  rd fresh (fun id => alloc k top rs ks file ;; cont id).

(* replace the references held by a live object (hand-over re-pointing a
   stack's lowerLevelSnapshot): the old ones go to the locals *)
Definition setrefs (a : oid) (rs : list oid) : M := fun st =>
  match nth_error (hp st) a with
  | Some ob =>
      match o_cnt ob, removes rs (hand st) with
      | S _, Some l =>
          if rank_lt_all (hp st) rs (rank ob)
          then Some (mkState (upd a (set_refs ob rs) (hp st)) (files st) (regs st) (handles st)
                       (o_refs ob ++ l) (leaked st) (elog st) (ct st))
          else None
      | _, _ => None
      end
  | None => None
  end.

Definition put (s : slot) (o : oid) : M := fun st =>
  match regs st s, remove1 o (hand st) with
  | None, Some l => Some (mkState (hp st) (files st) (rset (regs st) s (Some o)) (handles st) l
                            (leaked st) (elog st) (ct st))
  | _, _ => None
  end.
Definition take (s : slot) : M := fun st =>
  Some (mkState (hp st) (files st) (rset (regs st) s None) (handles st)
          (olist (regs st s) ++ hand st) (leaked st) (elog st) (ct st)).
Definition reg (s : slot) (st : state) : option oid := regs st s.

Definition pushh (h : handle) : M := fun st =>
  match removes (hrefs h) (hand st) with
  | Some l => Some (mkState (hp st) (files st) (regs st) (handles st ++ [h]) l
                      (leaked st) (elog st) (ct st))
  | None => None
  end.
Fixpoint del_nth {A} (i : nat) (l : list A) : list A :=
  match l with [] => [] | x :: r => match i with 0 => r | S j => x :: del_nth j r end end.
Definition poph (i : nat) : M := fun st =>
  match nth_error (handles st) i with
  | Some h => Some (mkState (hp st) (files st) (regs st) (del_nth i (handles st))
                      (hrefs h ++ hand st) (leaked st) (elog st) (ct st))
  | None => None
  end.

(* a local that goes out of scope without DecRef *)
Definition forget (o : oid) : M := fun st =>
  match remove1 o (hand st) with
  | Some l => Some (mkState (hp st) (files st) (regs st) (handles st) l (o :: leaked st)
                      (elog st) (ct st))
  | None => None
  end.

(* every function ends with no counted reference left in a local *)
Definition finish : M := fun st => match hand st with [] => Some st | _ => None end.

Definition setrm (o : oid) : M := fun st =>
  match nth_error (hp st) o with
  | Some ob => Some (with_hp st (upd o (set_rm ob) (hp st)) (files st) (elog st))
  | None => None
  end.
(* Store.startFileLOCKED: a new data file, FileRef{refs: 1} *)
Definition bump_file : M := fun st =>
  let f := nextfile (ct st) in
  Some (mkState (hp st) (f :: files st) (regs st) (handles st) (hand st) (leaked st) (elog st)
          (mkCtl (nch (ct st)) (mph (ct st)) (pph (ct st)) (pbase (ct st))
                 (copen (ct st)) (sopen (ct st)) (Some f) (S f) (inc (ct st)))).
Definition newfile (cont : oid -> M) : M :=
  rd (fun st => nextfile (ct st)) (fun f => bump_file ;; alloc_k KFile true [] [] f cont).
(* an assertion about the state reached *)
Definition check (b : state -> bool) : M := fun st => if b st then Some st else None.
Definition none_at (l : list slot) (st : state) : bool := forallb (fun s => negb (is_some (regs st s))) l.

(* a count changed by a plain field update (ss.refs++, collection_merger.go:110):
   the verifRef hook does not see it *)
Definition unlog : M := fun st =>
  Some (mkState (hp st) (files st) (regs st) (handles st) (hand st) (leaked st)
          (removelast (elog st)) (ct st)).
Definition set_ctl (f : ctl -> ctl) : M := fun st => Some (with_ct st (f (ct st))).
Definition c_nch n c := mkCtl n (mph c) (pph c) (pbase c) (copen c) (sopen c) (cur c) (nextfile c) (inc c).
Definition c_drop c := mkCtl 0 (mph c) (pph c) (pbase c) (copen c) (sopen c) (cur c) (nextfile c) (S (inc c)).
Definition c_mph n c := mkCtl (nch c) n (pph c) (pbase c) (copen c) (sopen c) (cur c) (nextfile c) (inc c).
Definition c_pph n b c := mkCtl (nch c) (mph c) n b (copen c) (sopen c) (cur c) (nextfile c) (inc c).
Definition c_copen b c := mkCtl (nch c) (mph c) (pph c) (pbase c) b (sopen c) (cur c) (nextfile c) (inc c).
Definition c_sopen b c := mkCtl (nch c) (mph c) (pph c) (pbase c) (copen c) b (cur c) (nextfile c) (inc c).

(* readers *)
Definition refs_of (o : oid) (st : state) : list oid := refs_at (hp st) o.
Definition kids_of (o : oid) (st : state) : list oid := kids_at (hp st) o.
Definition first_ref (o : oid) (st : state) : option oid := hd_error (refs_at (hp st) o).
Definition tag_of (o : oid) (st : state) : nat :=
  match nth_error (hp st) o with Some ob => o_file ob | None => 0 end.
Definition cur_inc (st : state) : nat := inc (ct st).

(* close of a root slot: x := slot; slot = nil; x.Close() *)
Definition close_slot (s : slot) : M :=
  rd (reg s) (fun x => whenS x (fun o => take s ;; decref o)).
Definition odecref (x : option oid) : M := whenS x decref.

(* ------------------------------------------------------------------ *)
(* collection.snapshot (collection.go:560): rv{refs:1};
   rv.lowerLevelSnapshot = m.lowerLevelSnapshot.addRef(); appendChildLLSnapshot:
   per child collection a child stack {refs:1} with NewSnapshotWrapper of
   src.ChildCollectionSnapshot(name) (which AddRef()s the child footer). *)
Fixpoint build_kids (n i : nat) (f : option oid) (acc : list oid) (cont : list oid -> M) : M :=
  match n with
  | 0 => cont acc
  | S n' =>
      rd cur_inc (fun e =>
      rd (fun st => match f with Some fo => nth_error (kids_of fo st) i | None => None end)
        (fun ocf =>
           match ocf with
           | Some cf =>
               addref cf ;;
               rd (tag_of cf) (fun t =>
                 if Nat.eqb t e
                 then alloc_k KWrap false [cf] [] 0 (fun cw =>
                      alloc_k KStack false [cw] [] e (fun cs =>
                      build_kids n' (S i) f (acc ++ [cs]) cont))
                 else (* a prior incarnation of a dropped and recreated child:
                         childFooter.Close() (collection.go:701-707) *)
                      decref cf ;;
                      alloc_k KStack false [] [] e (fun cs =>
                      build_kids n' (S i) f (acc ++ [cs]) cont))
           | None => alloc_k KStack false [] [] e (fun cs =>
                        build_kids n' (S i) f (acc ++ [cs]) cont)
           end))
  end.

Definition snapshot_build (cont : oid -> M) : M :=
  rd (reg SLL) (fun ow =>
  rd (fun st => nch (ct st)) (fun n =>
    match ow with
    | Some w => addref w ;;
                rd (first_ref w) (fun f =>
                build_kids n 0 f [] (fun ks => alloc_k KStack true [w] ks 0 cont))
    | None => build_kids n 0 None [] (fun ks => alloc_k KStack true [] ks 0 cont)
    end)).

(* invalidateLatestSnapshotLOCKED (collection.go:228) *)
Definition invalidate : M := close_slot SCached.

(* Footer.loadSegments for one footer (store_footer.go:284-369): the segment
   locations that already carry an mref get mref.AddRef(); each new one gets
   fref.AddRef() and a new mmapRef{refs:1} *)
Fixpoint new_mmaps (n : nat) (fref : oid) (acc : list oid) (cont : list oid -> M) : M :=
  match n with
  | 0 => cont acc
  | S n' => addref fref ;;
            rd (fun st => match nth_error (hp st) fref with Some ob => o_file ob | None => 0 end)
              (fun fl => alloc_k KMmap false [fref] [] fl (fun m =>
                         new_mmaps n' fref (acc ++ [m]) cont))
  end.
Definition load_footer (top : bool) (old : list oid) (nnew : nat) (fref : oid)
           (ks : list oid) (tag : nat) (cont : oid -> M) : M :=
  each old addref ;;
  new_mmaps nnew fref [] (fun ms => alloc_k KFooter top (old ++ ms) ks tag cont).

(* the child footers of a new store footer, one per child stack of the stack
   being persisted (tags: their incarnations); with keep, the locations of the
   old child footer of the same name and incarnation are carried over
   (buildNewFooter, store.go:198-219) *)
Fixpoint load_kids (tags : list nat) (i : nat) (oldf : option oid) (keep : bool) (nnew : nat)
         (fref : oid) (acc : list oid) (cont : list oid -> M) : M :=
  match tags with
  | [] => cont acc
  | t :: tags' =>
      rd (fun st => match oldf with
                    | Some f => if keep then match nth_error (kids_of f st) i with
                                             | Some cf => if Nat.eqb (tag_of cf st) t
                                                          then refs_of cf st else []
                                             | None => [] end
                                else []
                    | None => [] end)
        (fun old => load_footer false old nnew fref [] t (fun cf =>
                    load_kids tags' (S i) oldf keep nnew fref (acc ++ [cf]) cont))
  end.

(* Footer.childFileRef (store_footer.go:495) *)
Fixpoint child_fref (ks : list oid) (st : state) : option oid :=
  match ks with
  | [] => None
  | k :: r => match refs_of k st with
              | m :: _ => first_ref m st
              | [] => child_fref r st
              end
  end.

(* Store.startOrReuseFile (store.go:261): s.footer.segmentLocs() [+1],
   slocs[0].mref.fref.AddRef() or childFileRef().AddRef() or startFileLOCKED(),
   deferred s.footer.DecRef() *)
Definition start_or_reuse (cont : oid -> M) : M :=
  rd (reg SFooter) (fun of =>
    match of with
    | Some f =>
        addref f ;;
        rd (fun st => match refs_of f st with
                      | m :: _ => first_ref m st
                      | [] => child_fref (kids_of f st) st end)
          (fun ofr => match ofr with
                      | Some fr => addref fr ;; decref f ;; cont fr
                      | None => newfile (fun fr => decref f ;; cont fr)
                      end)
    | None => newfile cont
    end).

(* ------------------------------------------------------------------ *)
(* operations *)

Inductive iterkind :=
  | IKHeap      (* heap iterator with a lower-level iterator *)
  | IKLower     (* optimize() hands out the lower-level (footer) iterator itself *)
  | IKSkipLL    (* SkipLowerLevel: no lower-level iterator *)
  | IKLLDone    (* lower-level iterator is done at once: closed inside startIterator *)
  | IKLLError   (* lowerLevelIter.Current() fails: startIterator returns the error *)
  | IKSingleSkipLL  (* SkipLowerLevel and exactly one segment cursor: optimize() hands out
                       an iteratorSingle, which holds no stack *)
  | IKSingleLLDone. (* lower-level iterator done at once and exactly one segment cursor *)

(* what the restart of the lower-level iterator in SeekTo comes to *)
Inductive seekkind :=
  | SKLower     (* a new lower-level iterator (if the stack has a lower level) *)
  | SKSkipLL    (* the iterator was started with SkipLowerLevel: none *)
  | SKLLDone.   (* the new lower-level iterator is done at once: closed inside startIterator *)

Inductive mbranch := BrMerged | BrEmpty | BrError.

Inductive pmode :=
  | PClean                                    (* nothing to persist: s.Snapshot() *)
  | PAppend (probe : bool) (ntop nkid : nat)  (* append ntop segments, nkid per child *)
  | PCompactFull                              (* compaction into a new file *)
  | PCompactFull_pre_fix                      (* the same before repair 1882285 *)
  | PCompactPartial (k : nat).                (* keep the first k segment locations *)

Inductive op :=
  | OpSnapCached | OpSnapFresh | OpCollGet (deep : bool)
  | OpChildSnap (h i : nat)
  | OpStoreSnap
  | OpPrev (h : nat) (found : bool) (ntop nk nper : nat)
  | OpIterStart (h : nat) (ik : iterkind)
  | OpIterSeek (h : nat) (sk : seekkind)
  (* NOT the current code: the iterator before repairs 75e1b64 and 8951c44 *)
  | OpIterStart_pre_fix (h : nat) (ik : iterkind) | OpIterSeek_pre_fix (h : nat)
  | OpCloseH (h : nat)
  | OpBatch (newchild : bool) | OpDropChildren
  | OpMergerIngest | OpMergerSwap (b : mbranch) | OpMergerHandover
  | OpPersistBegin | OpPersistRun (m : pmode) | OpPersistPublish (cache : bool)
  | OpCollClose | OpStoreClose.


(* Collection.Snapshot (collection.go:211) *)
Definition op_snap_cached : M :=
  guard (fun st => copen (ct st) && is_some (reg SCached st))
    (rd (reg SCached) (fun x => whenS x (fun c => addref c ;; pushh (HSnap c)))).
Definition op_snap_fresh : M :=
  guard (fun st => copen (ct st) && negb (is_some (reg SCached st)))
    (snapshot_build (fun rv => addref rv ;; put SCached rv ;; pushh (HSnap rv))).

(* collection.get (collection.go:631): lowerLevelSnapshot.addRef() under the lock,
   decRef() after the lookup; when the key is not in memory (deep) the lookup
   goes through Footer.Get (store_footer.go:513): segmentLocs() [+1], DecRef() *)
Definition op_coll_get (deep : bool) : M :=
  guard (fun st => copen (ct st))
    (rd (reg SLL) (fun x => whenS x (fun w =>
       addref w ;;
       (if deep then rd (first_ref w) (fun of => whenS of (fun f => addref f ;; decref f)) else ret) ;;
       decref w))).

(* segmentStack.ChildCollectionSnapshot (segment_stack.go:227),
   Footer.ChildCollectionSnapshot (store_footer.go:395) *)
Definition op_child_snap (h i : nat) : M :=
  rd (fun st => nth_error (handles st) h) (fun oh =>
    match oh with
    | Some (HSnap s) => rd (fun st => nth_error (kids_of s st) i) (fun oc =>
                          whenS oc (fun c => addref c ;; pushh (HSnap c)))
    | Some (HFoot f) => rd (fun st => nth_error (kids_of f st) i) (fun oc =>
                          whenS oc (fun c => addref c ;; pushh (HFoot c)))
    | _ => ret
    end).

(* Store.snapshot (store_api.go:266) *)
Definition op_store_snap : M :=
  guard (fun st => sopen (ct st))
    (rd (reg SFooter) (fun x => whenS x (fun f => addref f ;; pushh (HFoot f)))).

(* Store.snapshotPrevious (store_previous.go:16): footer.segmentLocs() [+1],
   ScanFooter on slocs[0].mref.fref -> Footer{refs:1}, loadSegments (children
   first), deferred footer.DecRef() *)
Definition op_prev (h : nat) (found : bool) (ntop nk nper : nat) : M :=
  rd (fun st => nth_error (handles st) h) (fun oh =>
    match oh with
    | Some (HFoot f) =>
        addref f ;;
        rd (fun st => match refs_of f st with m :: _ => first_ref m st | [] => None end)
          (fun ofr =>
             match ofr with
             | Some fr =>
                 if found
                 then load_kids (repeat 0 nk) 0 None false nper fr [] (fun ks =>
                      load_footer true [] ntop fr ks 0 (fun p => pushh (HFoot p) ;; decref f))
                 else decref f
             | None => decref f
             end)
    | _ => ret
    end).

(* the lower-level iterator of segmentStack.startIterator (iterator.go:159):
   llss := ss.lowerLevelSnapshot.addRef(); llss.StartIterator -> Footer.StartIterator:
   f.segmentLocs() [+1], InitCloser(f); llss.decRef() *)
Definition ll_iter (s : oid) (cont : option oid -> M) : M :=
  rd (first_ref s) (fun ow =>
    match ow with
    | Some w => addref w ;;
                rd (first_ref w) (fun of =>
                  match of with
                  | Some f => addref f ;; decref w ;; cont (Some f)
                  | None => decref w ;; cont None
                  end)
    | None => cont None
    end).

(* StartIterator on a handle (iterator.go:79-109, store_footer.go:538): the
   heap iterator that segmentStack.StartIterator returns takes ss.addRef()
   after optimize() (released last in iterator.Close()); the error return of
   startIterator closes the lower-level iterator (iterator.go:199-202). *)
Definition op_iter_start (h : nat) (ik : iterkind) : M :=
  rd (fun st => nth_error (handles st) h) (fun oh =>
    match oh with
    | Some (HFoot f) => addref f ;; pushh (HIter None None (Some f))
    | Some (HSnap s) =>
        match ik with
        | IKSkipLL => addref s ;; pushh (HIter (Some s) None None)
        | IKSingleSkipLL => pushh (HIter None None None)
        | _ => ll_iter s (fun ol =>
                 match ol with
                 | None => match ik with
                           | IKSingleLLDone => pushh (HIter None None None)
                           | _ => addref s ;; pushh (HIter (Some s) None None)
                           end
                 | Some f =>
                     match ik with
                     | IKHeap => addref s ;; pushh (HIter (Some s) (Some f) None)
                     | IKLower => pushh (HIter None None (Some f))
                     | IKLLDone => decref f ;; addref s ;; pushh (HIter (Some s) None None)
                     | IKSingleLLDone => decref f ;; pushh (HIter None None None)
                     | IKLLError => decref f
                     | IKSkipLL | IKSingleSkipLL => decref f
                     end
                 end)
        end
    | _ => ret
    end).

(* iterator.SeekTo restarting (iterator.go:368-385): iter.ss.startIterator
   through iter.ss, which the iterator keeps alive, with the iterator's own
   options; then iterOld.Close() without the closer and without the stack
   reference.  The handle is re-inserted at the END of the handle list (a
   convention about the handle table that the scripted scenarios follow). *)
Definition op_iter_seek (h : nat) (sk : seekkind) : M :=
  rd (fun st => nth_error (handles st) h) (fun oh =>
    match oh with
    | Some (HIter (Some s) ll c) =>
        match sk with
        | SKSkipLL => poph h ;; odecref ll ;; pushh (HIter (Some s) None c)
        | _ => ll_iter s (fun nl =>
                 match sk, nl with
                 | SKLLDone, Some f =>
                     decref f ;; poph h ;; odecref ll ;; pushh (HIter (Some s) None c)
                 | _, _ => poph h ;; odecref ll ;; pushh (HIter (Some s) nl c)
                 end)
        end
    | Some (HIter None ll c) => poph h ;; pushh (HIter None ll c)
    | _ => ret
    end).

(* NOT the current code: before repairs 75e1b64 and 8951c44 the iterator
   kept a BORROWED pointer to the stack, and the error return of startIterator
   dropped the lower-level iterator without Close() *)
Definition op_iter_start_pre_fix (h : nat) (ik : iterkind) : M :=
  rd (fun st => nth_error (handles st) h) (fun oh =>
    match oh with
    | Some (HFoot f) => addref f ;; pushh (HIter_pre_fix None None (Some f))
    | Some (HSnap s) =>
        match ik with
        | IKSkipLL | IKSingleSkipLL => pushh (HIter_pre_fix (Some s) None None)
        | _ => ll_iter s (fun ol =>
                 match ol with
                 | None => pushh (HIter_pre_fix (Some s) None None)
                 | Some f =>
                     match ik with
                     | IKHeap => pushh (HIter_pre_fix (Some s) (Some f) None)
                     | IKLower => pushh (HIter_pre_fix None None (Some f))
                     | IKLLDone | IKSingleLLDone => decref f ;; pushh (HIter_pre_fix (Some s) None None)
                     | IKLLError => forget f
                     | IKSkipLL | IKSingleSkipLL => decref f
                     end
                 end)
        end
    | _ => ret
    end).
(* through the BORROWED iter.ss (a released stack has lowerLevelSnapshot == nil:
   its references were cleared) *)
Definition op_iter_seek_pre_fix (h : nat) : M :=
  rd (fun st => nth_error (handles st) h) (fun oh =>
    match oh with
    | Some (HIter_pre_fix (Some s) ll c) =>
        ll_iter s (fun nl => poph h ;; odecref ll ;; pushh (HIter_pre_fix (Some s) nl c))
    | _ => ret
    end).

(* Close of a handle; iterator.Close closes lowerLevelIter, then the closer, then
   gives back the stack reference (iterator.go:236-254) *)
Definition op_close_h (h : nat) : M :=
  rd (fun st => nth_error (handles st) h) (fun oh =>
    match oh with
    | Some (HSnap s) => poph h ;; decref s
    | Some (HFoot f) => poph h ;; decref f
    | Some (HIter s ll c) => poph h ;; odecref ll ;; odecref c ;; odecref s
    | Some (HIter_pre_fix _ ll c) => poph h ;; odecref ll ;; odecref c
    | None => ret
    end).

(* ExecuteBatch (collection.go:361-373) *)
Fixpoint plain_kids (n : nat) (acc : list oid) (cont : list oid -> M) : M :=
  match n with
  | 0 => cont acc
  | S n' => rd cur_inc (fun e =>
            alloc_k KStack false [] [] e (fun c => plain_kids n' (acc ++ [c]) cont))
  end.
Definition op_batch (newchild : bool) : M :=
  guard (fun st => copen (ct st))
    (invalidate ;;
     (if newchild then set_ctl (fun c => c_nch (S (nch c)) c) else ret) ;;
     rd (fun st => nch (ct st)) (fun n =>
     plain_kids n [] (fun ks =>
     alloc_k KStack true [] ks 0 (fun t =>
     rd (reg STop) (fun prev => take STop ;; put STop t ;; odecref prev))))).
(* a batch that deletes every child collection (DelChildCollection for each):
   later children are new incarnations *)
Definition op_drop_children : M :=
  guard (fun st => copen (ct st))
    (invalidate ;;
     set_ctl c_drop ;;
     alloc_k KStack true [] [] 0 (fun t =>
     rd (reg STop) (fun prev => take STop ;; put STop t ;; odecref prev))).

(* runMerger ingest (collection_merger.go:103-132) *)
Definition op_merger_ingest : M :=
  guard (fun st => copen (ct st) && Nat.eqb (mph (ct st)) 0)
    (snapshot_build (fun rv =>
       invalidate ;;
       addref rv ;; unlog ;;
       rd (reg STop) (fun tprev => rd (reg SMid) (fun mprev =>
       take STop ;; take SMid ;; put SMid rv ;; put MMid rv ;;
       rd (reg SBase) (fun ob => whenS ob (fun b => addref b ;; put MBase b)) ;;
       odecref tprev ;; odecref mprev))) ;;
     set_ctl (c_mph 1)).

(* segmentStack.merge (segment_stack_merge.go:85-130) for the child stacks *)
Fixpoint merge_kids (cs : list oid) (acc : list oid) (cont : list oid -> M) : M :=
  match cs with
  | [] => cont acc
  | c :: r => rd (first_ref c) (fun ow =>
                whenS ow addref ;;
                rd (tag_of c) (fun t =>
                alloc_k KStack false (olist ow) [] t (fun g => merge_kids r (acc ++ [g]) cont)))
  end.

(* mergerMain (collection_merger.go:264) *)
Definition op_merger_swap (b : mbranch) : M :=
  guard (fun st => Nat.eqb (mph (ct st)) 1)
    (rd (reg MMid) (fun om =>
      match om with
      | None => ret
      | Some m =>
        match b with
        | BrMerged =>
            rd (first_ref m) (fun ow =>
            whenS ow addref ;;
            rd (kids_of m) (fun cs =>
            merge_kids cs [] (fun gs =>
            alloc_k KStack true (olist ow) gs 0 (fun g =>
              take MMid ;; decref m ;;
              addref g ;;
              rd (reg SMid) (fun prev => take SMid ;; put SMid g ;; invalidate ;; odecref prev) ;;
              close_slot MBase ;;
              decref g)))) ;;
            set_ctl (c_mph 2)
        | BrEmpty =>
            addref m ;;
            rd (reg SMid) (fun prev => take SMid ;; put SMid m ;; odecref prev) ;;
            close_slot MBase ;;
            take MMid ;; decref m ;;
            set_ctl (c_mph 2)
        | BrError =>
            take MMid ;; decref m ;; close_slot MBase ;; set_ctl (c_mph 0)
        end
      end)).

(* refreshChildLLSnapshots (collection.go:720) *)
Fixpoint refresh_kids (cs : list oid) (i : nat) (f : option oid) : M :=
  match cs with
  | [] => ret
  | c :: r =>
      rd (fun st => Nat.ltb i (nch (ct st)) && Nat.eqb (tag_of c st) (cur_inc st)) (fun live =>
        if live then
          rd cur_inc (fun e =>
          rd (fun st => match f with Some fo => nth_error (kids_of fo st) i | None => None end)
            (fun ocf => rd (first_ref c) (fun prev =>
               match ocf with
               | Some cf =>
                   addref cf ;;
                   rd (tag_of cf) (fun t =>
                     if Nat.eqb t e
                     then alloc_k KWrap false [cf] [] 0 (fun nw => setrefs c [nw] ;; odecref prev)
                     else decref cf ;; setrefs c [] ;; odecref prev)
               | None => setrefs c [] ;; odecref prev
               end)))
        else ret (* dropped or recreated meanwhile: continue (collection.go:723-726) *)) ;;
      refresh_kids r (S i) f
  end.

(* mergerNotifyPersister (collection_merger.go:338) *)
Definition op_merger_handover : M :=
  guard (fun st => Nat.eqb (mph (ct st)) 2)
    (rd (reg SBase) (fun ob => rd (reg SMid) (fun om =>
       match ob, om with
       | None, Some b =>
           take SMid ;; put SBase b ;;
           rd (first_ref b) (fun prev =>
           rd (reg SLL) (fun ow =>
             match ow with
             | Some w => addref w ;; setrefs b [w] ;; odecref prev ;;
                         rd (first_ref w) (fun f => rd (kids_of b) (fun cs => refresh_kids cs 0 f))
             | None => setrefs b [] ;; odecref prev
             end))
       | _, _ => ret
       end)) ;;
     set_ctl (c_mph 0)).

(* runPersister: stackDirtyBase := m.stackDirtyBase (persister.go:62), borrowed *)
Definition op_persist_begin : M :=
  guard (fun st => copen (ct st) && Nat.eqb (pph (ct st)) 0 && is_some (reg SBase st))
    (rd (reg SBase) (fun b => set_ctl (c_pph 1 b))).

Definition tags_pbase (st : state) : list nat :=
  match pbase (ct st) with Some b => map (fun c => tag_of c st) (kids_of b st) | None => [] end.

(* Footer.childrenChanged (store_footer.go:478) *)
Fixpoint kids_changed (fk : list oid) (tags : list nat) (st : state) : bool :=
  match fk with
  | [] => false
  | k :: fr => match tags with
               | [] => true
               | t :: tr => negb (Nat.eqb (tag_of k st) t) || kids_changed fr tr st
               end
  end.

(* compactMaybe with a full compaction (store_compact.go:34-110): snapshot(),
   segmentLocs(), compact() into a new file, then removeFileOnClose of the file
   that was compacted away: slocs[0].mref.fref or - repair 1882285, childfb -
   when the top-level footer has no segment location, footer.childFileRef() *)
Definition compact_full (childfb : bool) (f : oid) : M :=
        addref f ;; addref f ;;
        newfile (fun fr =>
        rd tags_pbase (fun nk =>
        load_kids nk 0 None false 1 fr [] (fun ks =>
        load_footer true [] 1 fr ks 0 (fun c =>
          take SFooter ;; put SFooter c ;; decref f ;;
          decref fr ;;
          rd (fun st => match refs_of f st with
                        | m0 :: _ => first_ref m0 st
                        | [] => if childfb then child_fref (kids_of f st) st else None end)
             (fun ofr => whenS ofr setrm) ;;
          addref f ;; decref f ;; decref f ;; decref f ;;
          addref c ;; put PNext c)))).

(* Store.persist (store.go:92) *)
Definition op_persist_run (m : pmode) : M :=
  guard (fun st => Nat.eqb (pph (ct st)) 1 && sopen (ct st) && is_some (reg SFooter st))
   (rd (reg SFooter) (fun of => whenS of (fun f =>
    match m with
    | PClean => addref f ;; put PNext f
    | PAppend probe ntop nkid =>
      (* compactMaybe deciding against compaction: snapshot(), segmentLocs(), 2 deferred DecRef *)
      (if probe then addref f ;; addref f ;; decref f ;; decref f else ret) ;;
      (* ss.isEmpty() and no child collection dropped: s.Snapshot() (store.go:118-125) *)
      rd (fun st => Nat.eqb (ntop + length (tags_pbase st) * nkid) 0
                    && negb (kids_changed (kids_of f st) (tags_pbase st) st)) (fun clean =>
      if clean then addref f ;; put PNext f else
        start_or_reuse (fun fr =>
        rd tags_pbase (fun nk =>
        load_kids nk 0 (Some f) true nkid fr [] (fun ks =>
        rd (refs_of f) (fun old =>
        load_footer true old ntop fr ks 0 (fun n =>
          addref n ;;
          take SFooter ;; put SFooter n ;; decref f ;;
          put PNext n ;;
          decref fr))))))
    | PCompactFull => compact_full true f
    | PCompactFull_pre_fix => compact_full false f
    | PCompactPartial k =>
        rd (refs_of f) (fun old =>
        if Nat.ltb 0 k && Nat.ltb k (length old) then
          addref f ;; addref f ;;
          start_or_reuse (fun fr =>
          rd tags_pbase (fun nk =>
          load_kids nk 0 None false 1 fr [] (fun ks =>
          load_footer true (firstn k old) 1 fr ks 0 (fun c =>
            take SFooter ;; put SFooter c ;; decref f ;;
            decref fr ;;
            addref f ;; decref f ;; decref f ;; decref f ;;
            addref c ;; put PNext c))))
        else addref f ;; put PNext f)
    end ;;
    set_ctl (fun c => c_pph 2 (pbase c) c)))).

(* runPersister publish (persister.go:94-129) *)
Definition op_persist_publish (cache : bool) : M :=
  guard (fun st => Nat.eqb (pph (ct st)) 2)
    (invalidate ;;
     rd (reg SClean) (fun cprev => rd (reg SBase) (fun b => rd (reg SLL) (fun lprev =>
     rd (reg PNext) (fun n =>
       take SClean ;; take SBase ;;
       (if cache then whenS b (put SClean) else ret) ;;
       take SLL ;; take PNext ;;
       whenS n (fun nf => alloc_k KWrap true [nf] [] 0 (fun w => put SLL w)) ;;
       (if cache then ret else odecref b) ;;
       odecref cprev ;;
       odecref lprev)))) ;;
     set_ctl (c_pph 0 None)).

(* collection.Close (collection.go:122): waits for the merger and the persister *)
Definition coll_close_body : M :=
  invalidate ;;
  close_slot SLL ;;
  rd (reg STop) (fun t => rd (reg SMid) (fun m => rd (reg SBase) (fun b => rd (reg SClean) (fun c =>
    take STop ;; take SMid ;; take SBase ;; take SClean ;;
    odecref t ;; odecref m ;; odecref b ;; odecref c)))).
Definition op_coll_close : M :=
  guard (fun st => copen (ct st) && Nat.eqb (mph (ct st)) 0 && Nat.eqb (pph (ct st)) 0)
    (coll_close_body ;; check (none_at coll_slots) ;; set_ctl (c_copen false)).

(* Store.Close (store_api.go:285), after the collection *)
Definition store_close_body : M := close_slot SFooter.
Definition op_store_close : M :=
  guard (fun st => sopen (ct st) && negb (copen (ct st)))
    (store_close_body ;; check (none_at [SFooter]) ;; set_ctl (c_sopen false)).

Definition body (o : op) : M :=
  match o with
  | OpSnapCached => op_snap_cached
  | OpSnapFresh => op_snap_fresh
  | OpCollGet d => op_coll_get d
  | OpChildSnap h i => op_child_snap h i
  | OpStoreSnap => op_store_snap
  | OpPrev h fd a b c => op_prev h fd a b c
  | OpIterStart h ik => op_iter_start h ik
  | OpIterSeek h sk => op_iter_seek h sk
  | OpIterStart_pre_fix h ik => op_iter_start_pre_fix h ik
  | OpIterSeek_pre_fix h => op_iter_seek_pre_fix h
  | OpCloseH h => op_close_h h
  | OpBatch nc => op_batch nc
  | OpDropChildren => op_drop_children
  | OpMergerIngest => op_merger_ingest
  | OpMergerSwap b => op_merger_swap b
  | OpMergerHandover => op_merger_handover
  | OpPersistBegin => op_persist_begin
  | OpPersistRun m => op_persist_run m
  | OpPersistPublish c => op_persist_publish c
  | OpCollClose => op_coll_close
  | OpStoreClose => op_store_close
  end.

Definition step (o : op) : M := body o ;; finish.

Fixpoint run_from (st : state) (ops : list op) : option state :=
  match ops with
  | [] => Some st
  | o :: r => match step o st with Some st' => run_from st' r | None => None end
  end.

(* OpenStoreCollection on an empty directory: emptyFooter{refs:1}, s.Snapshot()
   [+1] wrapped by NewSnapshotWrapper as the collection's lowerLevelSnapshot *)
Definition init : state :=
  mkState [mkObj KFooter true 2 [] [] 0 false; mkObj KWrap true 1 [0] [] 0 false]
          [] (rset (rset (fun _ => None) SFooter (Some 0)) SLL (Some 1))
          [] [] [] []
          (mkCtl 0 0 0 None true true None 1 1).

Definition run (ops : list op) : option state := run_from init ops.

(* observations *)
Definition counts (st : state) : list (kind * nat) := map (fun ob => (o_kind ob, o_cnt ob)) (hp st).
Definition run_ops (ops : list op) : option (list (kind * nat)) := option_map counts (run ops).
Fixpoint run_trace_from (st : state) (ops : list op) : option (list (list (kind * nat))) :=
  match ops with
  | [] => Some []
  | o :: r => match step o st with
              | Some st' => option_map (cons (counts st')) (run_trace_from st' r)
              | None => None
              end
  end.
Definition run_trace (ops : list op) := run_trace_from init ops.
(* every AddRef/DecRef with the kind of the object and the count after *)
Definition run_events (ops : list op) : option (list (kind * oid * nat)) :=
  option_map (fun st => map (fun e => (match nth_error (hp st) (fst e) with
                                       | Some ob => o_kind ob | None => KFile end,
                                       fst e, snd e)) (elog st)) (run ops).

Definition all_closed (st : state) : Prop :=
  handles st = [] /\ copen (ct st) = false /\ sopen (ct st) = false.
Definition all_closed_b (st : state) : bool :=
  match handles st with [] => negb (copen (ct st)) && negb (sopen (ct st)) | _ => false end.

Definition open_fds (st : state) : list nat :=
  flat_map (fun ob => match o_kind ob, o_cnt ob with KFile, S _ => [o_file ob] | _, _ => [] end) (hp st).
Definition mappings (st : state) : nat :=
  length (filter (fun ob => match o_kind ob, o_cnt ob with KMmap, S _ => true | _, _ => false end) (hp st)).

(* borrowed (uncounted) pointers: the persister's stackDirtyBase and, before
   repair 75e1b64, iterator.ss *)
Definition borrowed (st : state) : list oid :=
  flat_map (fun h => match h with HIter_pre_fix (Some s) _ _ => [s] | _ => [] end) (handles st)
  ++ olist (pbase (ct st)).
Definition borrow_safe (st : state) : Prop := forall o, In o (borrowed st) -> cnt_of (hp st) o > 0.
Definition borrow_safe_b (st : state) : bool :=
  forallb (fun o => Nat.ltb 0 (cnt_of (hp st) o)) (borrowed st).

(* an operation that does not take the pre-repair error return of startIterator *)
Definition no_ll_error (o : op) : bool :=
  match o with OpIterStart_pre_fix _ IKLLError => false | _ => true end.

(* the operations of the CURRENT code: none of the pre-repair variants *)
Definition current_code (o : op) : bool :=
  match o with
  | OpIterStart_pre_fix _ _ | OpIterSeek_pre_fix _ | OpPersistRun PCompactFull_pre_fix => false
  | _ => true
  end.
