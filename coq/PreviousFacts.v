From Coq Require Import List NArith Bool Lia Arith.
From Moss Require Import Bytes Segment Stack StackFacts Collection CollectionFacts Store StoreFacts Previous.

Section WithMerge.
  Variable fm : bytes -> value -> bytes -> value.

  Definition dflt : hfooter := {| h_segs := []; h_prev := None |}.
  Definition cur_segs (f : hfile) : llsnap :=
    match current f with Some i => h_segs (nth i f dflt) | None => [] end.

  (* back links always point to strictly older footers of the same file *)
  Definition links_ok (f : hfile) : Prop :=
    forall i fi, nth_error f i = Some fi -> forall j, h_prev fi = Some j -> j < i.

  Lemma current_lt f i : current f = Some i -> i < length f.
  Proof. destruct f; simpl; [discriminate|]. intros [= <-]. lia. Qed.

  Lemma links_ok_snoc f x :
    links_ok f -> (forall j, h_prev x = Some j -> j < length f) -> links_ok (f ++ [x]).
  Proof.
    intros H Hx i fi Hn j Hj.
    destruct (Nat.lt_ge_cases i (length f)) as [Hi|Hi].
    - rewrite (@nth_error_app1 hfooter) in Hn by auto. eapply H; eauto.
    - rewrite (@nth_error_app2 hfooter) in Hn by auto.
      destruct (i - length f) as [|k] eqn:E; simpl in Hn.
      + injection Hn as <-. specialize (Hx j Hj). lia.
      + destruct k; discriminate.
  Qed.

  Lemma links_ok_append f higher : links_ok f -> links_ok (h_append f higher).
  Proof.
    intros H. apply links_ok_snoc; auto. simpl. intros j Hj. now apply current_lt.
  Qed.

  Lemma links_ok_partial f sp higher : links_ok f -> links_ok (h_compact_partial fm f sp higher).
  Proof. intros H. apply links_ok_snoc; auto. simpl. discriminate. Qed.

  Lemma links_ok_full f higher : links_ok (h_compact_full fm f higher).
  Proof.
    intros i fi Hn j Hj. destruct i as [|[|i]]; simpl in Hn; try discriminate.
    injection Hn as <-. discriminate.
  Qed.

  Lemma links_ok_revert f t f' : links_ok f -> h_revert f t = Some f' -> links_ok f'.
  Proof.
    unfold h_revert. destruct (nth_error f t); [|discriminate]. intros H [= <-].
    apply links_ok_snoc; auto. simpl. intros j Hj. now apply current_lt.
  Qed.

  (* C12: after an append persist, the previous snapshot of the new current
     footer is the footer that was current, unchanged *)
  Theorem previous_of_append f higher i :
    current f = Some i ->
    h_previous (h_append f higher) (length f) = Some i /\
    nth_error (h_append f higher) i = nth_error f i.
  Proof.
    intros Hc. unfold h_previous, h_append. split.
    - rewrite (@nth_error_app2 hfooter) by lia. rewrite Nat.sub_diag. simpl. exact Hc.
    - apply (@nth_error_app1 hfooter). now apply current_lt.
  Qed.

  (* appending never changes an older footer: what SnapshotPrevious returns
     is exactly what the store exposed after that earlier round *)
  Theorem older_footers_immutable (f : hfile) (x : hfooter) i :
    i < length f -> nth_error (f ++ [x]) i = nth_error f i.
  Proof. intros H. now apply (@nth_error_app1 hfooter). Qed.

  (* compactions cut the chain *)
  Theorem previous_of_compaction_is_nil f sp higher :
    h_previous (h_compact_partial fm f sp higher) (length f) = None /\
    h_previous (h_compact_full fm f higher) 0 = None.
  Proof.
    unfold h_previous, h_compact_partial, h_compact_full. split.
    - rewrite (@nth_error_app2 hfooter) by lia. now rewrite Nat.sub_diag.
    - reflexivity.
  Qed.

  (* the walk visits strictly decreasing indices, hence terminates; with fuel
     = the start index it is complete *)
  Lemma walk_decreasing fuel f i :
    links_ok f -> forall j, In j (h_walk fuel f i) -> j < i.
  Proof.
    intros Hl. revert i. induction fuel as [|k IH]; intros i j Hin; simpl in Hin; [destruct Hin|].
    unfold h_previous in *. destruct (nth_error f i) as [fi|] eqn:E; [|destruct Hin].
    destruct (h_prev fi) as [p|] eqn:Ep; [|destruct Hin].
    assert (p < i) by (eapply Hl; eauto).
    destruct Hin as [<-|Hin]; auto. specialize (IH p j Hin). lia.
  Qed.

  (* walks inside the old part of the file are not affected by later appends *)
  Lemma walk_snoc_old fuel f x i :
    links_ok f -> i < length f -> h_walk fuel (f ++ [x]) i = h_walk fuel f i.
  Proof.
    intros Hl. revert i. induction fuel as [|k IH]; intros i Hi; simpl; auto.
    unfold h_previous. rewrite (@nth_error_app1 hfooter) by auto.
    destruct (nth_error f i) as [fi|] eqn:E; auto.
    destruct (h_prev fi) as [p|] eqn:Ep; auto.
    assert (p < i) by (eapply Hl; eauto).
    f_equal. apply IH. lia.
  Qed.

  (* C12, chain: after an append persist the walk back from the new current
     footer is the old current footer followed by the old walk *)
  Theorem walk_after_append fuel f higher i :
    links_ok f -> current f = Some i ->
    h_walk (S fuel) (h_append f higher) (length f) = i :: h_walk fuel f i.
  Proof.
    intros Hl Hc. simpl. destruct (previous_of_append f higher i Hc) as [Hp _]. rewrite Hp.
    f_equal. unfold h_append. apply walk_snoc_old; auto. now apply current_lt.
  Qed.

  (* ... a compaction (partial or full) cuts it: nothing older is reachable *)
  Theorem walk_after_compaction fuel f sp higher :
    h_walk fuel (h_compact_partial fm f sp higher) (length f) = [] /\
    h_walk fuel (h_compact_full fm f higher) 0 = [].
  Proof.
    destruct (previous_of_compaction_is_nil f sp higher) as [H1 H2].
    destruct fuel; simpl; auto. split.
    - rewrite H1. reflexivity.
    - unfold h_compact_full, h_previous in *. simpl. reflexivity.
  Qed.

  (* C12, revert: the reverted footer holds exactly the target's content, it
     is the new current footer, and the history stays walkable behind it *)
  Theorem revert_is_exact f t f' ft i :
    links_ok f -> nth_error f t = Some ft -> current f = Some i -> h_revert f t = Some f' ->
    current f' = Some (length f) /\
    (exists fr, nth_error f' (length f) = Some fr /\ h_segs fr = h_segs ft) /\
    (forall fuel, h_walk (S fuel) f' (length f) = i :: h_walk fuel f i) /\
    (forall j, j < length f -> nth_error f' j = nth_error f j).
  Proof.
    intros Hl Ht Hc. unfold h_revert. rewrite Ht. intros [= <-].
    repeat split.
    - unfold current. destruct (f ++ [_]) eqn:E; [destruct f; discriminate|].
      rewrite <- E, app_length. simpl. f_equal. lia.
    - eexists. split; [rewrite (@nth_error_app2 hfooter) by lia; rewrite Nat.sub_diag; reflexivity|reflexivity].
    - intros fuel. simpl. unfold h_previous at 1.
      rewrite (@nth_error_app2 hfooter) by lia. rewrite Nat.sub_diag. simpl. rewrite Hc.
      f_equal. apply walk_snoc_old; auto. now apply current_lt.
    - intros j Hj. now apply (@nth_error_app1 hfooter).
  Qed.

  (* batches persisted after a revert build on the reverted content *)
  Theorem append_after_revert_builds_on_target f t f' ft higher k :
    nth_error f t = Some ft -> h_revert f t = Some f' ->
    llv fm (cur_segs (h_append f' higher)) k = sget fm higher (llv fm (h_segs ft)) k.
  Proof.
    intros Ht. unfold h_revert. rewrite Ht. intros [= <-].
    unfold cur_segs, h_append.
    set (g := f ++ [{| h_segs := h_segs ft; h_prev := current f |}]).
    assert (Hg : current g = Some (length f)).
    { unfold current, g. destruct (f ++ [_]) eqn:E; [destruct f; discriminate|].
      rewrite <- E, app_length. simpl. f_equal. lia. }
    assert (Hc2 : current (g ++ [{| h_segs := persist_append higher
                     match current g with Some i => h_segs (nth i g {| h_segs := []; h_prev := None |}) | None => [] end;
                     h_prev := current g |}]) = Some (length g)).
    { unfold current. destruct (g ++ [_]) eqn:E; [destruct g; discriminate|].
      rewrite <- E, app_length. simpl. f_equal. lia. }
    rewrite Hc2. rewrite app_nth2 by lia. rewrite Nat.sub_diag. simpl.
    rewrite Hg. unfold g. rewrite app_nth2 by lia. rewrite Nat.sub_diag. simpl.
    apply persist_append_view.
  Qed.
End WithMerge.
