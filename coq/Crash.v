(* Crash.v — the write/sync discipline of a data file and what a crash can
   leave of it.  Executable definitions only (proofs: CrashFacts.v).

   A trace is the sequence of operations issued on ONE file: writes (each is
   either a footer or something else: header page, segment key/value bytes)
   and syncs.  A footer only refers to bytes written BEFORE it (its segment
   locations and the previous footer's offset). *)
From Coq Require Export List Bool Arith.
Export ListNotations.

Inductive cop := CWrite (footer : bool) | CSync.

(* barrier_ok: whenever a footer is written, everything written before it has
   been synced (persistFooter: Sync; write footer; Sync).
   dirty = something has been written since the last sync. *)
Fixpoint barrier_from (dirty : bool) (tr : list cop) : bool :=
  match tr with
  | [] => true
  | CSync :: r => barrier_from false r
  | CWrite false :: r => barrier_from true r
  | CWrite true :: r => negb dirty && barrier_from true r
  end.
Definition barrier_ok (tr : list cop) : bool := barrier_from false tr.

(* is there a sync at a position in [i, j) ? *)
Definition sync_between (tr : list cop) (i j : nat) : bool :=
  existsb (fun o => match o with CSync => true | _ => false end) (firstn (j - i) (skipn i tr)).

(* A crash after the first p operations, on a file system that may reorder,
   drop or tear every write not yet followed by a sync: `present i` tells
   whether the write at position i is completely on disk.  Legal: a write that
   was followed by a sync (before the crash) is present; nothing issued after
   the crash point is. *)
Definition legal_image (tr : list cop) (p : nat) (present : nat -> bool) : Prop :=
  (forall i, i < p -> sync_between tr (S i) p = true -> present i = true) /\
  (forall i, p <= i -> present i = false).

Definition is_footer_at (tr : list cop) (i : nat) : bool :=
  match nth_error tr i with Some (CWrite true) => true | _ => false end.
Definition is_write_at (tr : list cop) (i : nat) : bool :=
  match nth_error tr i with Some (CWrite _) => true | _ => false end.
