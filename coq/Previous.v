(* Previous.v — the chain of footers inside one data file: SnapshotPrevious
   and SnapshotRevert.  A footer is its persisted segment stack plus a back
   link (PrevFooterOffset) to the footer it was appended after; compactions
   write footers without a back link.  Executable definitions only. *)
From Moss Require Export Collection Store.

Record hfooter := { h_segs : llsnap; h_prev : option nat }.   (* index into the file's footer list *)

(* the data file: footers in the order written (index = position);
   a full compaction starts a new file (a new, empty list) *)
Definition hfile := list hfooter.

Definition current (f : hfile) : option nat :=
  match f with [] => None | _ => Some (length f - 1) end.

Section WithMerge.
  Variable fm : bytes -> value -> bytes -> value.

  (* Store.persist, append path *)
  Definition h_append (f : hfile) (higher : list segment) : hfile :=
    let cur_segs := match current f with Some i => h_segs (nth i f {| h_segs := []; h_prev := None |}) | None => [] end in
    f ++ [{| h_segs := persist_append higher cur_segs; h_prev := current f |}].

  (* partial compaction into the same file: no back link *)
  Definition h_compact_partial (f : hfile) (sp : nat) (higher : list segment) : hfile :=
    let cur_segs := match current f with Some i => h_segs (nth i f {| h_segs := []; h_prev := None |}) | None => [] end in
    f ++ [{| h_segs := compact fm sp higher cur_segs; h_prev := None |}].

  (* full compaction: a new file holding one footer, no back link *)
  Definition h_compact_full (f : hfile) (higher : list segment) : hfile :=
    let cur_segs := match current f with Some i => h_segs (nth i f {| h_segs := []; h_prev := None |}) | None => [] end in
    [{| h_segs := compact fm 0 higher cur_segs; h_prev := None |}].

  (* SnapshotRevert to footer t of the current file: a copy of its segment
     locations is appended as the newest footer, linked to the footer that was
     current (so that the history stays walkable) *)
  Definition h_revert (f : hfile) (t : nat) : option hfile :=
    match nth_error f t with
    | Some ft => Some (f ++ [{| h_segs := h_segs ft; h_prev := current f |}])
    | None => None
    end.

  (* SnapshotPrevious *)
  Definition h_previous (f : hfile) (i : nat) : option nat :=
    match nth_error f i with
    | Some fi => h_prev fi
    | None => None
    end.

  (* walking back from footer i: the indices visited, newest first *)
  Fixpoint h_walk (fuel : nat) (f : hfile) (i : nat) : list nat :=
    match fuel with
    | O => []
    | S k => match h_previous f i with
             | Some j => j :: h_walk k f j
             | None => []
             end
    end.
End WithMerge.
