(* Bytes.v — byte strings and the bytewise lexicographic order used everywhere
   in moss (Go's bytes.Compare).  Executable definitions only; lemmas about
   them are in BytesFacts.v so the model still runs when a proof breaks. *)
From Coq Require Export List NArith Bool.
Export ListNotations.

Definition bytes := list N.          (* each element < 256 in practice; the order lemmas need no bound *)

(* bytes.Compare *)
Fixpoint bcmp (a b : bytes) : comparison :=
  match a, b with
  | [], [] => Eq
  | [], _ :: _ => Lt
  | _ :: _, [] => Gt
  | x :: a', y :: b' =>
      match N.compare x y with
      | Eq => bcmp a' b'
      | c => c
      end
  end.

Definition beqb (a b : bytes) : bool := match bcmp a b with Eq => true | _ => false end.
Definition bltb (a b : bytes) : bool := match bcmp a b with Lt => true | _ => false end.
Definition bleb (a b : bytes) : bool := match bcmp a b with Gt => false | _ => true end.

Definition blt (a b : bytes) : Prop := bcmp a b = Lt.
Definition ble (a b : bytes) : Prop := bcmp a b <> Gt.

(* sharedPrefixLen (iterator.go) *)
Fixpoint shared_prefix_len (a b : bytes) : nat :=
  match a, b with
  | x :: a', y :: b' => if N.eqb x y then S (shared_prefix_len a' b') else 0
  | _, _ => 0
  end.

(* Go values: nil vs. non-nil (possibly empty) slice. *)
Definition value := option bytes.
