(* CrashFiles.v - the DIRECTORY of data files under a power failure, at the level of the
   recorded file operations (C05, second sentence: "that prefix is at least as long as the
   one covered by the last persistence round that completed with syncing enabled" - also
   when LATER rounds ran without syncing).

   Crash.v looks at one file (a complete footer has everything written before it);
   StoreCrash.v at the rounds of one option set.  Here: several files, footers numbered in
   the order they were written, Sync per file, unlink - and what every crash image can
   hold: the synced footers of the files that still exist, plus any subset of the footers
   written since a file's last Sync.  OpenStore serves the LAST footer it finds in the
   NEWEST file that has one.

   The discipline [files_ok] (a boolean, evaluated by the crash runner on every recorded
   trace of the real code):
     - a file is created with a sequence number above every existing file's;
     - a footer is written to a file only while no NEWER existing file holds a footer
       (else the newer, staler file would be served: known finding F30 breaks this on
       purpose-built I/O failures);
     - the file holding the newest footer that was ever made durable is never unlinked.
   Executable definitions only; proofs in CrashFilesFacts.v. *)
From Coq Require Import List Arith Bool.
Import ListNotations.

Inductive fev :=
| FCreate (f : nat)        (* a data file with sequence number f is created (empty) *)
| FFooter (f : nat)        (* a complete footer is written to file f *)
| FSync (f : nat)          (* file f is synced *)
| FUnlink (f : nat).       (* file f is removed from the directory *)

Record dfile := {
  d_exists : bool;
  d_durable : list nat;    (* ids of the footers a Sync has covered *)
  d_pending : list nat     (* ids of the footers written since the last Sync *)
}.
Definition dfile0 : dfile := {| d_exists := false; d_durable := []; d_pending := [] |}.

Record dstate := {
  files : nat -> dfile;
  hi : nat;                (* above every sequence number ever created *)
  next_id : nat;           (* footers are numbered in the order they are written *)
  g_synced : option nat    (* the newest footer that was ever made durable *)
}.
Definition dinit : dstate := {| files := fun _ => dfile0; hi := 0; next_id := 0; g_synced := None |}.

Definition upd (m : nat -> dfile) (f : nat) (x : dfile) : nat -> dfile :=
  fun g => if Nat.eqb g f then x else m g.

Definition footers (x : dfile) : list nat := d_pending x ++ d_durable x.

Definition maxl (l : list nat) : nat := fold_right Nat.max 0 l.

Definition omax (a : option nat) (l : list nat) : option nat :=
  match l, a with
  | [], _ => a
  | _, None => Some (maxl l)
  | _, Some g => Some (Nat.max g (maxl l))
  end.

Definition dstep (s : dstate) (e : fev) : dstate :=
  match e with
  | FCreate f =>
      {| files := upd (files s) f {| d_exists := true; d_durable := []; d_pending := [] |};
         hi := Nat.max (hi s) (S f); next_id := next_id s; g_synced := g_synced s |}
  | FFooter f =>
      let x := files s f in
      {| files := upd (files s) f {| d_exists := d_exists x; d_durable := d_durable x;
                                     d_pending := next_id s :: d_pending x |};
         hi := hi s; next_id := S (next_id s); g_synced := g_synced s |}
  | FSync f =>
      let x := files s f in
      {| files := upd (files s) f {| d_exists := d_exists x; d_durable := footers x; d_pending := [] |};
         hi := hi s; next_id := next_id s;
         g_synced := if d_exists x then omax (g_synced s) (d_pending x) else g_synced s |}
  | FUnlink f =>
      let x := files s f in
      {| files := upd (files s) f {| d_exists := false; d_durable := d_durable x; d_pending := d_pending x |};
         hi := hi s; next_id := next_id s; g_synced := g_synced s |}
  end.

Definition drun (tr : list fev) : dstate := fold_left dstep tr dinit.

(* does an existing file with a sequence number in [lo, lo+n) hold a footer? *)
Fixpoint newer_has_footer (s : dstate) (lo n : nat) : bool :=
  match n with
  | 0 => false
  | S n' => (d_exists (files s lo) && negb (match footers (files s lo) with [] => true | _ => false end))
            || newer_has_footer s (S lo) n'
  end.

Fixpoint any_exists (s : dstate) (lo n : nat) : bool :=
  match n with
  | 0 => false
  | S n' => d_exists (files s lo) || any_exists s (S lo) n'
  end.

Definition holds (x : dfile) (id : nat) : bool := existsb (Nat.eqb id) (d_durable x).

(* is this event allowed by the discipline in state s? *)
Definition ev_ok (s : dstate) (e : fev) : bool :=
  match e with
  | FCreate f => negb (any_exists s f (hi s - f))          (* above every existing file *)
  | FFooter f => d_exists (files s f) && negb (newer_has_footer s (S f) (hi s - S f))
  | FSync _ => true
  | FUnlink f => match g_synced s with
                 | Some g => negb (d_exists (files s f) && holds (files s f) g)
                 | None => true
                 end
  end.

Fixpoint files_ok_from (s : dstate) (tr : list fev) : bool :=
  match tr with
  | [] => true
  | e :: r => ev_ok s e && files_ok_from (dstep s e) r
  end.
Definition files_ok (tr : list fev) : bool := files_ok_from dinit tr.

(* a crash image: which footers each file holds *)
Definition image := nat -> list nat.

(* OpenStore: the newest existing file (sequence numbers below n) holding a footer, and the
   last footer in it (footers are appended, ids grow: the last one has the largest id) *)
Fixpoint reopen_from (s : dstate) (img : image) (n : nat) : option (nat * nat) :=
  match n with
  | 0 => None
  | S f => if d_exists (files s f) && negb (match img f with [] => true | _ => false end)
           then Some (f, maxl (img f))
           else reopen_from s img f
  end.
Definition reopen (s : dstate) (img : image) : option (nat * nat) := reopen_from s img (hi s).

(* the pinned compaction under NoSync with a zero-valued CompactionSyncAfterBytes: round 1 synced
   in file 1; the full compaction of round 2 writes file 2 WITHOUT any Sync and file 1 is unlinked *)
Definition tr_unsynced_compaction : list fev :=
  [FCreate 1; FFooter 1; FSync 1; FCreate 2; FFooter 2; FUnlink 1].
(* the repaired code syncs the new file before the old one goes *)
Definition tr_synced_compaction : list fev :=
  [FCreate 1; FFooter 1; FSync 1; FCreate 2; FFooter 2; FSync 2; FUnlink 1].
