(* Sync.v — the wait/notify protocol of writers, merger and Close, over an
   arbitrary number of writers: back-pressure on stackDirtyTop
   (MaxPreMergerBatches), blocked writers, wake-ups, Close.  Writers are
   anonymous: only counts matter.  Executable definitions only. *)
From Coq Require Export List Arith Bool.
Export ListNotations.

Record sy := {
  y_cap : nat;          (* MaxPreMergerBatches *)
  y_top : nat;          (* accepted, not yet ingested batches = len(stackDirtyTop.a) *)
  y_wait : nat;         (* writers blocked in ExecuteBatch on stackDirtyTopCond *)
  y_ok : nat;           (* ExecuteBatch calls that returned nil *)
  y_closed_ret : nat;   (* ExecuteBatch calls that returned ErrClosed *)
  y_arrived : nat;      (* ExecuteBatch calls made (non-empty batches) *)
  y_closed : bool;
  y_syncwait : nat;     (* synchronous NotifyMerger calls waiting for their pong *)
  y_syncret : nat       (* ... that returned *)
}.

Definition sy_init (cap : nat) : sy :=
  {| y_cap := cap; y_top := 0; y_wait := 0; y_ok := 0; y_closed_ret := 0; y_arrived := 0;
     y_closed := false; y_syncwait := 0; y_syncret := 0 |}.

Inductive sl :=
| SArrive          (* a writer calls ExecuteBatch with a non-empty batch *)
| SIngest          (* the merger moves top into mid and broadcasts *)
| SLoopTop         (* the merger reaches the top of its loop: pending pongs are sent *)
| SNotifySync      (* a synchronous NotifyMerger is issued *)
| SClose.          (* Close: stop channel closed, broadcast, goroutines joined *)

Definition sy_step (s : sy) (l : sl) : sy :=
  match l with
  | SArrive =>
      if y_closed s then
        {| y_cap := y_cap s; y_top := y_top s; y_wait := y_wait s; y_ok := y_ok s;
           y_closed_ret := S (y_closed_ret s); y_arrived := S (y_arrived s); y_closed := true;
           y_syncwait := y_syncwait s; y_syncret := y_syncret s |}
      else if Nat.ltb (y_top s) (y_cap s) then
        {| y_cap := y_cap s; y_top := S (y_top s); y_wait := y_wait s; y_ok := S (y_ok s);
           y_closed_ret := y_closed_ret s; y_arrived := S (y_arrived s); y_closed := false;
           y_syncwait := y_syncwait s; y_syncret := y_syncret s |}
      else
        {| y_cap := y_cap s; y_top := y_top s; y_wait := S (y_wait s); y_ok := y_ok s;
           y_closed_ret := y_closed_ret s; y_arrived := S (y_arrived s); y_closed := false;
           y_syncwait := y_syncwait s; y_syncret := y_syncret s |}
  | SIngest =>
      if y_closed s then s else
      (* top is emptied; every blocked writer wakes; the first `cap` of them get in *)
      let k := Nat.min (y_wait s) (y_cap s) in
      {| y_cap := y_cap s; y_top := k; y_wait := y_wait s - k; y_ok := y_ok s + k;
         y_closed_ret := y_closed_ret s; y_arrived := y_arrived s; y_closed := false;
         y_syncwait := y_syncwait s; y_syncret := y_syncret s |}
  | SLoopTop =>
      {| y_cap := y_cap s; y_top := y_top s; y_wait := y_wait s; y_ok := y_ok s;
         y_closed_ret := y_closed_ret s; y_arrived := y_arrived s; y_closed := y_closed s;
         y_syncwait := 0; y_syncret := y_syncret s + y_syncwait s |}
  | SNotifySync =>
      (* not issued on a closed collection (it would wait for a merger that is gone) *)
      if y_closed s then s else
      {| y_cap := y_cap s; y_top := y_top s; y_wait := y_wait s; y_ok := y_ok s;
         y_closed_ret := y_closed_ret s; y_arrived := y_arrived s; y_closed := y_closed s;
         y_syncwait := S (y_syncwait s); y_syncret := y_syncret s |}
  | SClose =>
      (* blocked writers are released with ErrClosed; the merger's deferred
         replyToPings answers every pending pong *)
      {| y_cap := y_cap s; y_top := y_top s; y_wait := 0; y_ok := y_ok s;
         y_closed_ret := y_closed_ret s + y_wait s; y_arrived := y_arrived s; y_closed := true;
         y_syncwait := 0; y_syncret := y_syncret s + y_syncwait s |}
  end.

Definition sy_run (s : sy) (ls : list sl) : sy := fold_left sy_step ls s.
