(* Sync.v — the wait/notify protocol of writers, merger and Close, over an
   arbitrary number of writers: back-pressure on stackDirtyTop
   (MaxPreMergerBatches), blocked writers, wake-ups, synchronous merger
   notifications, Close.  Writers are anonymous: only counts matter.
   Executable definitions only. *)
From Coq Require Export List Arith Bool.
Export ListNotations.

Record sy := {
  y_cap : nat;          (* MaxPreMergerBatches *)
  y_top : nat;          (* accepted, not yet ingested batches = len(stackDirtyTop.a) *)
  y_wait : nat;         (* writers blocked in ExecuteBatch on stackDirtyTopCond *)
  y_ok : nat;           (* ExecuteBatch calls that returned nil *)
  y_closed_ret : nat;   (* ExecuteBatch calls that returned ErrClosed *)
  y_arrived : nat;      (* ExecuteBatch calls made (non-empty batches) *)
  y_closed : bool;
  y_syncwait : nat;     (* synchronous NotifyMerger calls whose ping the merger has collected *)
  y_syncret : nat;      (* ... that returned *)
  y_queued : nat;       (* synchronous pings still in the channel (the merger is mid-cycle) *)
  y_asleep : bool       (* the merger is waiting for work *)
}.

Definition sy_init (cap : nat) : sy :=
  {| y_cap := cap; y_top := 0; y_wait := 0; y_ok := 0; y_closed_ret := 0; y_arrived := 0;
     y_closed := false; y_syncwait := 0; y_syncret := 0; y_queued := 0; y_asleep := true |}.

Inductive sl :=
| SArrive          (* a writer calls ExecuteBatch with a non-empty batch *)
| SIngest          (* the merger moves top into mid and broadcasts *)
| SCycleEnd        (* the merger finishes its cycle: pongs for the pings it had collected
                      are sent, then it collects the queued pings and waits or goes on *)
| SNotifySync      (* a synchronous NotifyMerger is issued *)
| SClose.          (* Close: stop channel closed, broadcast, goroutines joined *)

Definition upd (s : sy) top wait ok cret arr closed sw sr q asl : sy :=
  {| y_cap := y_cap s; y_top := top; y_wait := wait; y_ok := ok; y_closed_ret := cret;
     y_arrived := arr; y_closed := closed; y_syncwait := sw; y_syncret := sr; y_queued := q;
     y_asleep := asl |}.

Definition sy_step (s : sy) (l : sl) : sy :=
  match l with
  | SArrive =>
      if y_closed s then
        upd s (y_top s) (y_wait s) (y_ok s) (S (y_closed_ret s)) (S (y_arrived s)) true
            (y_syncwait s) (y_syncret s) (y_queued s) (y_asleep s)
      else if Nat.ltb (y_top s) (y_cap s) then
        (* accepted: a sleeping merger is woken *)
        upd s (S (y_top s)) (y_wait s) (S (y_ok s)) (y_closed_ret s) (S (y_arrived s)) false
            (y_syncwait s) (y_syncret s) (y_queued s) false
      else
        upd s (y_top s) (S (y_wait s)) (y_ok s) (y_closed_ret s) (S (y_arrived s)) false
            (y_syncwait s) (y_syncret s) (y_queued s) (y_asleep s)
  | SIngest =>
      if y_closed s || y_asleep s then s else
      (* top is emptied; every blocked writer wakes; the first `cap` of them get in *)
      let k := Nat.min (y_wait s) (y_cap s) in
      upd s k (y_wait s - k) (y_ok s + k) (y_closed_ret s) (y_arrived s) false
          (y_syncwait s) (y_syncret s) (y_queued s) false
  | SCycleEnd =>
      if y_closed s || y_asleep s then s else
      (* replyToPings(collected); mergerWaitForWork collects what is queued; it sleeps only
         when there is neither a pending batch nor a ping *)
      upd s (y_top s) (y_wait s) (y_ok s) (y_closed_ret s) (y_arrived s) false
          (y_queued s) (y_syncret s + y_syncwait s) 0
          (Nat.eqb (y_top s) 0 && Nat.eqb (y_queued s) 0)
  | SNotifySync =>
      (* not issued on a closed collection (it would wait for a merger that is gone) *)
      if y_closed s then s else
      if y_asleep s then
        (* the ping wakes the merger, which collects it at once *)
        upd s (y_top s) (y_wait s) (y_ok s) (y_closed_ret s) (y_arrived s) false
            (S (y_syncwait s)) (y_syncret s) (y_queued s) false
      else
        upd s (y_top s) (y_wait s) (y_ok s) (y_closed_ret s) (y_arrived s) false
            (y_syncwait s) (y_syncret s) (S (y_queued s)) false
  | SClose =>
      (* blocked writers are released with ErrClosed; the exiting merger answers the pongs
         it had collected and the pings still queued *)
      upd s (y_top s) 0 (y_ok s) (y_closed_ret s + y_wait s) (y_arrived s) true
          0 (y_syncret s + y_syncwait s + y_queued s) 0 (y_asleep s)
  end.

Definition sy_run (s : sy) (ls : list sl) : sy := fold_left sy_step ls s.
