(* TreeFacts.v — per-node facts about the tree model: every step that
   rewrites a node of some section or of the footer preserves what that node
   reads, and child nodes are handled independently of their siblings and of
   the parent's own keys. *)
From Coq Require Import List NArith Bool Lia Arith.
From Moss Require Import Bytes BytesFacts Segment SegmentFacts Stack StackFacts
     Collection CollectionFacts Store StoreFacts Tree TreeColl.

Section WithMerge.
  Variable fm : bytes -> value -> bytes -> value.
  Notation sget := (sget fm).

  (* the node's own `below` as merge_node computes it *)
  Definition node_below (s : sstack) (base : option sstack) : bytes -> value :=
    match base with
    | Some b => sget (ss_segs b) (fn_get fm (ss_llcap b))
    | None => fn_get fm (ss_llcap s)
    end.

  (* merging a node keeps its reads over whatever it was merged against *)
  Theorem merge_node_view t s base k :
    sget (ss_segs (merge_node fm t s base)) (node_below s base) k
    = sget (ss_segs s) (node_below s base) k.
  Proof.
    destruct s as [a inc ll kids]. simpl.
    unfold node_below; simpl.
    destruct base as [b|]; apply merge_stack_view.
  Qed.

  (* merging never adds, drops or renames child nodes, and keeps incarnations *)
  Theorem merge_node_kids t s base :
    map fst (ss_kids (merge_node fm t s base)) = map fst (ss_kids s) /\
    ss_incar (merge_node fm t s base) = ss_incar s.
  Proof.
    destruct s as [a inc ll kids]. simpl. split; auto.
    induction kids as [|[n c] r IH]; simpl; auto. now rewrite IH.
  Qed.

  (* a child is merged against the base's child of the same name only when it
     is the same incarnation *)
  Theorem merge_node_child t s base n c :
    assoc n (ss_kids s) = Some c ->
    exists t' bc,
      assoc n (ss_kids (merge_node fm t s base)) = Some (merge_node fm t' c bc) /\
      (forall x, bc = Some x -> ss_incar x = ss_incar c).
  Proof.
    destruct s as [a inc ll kids]. simpl.
    induction kids as [|[n' c'] r IH]; simpl; [discriminate|].
    destruct (beqb n' n) eqn:E.
    - intros [= <-]. eexists. eexists. split; [reflexivity|].
      intros x. destruct base as [b|]; [|discriminate].
      destruct (assoc n' (ss_kids b)) as [y|]; [|discriminate].
      destruct (N.eqb (ss_incar y) (ss_incar c')) eqn:Ei; [|discriminate].
      intros [= <-]. now apply N.eqb_eq.
    - auto.
  Qed.

  (* appending to the footer: the node reads as the stack over the old node *)
  Theorem append_footer_view f s k :
    sget (fn_segs (append_footer f s)) no_below k
    = sget (ss_segs s) (fn_get fm f) k.
  Proof.
    destruct s as [a inc ll kids]. simpl.
    rewrite sget_app, sget_filter_nonempty.
    apply sget_ext. destruct f; reflexivity.
  Qed.

  (* compaction of a node at any splice point keeps what it reads *)
  Theorem compact_node_view sp f s k :
    sget (fn_segs (compact_node fm sp (negb (Nat.eqb sp 0)) f s)) no_below k
    = sget (ss_segs s) (fn_get fm f) k.
  Proof.
    destruct s as [a inc ll kids].
    transitivity (Collection.llv fm (compact fm sp a (match f with Some x => fn_segs x | None => [] end)) k).
    { reflexivity. }
    rewrite compact_view. apply sget_ext. destruct f; reflexivity.
  Qed.

  (* reopening renumbers incarnations but keeps every segment and child name *)
  Theorem restore_keeps_content inc f :
    fn_segs (snd (restore inc f)) = fn_segs f /\
    map fst (fn_kids (snd (restore inc f))) = map fst (fn_kids f) /\
    cn_incar (fst (restore inc f)) = inc /\ fn_incar (snd (restore inc f)) = inc.
  Proof.
    destruct f as [a i kids]. simpl.
    assert (H : forall hi,
               map fst (snd ((fix go (l : list (cname * fnode)) (hi : N)
                               : N * list (cname * cnode) * list (cname * fnode) :=
                               match l with
                               | [] => (hi, [], [])
                               | (n, cf) :: r =>
                                   let hi' := (hi + 1)%N in
                                   let '(cc, cf') := restore hi' cf in
                                   let '(hi2, ck, fk) := go r hi' in
                                   (hi2, (n, cc) :: ck, (n, cf') :: fk)
                               end) kids hi)) = map fst kids).
    { induction kids as [|[n cf] r IH]; intros hi; simpl; auto.
      destruct (restore (hi + 1) cf) as [cc cf'].
      specialize (IH (hi + 1)%N).
      destruct ((fix go (l : list (cname * fnode)) (hi0 : N) := _) r (hi + 1)%N) as [[hi2 ck] fk].
      simpl in *. now rewrite IH. }
    specialize (H inc).
    destruct ((fix go (l : list (cname * fnode)) (hi : N) := _) kids inc) as [[hi ck] fk].
    simpl in *. auto.
  Qed.

  (* isolation, parent side: whatever a batch does to child collections, the
     parent's pending stack only receives the batch's own top-level ops *)
  Theorem build_top_parent_segs m ops bkids cur :
    ss_segs (snd (build_top m (TB ops bkids) cur))
    = batch_segs ops ++ match cur with Some s => ss_segs s | None => [] end.
  Proof.
    simpl.
    destruct ((fix go (l : list (cname * option tbatch)) acc := _) bkids (cn_highest m, cn_kids m, []))
      as [[hi mk] rv].
    reflexivity.
  Qed.

  (* ... and a batch without top-level ops leaves every parent read unchanged *)
  Corollary child_only_batch_keeps_parent_reads m bkids cur below k :
    sget (ss_segs (snd (build_top m (TB [] bkids) (Some cur)))) below k
    = sget (ss_segs cur) below k.
  Proof. rewrite build_top_parent_segs. reflexivity. Qed.
End WithMerge.
