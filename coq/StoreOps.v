(* StoreOps.v — an executable model of the CONTROL FLOW of one persistence
   round of moss (store.go persist / store_compact.go compactMaybe + compact /
   store_footer.go persistFooter / persister.go retry loop), including every
   error exit with the clean-up the code performs there, the file reference
   counts (file.go FileRef) and the unlink-on-last-close callbacks
   (store.go removeFileOnClose).  Definitions only; proofs in StoreOpsFacts.v.

   Abstractions (stated once, used everywhere):
   - a FileRef count is modelled by one count per holder OBJECT: each live
     Footer object that has segments mapped in the file holds 1 (the real count
     is one per mmapRef; zero-ness, which is all that drives Close/unlink,
     coincides), the function that created or re-used the file holds 1 until
     its deferred DecRef;
   - a Footer object has its own count (store_footer.go AddRef/DecRef); when it
     reaches 0 its file count is released (SegmentLocs.DecRef -> mmapRef.DecRef
     -> FileRef.DecRef);
   - the asynchronous unlink goroutine of removeFileOnClose is synchronous;
   - content is a list of round ids (one id per dirty stack handed to the
     persister); a footer's content is the list of ids it contains;
   - compactMaybe's own snapshot of the old footer (store_compact.go:28-37, three
     balanced AddRef/DecRef pairs) is not counted: the collection's lower-level
     snapshot holds the same footer during the whole round.

   Steps consulted, in code order (a step in [..] only under the stated option):
     append  : (SOpen SHeader, only when the served footer has no file)
               SSegStat SSegWrite | SLoadStat SMmap |
               [SSync1] SFootStat SFootWrite [SSync2]        ([..]: unless NoSync)
               commit (store.go:162-175)
     partial : SFragStat (failure: the round continues as a FULL compaction)
               SWStat [SWSync] SWData |                      ([SWSync]: midSync)
               [SSync1] SFootStat SFootWrite [SSync2] |      ([..]: unless NoSync and not CompactionSync)
               SLoadStat SMmap | commit (store_compact.go:333-348) | SSizeStat (ignored)
     full    : SOpen SHeader | SWStat [SWSync] SWData | [SSync1] SFootStat SFootWrite [SSync2] |
               SLoadStat SMmap | commit | SRmOldStat (error ignored) SSizeStat (ignored);
               every failure after SHeader is followed by the clean-up step SRmStat
               (removeFileOnClose of the new file; its error is ignored too)
     no-op   : none. *)
From Coq Require Export List Arith Bool.
Export ListNotations.

(* ------------------------------------------------------------------ *)
(* Options, round kinds, fallible steps                                 *)

Record opts := {
  noSync : bool;          (* StorePersistOptions.NoSync *)
  compactionSync : bool;  (* StoreOptions.CompactionSync || CompactionSyncAfterBytes > 0
                             (store_compact.go:312-315: forces NoSync=false in compact) *)
  midSync : bool;         (* the periodic file.Sync() of compactWriter.Mutate happens
                             (store_compact.go:547-553) *)
  keepFiles : bool        (* StoreOptions.KeepFiles: only read by openStore (store.go:627) *)
}.

Inductive round_kind :=
| RNoop      (* Persist(nil) / empty higher: store.go:104-125, returns s.Snapshot() *)
| RAppend    (* compactMaybe says no; segments + footer appended to the current file *)
| RPartial   (* calcPartialCompactionStart > 0: compaction into the SAME file *)
| RFull.     (* partialCompactStart == 0: compaction into a NEW file *)

(* Every call that can fail, named after the place in the Go code. *)
Inductive step :=
| SFragStat   (* store_compact.go:221  Stat in calcPartialCompactionStart; failure => full compaction *)
| SOpen       (* store.go:316          OpenFile(O_CREATE) in createNextFileLOCKED *)
| SHeader     (* store.go:423/427      header WriteAt (error or short) in persistHeader *)
| SSegStat    (* segment.go:607        Stat in segment.Persist *)
| SSegWrite   (* segment.go:691-713    kvs/buf WriteAt (error or short) *)
| SWStat      (* store_compact.go:425  Stat in writeSegments *)
| SWSync      (* store_compact.go:548  periodic Sync in compactWriter.Mutate *)
| SWData      (* store_compact.go:463-481 + file.go:213-216 buffered WriteAt (error or short), Flush, Stop *)
| SSync1      (* store_footer.go:27    Sync before the footer *)
| SFootStat   (* store_footer.go:56    Stat in persistFooterUnsynced *)
| SFootWrite  (* store_footer.go:75/79 footer WriteAt (error or short) *)
| SSync2      (* store_footer.go:39    Sync after the footer *)
| SLoadStat   (* store_footer.go:310   Stat in doLoadSegments *)
| SMmap       (* store_footer.go:316   mmap.MapRegion *)
| SRmStat     (* store.go:328          Stat in removeFileOnClose(new file), error exits of compact *)
| SRmOldStat  (* store.go:328 via store_compact.go:82  Stat in removeFileOnClose(old file) after commit *)
| SSizeStat.  (* store_compact.go:84/99 Stat for the size statistics after commit; error ignored *)

Definition step_ix (s : step) : nat :=
  match s with
  | SFragStat => 0 | SOpen => 1 | SHeader => 2 | SSegStat => 3 | SSegWrite => 4
  | SWStat => 5 | SWSync => 6 | SWData => 7 | SSync1 => 8 | SFootStat => 9
  | SFootWrite => 10 | SSync2 => 11 | SLoadStat => 12 | SMmap => 13
  | SRmStat => 14 | SRmOldStat => 15 | SSizeStat => 16
  end.

(* failure oracle: round number -> step index -> does it fail? *)
Definition oracle := nat -> nat -> bool.
Definition fl (fail : oracle) (n : nat) (s : step) : bool := fail n (step_ix s).

(* ------------------------------------------------------------------ *)
(* State                                                                *)

(* a COMPLETE footer inside a data file *)
Record dfoot := { d_id : nat; d_content : list nat }.

Record file := {
  f_exists : bool;          (* has a directory entry *)
  f_refs : nat;             (* FileRef.refs; 0 = closed *)
  f_doomed : bool;          (* removeFileOnClose registered its OnAfterClose callback *)
  f_header : bool;          (* header page written *)
  f_footers : list dfoot;   (* complete footers, newest first *)
  f_unsynced : list nat     (* ids of the complete footers written since the last successful Sync *)
}.

Definition no_file : file :=
  {| f_exists := false; f_refs := 0; f_doomed := false; f_header := false; f_footers := []; f_unsynced := [] |}.

(* an in-memory Footer object; keyed by footer id *)
Record fobj := {
  o_file : option nat;      (* file its segments are mapped from; None: the empty footer of an empty store *)
  o_content : list nat;
  o_refs : nat              (* Footer.refs *)
}.

Definition no_obj : fobj := {| o_file := None; o_content := []; o_refs := 0 |}.

Record state := {
  files : nat -> file;      (* by file sequence number (0-based here; data-%016x.moss) *)
  nfiles : nat;             (* s.nextFNameSeq *)
  objs : nat -> fobj;       (* Footer objects by footer id *)
  s_cur : nat;              (* s.footer *)
  l_cur : nat;              (* the collection's lowerLevelSnapshot *)
  dirty : list nat;         (* stackDirtyBase: round ids waiting in the persister *)
  next_id : nat             (* next fresh footer id *)
}.

(* empty directory: openStore's emptyFooter (store.go:571-588), footer id 0,
   held by the store and by the collection (openCollection: s.Snapshot()) *)
Definition init : state :=
  {| files := fun _ => no_file; nfiles := 0;
     objs := fun i => if i =? 0 then {| o_file := None; o_content := []; o_refs := 2 |} else no_obj;
     s_cur := 0; l_cur := 0; dirty := []; next_id := 1 |}.

Definition set_files (st : state) (fs : nat -> file) : state :=
  {| files := fs; nfiles := nfiles st; objs := objs st; s_cur := s_cur st; l_cur := l_cur st;
     dirty := dirty st; next_id := next_id st |}.
Definition set_objs (st : state) (os : nat -> fobj) : state :=
  {| files := files st; nfiles := nfiles st; objs := os; s_cur := s_cur st; l_cur := l_cur st;
     dirty := dirty st; next_id := next_id st |}.
Definition upd_file (st : state) (i : nat) (x : file) : state :=
  set_files st (fun j => if j =? i then x else files st j).
Definition upd_obj (st : state) (i : nat) (x : fobj) : state :=
  set_objs st (fun j => if j =? i then x else objs st j).

Definition map_file (st : state) (i : nat) (F : file -> file) : state := upd_file st i (F (files st i)).
Definition map_obj (st : state) (i : nat) (G : fobj -> fobj) : state := upd_obj st i (G (objs st i)).

(* FileRef.AddRef (file.go:74) *)
Definition file_inc (x : file) : file :=
  {| f_exists := f_exists x; f_refs := S (f_refs x); f_doomed := f_doomed x;
     f_header := f_header x; f_footers := f_footers x; f_unsynced := f_unsynced x |}.
Definition file_addref (st : state) (i : nat) : state := map_file st i file_inc.

(* FileRef.DecRef (file.go:90): at 0 the file is closed and the after-close
   callbacks run; the callback of removeFileOnClose unlinks (store.go:334-350) *)
Definition file_dec (x : file) : file :=
  let r := pred (f_refs x) in
  {| f_exists := if (r =? 0) && f_doomed x then false else f_exists x;
     f_refs := r; f_doomed := f_doomed x;
     f_header := f_header x; f_footers := f_footers x; f_unsynced := f_unsynced x |}.
Definition file_decref (st : state) (i : nat) : state := map_file st i file_dec.

(* Footer.AddRef / Footer.DecRef (store_footer.go:412/420) *)
Definition obj_inc (x : fobj) : fobj :=
  {| o_file := o_file x; o_content := o_content x; o_refs := S (o_refs x) |}.
Definition obj_dec (x : fobj) : fobj :=
  {| o_file := o_file x; o_content := o_content x; o_refs := pred (o_refs x) |}.
Definition obj_addref (st : state) (i : nat) : state := map_obj st i obj_inc.

Definition obj_decref (st : state) (i : nat) : state :=
  let x := objs st i in
  let st1 := map_obj st i obj_dec in
  if pred (o_refs x) =? 0
  then match o_file x with Some f => file_decref st1 f | None => st1 end
  else st1.

(* file.Sync succeeded: everything written so far is durable *)
Definition file_sync (x : file) : file :=
  {| f_exists := f_exists x; f_refs := f_refs x; f_doomed := f_doomed x;
     f_header := f_header x; f_footers := f_footers x; f_unsynced := [] |}.
Definition sync_file (st : state) (i : nat) : state := map_file st i file_sync.

(* a footer was written completely (not yet synced) *)
Definition file_addfoot (d : dfoot) (x : file) : file :=
  {| f_exists := f_exists x; f_refs := f_refs x; f_doomed := f_doomed x;
     f_header := f_header x; f_footers := d :: f_footers x;
     f_unsynced := d_id d :: f_unsynced x |}.
Definition add_footer (st : state) (i : nat) (d : dfoot) : state := map_file st i (file_addfoot d).

(* removeFileOnClose (store.go:327-354): Stat first; on a Stat error the
   callback is NOT registered (and every caller ignores that error) *)
Definition file_doom (x : file) : file :=
  {| f_exists := f_exists x; f_refs := f_refs x; f_doomed := true;
     f_header := f_header x; f_footers := f_footers x; f_unsynced := f_unsynced x |}.
Definition remove_on_close (stat_fails : bool) (st : state) (i : nat) : state :=
  if stat_fails then st else map_file st i file_doom.

Definition bump_nfiles (st : state) : state :=
  {| files := files st; nfiles := S (nfiles st); objs := objs st; s_cur := s_cur st;
     l_cur := l_cur st; dirty := dirty st; next_id := next_id st |}.

(* a file that was just created and got its header page: FileRef{refs: 1} (store.go:303) *)
Definition fresh_file : file :=
  {| f_exists := true; f_refs := 1; f_doomed := false; f_header := true;
     f_footers := []; f_unsynced := [] |}.

(* startFileLOCKED (store.go:288-307): createNextFileLOCKED + persistHeader.
   Returns the new file's number with FileRef{refs: 1}, or None. *)
Definition start_file (fail : oracle) (n : nat) (st : state) : state * option nat :=
  let i := nfiles st in
  let st1 := bump_nfiles st in                                         (* s.nextFNameSeq++ *)
  if fl fail n SOpen then (st1, None)                                  (* store.go:318-320 *)
  else if fl fail n SHeader then (st1, None)                           (* store.go:294-300: Close + os.Remove *)
  else (map_file st1 i (fun _ => fresh_file), Some i).

(* startOrReuseFile (store.go:261-286) *)
Definition start_or_reuse (fail : oracle) (n : nat) (st : state) : state * option nat :=
  match o_file (objs st (s_cur st)) with
  | Some f => (file_addref st f, Some f)
  | None => start_file fail n st
  end.

(* persistFooter (store_footer.go:22-48) on file f for footer id nid *)
Definition persist_footer (nosync : bool) (fail : oracle) (n : nat)
           (st : state) (f nid : nat) (content : list nat) : state * bool :=
  if negb nosync && fl fail n SSync1 then (st, false)
  else
    let st1 := if nosync then st else sync_file st f in
    if fl fail n SFootStat || fl fail n SFootWrite then (st1, false)   (* incomplete footer: garbage *)
    else
      let st2 := add_footer st1 f {| d_id := nid; d_content := content |} in
      if negb nosync && fl fail n SSync2 then (st2, false)             (* COMPLETE footer, error returned *)
      else ((if nosync then st2 else sync_file st2 f), true).

Definition bump_id (st : state) : state :=
  {| files := files st; nfiles := nfiles st; objs := objs st; s_cur := s_cur st; l_cur := l_cur st;
     dirty := dirty st; next_id := S (next_id st) |}.
Definition set_scur (st : state) (i : nat) : state :=
  {| files := files st; nfiles := nfiles st; objs := objs st; s_cur := i; l_cur := l_cur st;
     dirty := dirty st; next_id := next_id st |}.
Definition set_lcur (st : state) (i : nat) : state :=
  {| files := files st; nfiles := nfiles st; objs := objs st; s_cur := s_cur st; l_cur := i;
     dirty := dirty st; next_id := next_id st |}.
Definition set_dirty (st : state) (d : list nat) : state :=
  {| files := files st; nfiles := nfiles st; objs := objs st; s_cur := s_cur st; l_cur := l_cur st;
     dirty := d; next_id := next_id st |}.

(* result of Store.Persist: error, or the snapshot returned (one count on it
   belongs to the caller) and whether s.footer was replaced *)
Inductive presult := PErr (committed : bool) | POk (ret : nat) (committed : bool).

(* persist, append path (store.go:127-177) *)
Definition persist_append (o : opts) (fail : oracle) (n : nat) (st : state) : state * presult :=
  let old := s_cur st in
  let content := o_content (objs st old) ++ dirty st in
  match start_or_reuse fail n st with                                   (* store.go:127 *)
  | (st1, None) => (st1, PErr false)                                    (* store.go:128-130 *)
  | (st1, Some f) =>
      let finish (s : state) (r : presult) := (file_decref s f, r) in    (* store.go:131 defer fref.DecRef() *)
      if fl fail n SSegStat || fl fail n SSegWrite then finish st1 (PErr false)  (* store.go:144-147 *)
      else if fl fail n SLoadStat || fl fail n SMmap then finish st1 (PErr false) (* store.go:150-153 *)
      else
        let nid := next_id st1 in
        (* footer := &Footer{refs: 1}; loadSegments mapped the new segments: fref.AddRef() *)
        let st2 := map_obj (file_addref (bump_id st1) f) nid
                     (fun _ => {| o_file := Some f; o_content := content; o_refs := 1 |}) in
        match persist_footer (noSync o) fail n st2 f nid content with   (* store.go:156 *)
        | (st3, false) => finish (obj_decref st3 nid) (PErr false)      (* store.go:157-160 footer.DecRef() *)
        | (st3, true) =>
            let st4 := obj_addref st3 nid in                            (* store.go:162 *)
            let st5 := obj_decref (set_scur st4 nid) old in             (* store.go:164-175 *)
            finish st5 (POk nid true)                                   (* store.go:177 *)
        end
  end.

(* compactMaybe + compact (store_compact.go:17-125, 244-351); full = (partialCompactStart == 0) *)
Definition persist_compact (o : opts) (fail : oracle) (n : nat) (full : bool) (st : state)
  : state * presult :=
  let old := s_cur st in
  let content := o_content (objs st old) ++ dirty st in
  match (if full then start_file fail n st else start_or_reuse fail n st) with  (* store_compact.go:275-281 *)
  | (st1, None) => (st1, PErr false)                                    (* store_compact.go:282-284 *)
  | (st1, Some f) =>
      let finish (s : state) (r : presult) := (file_decref s f, r) in    (* :285 defer frefCompact.DecRef() *)
      (* the three error exits: if partialCompactStart == 0 { s.removeFileOnClose(frefCompact) } *)
      let cleanup (s : state) := if full then remove_on_close (fl fail n SRmStat) s f else s in
      if fl fail n SWStat || (midSync o && fl fail n SWSync) || fl fail n SWData
      then finish (cleanup st1) (PErr false)                            (* exit 1, :300-305 *)
      else
        let nosync := noSync o && negb (compactionSync o) in            (* :312-315 *)
        let nid := next_id st1 in
        match persist_footer nosync fail n (bump_id st1) f nid content with   (* :317 *)
        | (st2, false) => finish (cleanup st2) (PErr false)             (* exit 2, :318-323 *)
        | (st2, true) =>
            if fl fail n SLoadStat || fl fail n SMmap
            then finish (cleanup st2) (PErr false)                      (* exit 3, :325-331 *)
            else
              (* loadSegments mapped the new segment: fref.AddRef(); compactFooter{refs: 1} is the store's *)
              let st3 := map_obj (file_addref st2 f) nid
                           (fun _ => {| o_file := Some f; o_content := content; o_refs := 1 |}) in
              let st4 := obj_decref (set_scur st3 nid) old in           (* :333-348 *)
              let (st5, _) := finish st4 (POk nid true) in              (* compact returns nil *)
              (* back in compactMaybe, :77-90 *)
              let st6 := if full
                         then match o_file (objs st old) with
                              | Some fo => remove_on_close (fl fail n SRmOldStat) st5 fo   (* :82, error ignored *)
                              | None => st5
                              end
                         else st5 in
              (* :84/:99 Stat for sizes: SSizeStat, error ignored, no effect *)
              (obj_addref st6 nid, POk nid true)                        (* store.go:98-100 return s.Snapshot() *)
        end
  end.

(* the round kind the code ends up running *)
Definition effective_kind (fail : oracle) (n : nat) (k : round_kind) (st : state) : round_kind :=
  match k with
  | RPartial =>
      match o_file (objs st (s_cur st)) with
      | None => RAppend                       (* no segment locations: calcPartialCompactionStart appends *)
      | Some _ => if fl fail n SFragStat then RFull else RPartial   (* store_compact.go:221-224 *)
      end
  | _ => k
  end.

Definition store_persist (o : opts) (fail : oracle) (n : nat) (k : round_kind) (st : state)
  : state * presult :=
  match effective_kind fail n k st with
  | RNoop => (obj_addref st (s_cur st), POk (s_cur st) false)
  | RAppend => persist_append o fail n st
  | RPartial => persist_compact o fail n false st
  | RFull => persist_compact o fail n true st
  end.

(* ------------------------------------------------------------------ *)
(* The persister (persister.go:28-140)                                  *)

Record round_outcome := {
  ro_kind : round_kind;        (* the kind that was run *)
  ro_error : bool;             (* LowerLevelUpdate returned an error *)
  ro_onerror : bool;           (* OnError fired (persister.go:82) *)
  ro_committed : bool;         (* s.footer was replaced *)
  ro_handed : list nat;        (* the round ids in stackDirtyBase *)
  ro_served : nat;             (* id of s.footer afterwards *)
  ro_files : list (nat * file) (* all files ever created, by number *)
}.

Definition file_list (st : state) : list (nat * file) :=
  map (fun i => (i, files st i)) (seq 0 (nfiles st)).

(* the merger hands a new dirty stack over only when stackDirtyBase == nil
   (collection_merger.go:346-349); otherwise the persister retries the same stack *)
Definition hand_over (n : nat) (st : state) : state :=
  match dirty st with [] => set_dirty st [n] | _ => st end.

(* LowerLevelUpdate(stackDirtyBase) and the persister's reaction (persister.go:76-129) *)
Definition persister_body (o : opts) (fail : oracle) (n : nat) (k : round_kind) (st0 : state)
  : state * round_outcome :=
  let ek := effective_kind fail n k st0 in
  match store_persist o fail n k st0 with
  | (st1, PErr c) =>                                   (* persister.go:77-85: OnError, continue OUTER *)
      (st1, {| ro_kind := ek; ro_error := true; ro_onerror := true; ro_committed := c;
               ro_handed := dirty st0; ro_served := s_cur st1; ro_files := file_list st1 |})
  | (st1, POk ret c) =>                                (* persister.go:94-129 *)
      let lold := l_cur st1 in
      let st2 := obj_decref (set_dirty (set_lcur st1 ret) []) lold in
      (st2, {| ro_kind := ek; ro_error := false; ro_onerror := false; ro_committed := c;
               ro_handed := dirty st0; ro_served := s_cur st2; ro_files := file_list st2 |})
  end.

(* one iteration of the persister's loop for attempt number n.  RNoop stands
   for an idle moment / a direct Persist(nil): nothing is handed over. *)
Definition persister_round (o : opts) (fail : oracle) (n : nat) (k : round_kind) (st : state)
  : state * round_outcome :=
  match k with
  | RNoop =>
      (* the snapshot is returned to, and closed by, the caller *)
      let (st1, _) := store_persist o fail n RNoop st in
      (obj_decref st1 (s_cur st1),
       {| ro_kind := RNoop; ro_error := false; ro_onerror := false; ro_committed := false;
          ro_handed := []; ro_served := s_cur st; ro_files := file_list st |})
  | _ => persister_body o fail n k (hand_over n st)
  end.

(* attempts n, n+1, ... with the given kinds *)
Fixpoint run (o : opts) (fail : oracle) (n : nat) (ks : list round_kind) (st : state)
  : state * list round_outcome :=
  match ks with
  | [] => (st, [])
  | k :: r =>
      let (st1, oc) := persister_round o fail n k st in
      let (st2, ocs) := run o fail (S n) r st1 in
      (st2, oc :: ocs)
  end.

(* ------------------------------------------------------------------ *)
(* Close and reopen                                                     *)

(* Collection.Close releases the lower-level snapshot, Store.Close the
   store's footer (store_api.go:285-298) *)
Definition close_all (st : state) : state :=
  obj_decref (obj_decref st (l_cur st)) (s_cur st).

Definition dir_of (st : state) : list nat :=
  filter (fun i => f_exists (files st i)) (seq 0 (nfiles st)).

(* a file openStore can serve from: header page and a complete footer (store.go:607-625) *)
Definition usable (x : file) : bool :=
  f_exists x && f_header x && match f_footers x with [] => false | _ => true end.

(* newest usable file among 0 .. m-1 *)
Fixpoint newest_usable (fs : nat -> file) (m : nat) : option nat :=
  match m with
  | 0 => None
  | S m' => if usable (fs m') then Some m' else newest_usable fs m'
  end.

Inductive reopen_result :=
| ReopenEmpty                               (* no data file: empty store *)
| ReopenError                               (* "could not open/parse any file" (store.go:653) *)
| ReopenServes (f : nat) (d : dfoot).

Definition reopen (st : state) : reopen_result :=
  match dir_of st with
  | [] => ReopenEmpty
  | _ => match newest_usable (files st) (nfiles st) with
         | None => ReopenError
         | Some f => match f_footers (files st f) with
                     | d :: _ => ReopenServes f d
                     | [] => ReopenError
                     end
         end
  end.

(* directory after openStore: without KeepFiles every other data file is removed (store.go:627-639) *)
Definition dir_after_reopen (o : opts) (st : state) : list nat :=
  match reopen st with
  | ReopenServes f _ => if keepFiles o then dir_of st else [f]
  | _ => dir_of st
  end.

Record dir_state := {
  ds_files : list (nat * file);     (* after Close: every file ever created, with its final record *)
  ds_dir : list nat;                (* after Close: the files in the directory *)
  ds_reopen : reopen_result;        (* what OpenStore does with it *)
  ds_dir_reopened : list nat        (* the directory after OpenStore's clean-up *)
}.

(* for the test harness: outcomes of the attempted rounds and the final directory *)
Definition predict (o : opts) (rounds : list round_kind) (fail : oracle)
  : list round_outcome * dir_state :=
  let (st, ocs) := run o fail 0 rounds init in
  let stc := close_all st in
  (ocs, {| ds_files := file_list stc; ds_dir := dir_of stc; ds_reopen := reopen stc;
           ds_dir_reopened := dir_after_reopen o stc |}).
