(* TreeCycles.v — definitions for "clean shutdown and reopen returns what was
   written", with child collections: the combined system of TreeInv.v started
   from ANY store footer (cinit_from, mirroring TreeRun.trstep's THReopen),
   its close step (cclose, mirroring THClose), multi-incarnation runs
   (cycles_run: iterated run / close / reopen), and the vocabulary of the
   statements: the reference tree continued from an arbitrary tree (rt_run),
   a reference tree cut down to the children that have a footer
   (rt_restrict), "the same tree up to the existence of empty child
   collections" (rt_sub), reading a stack tree up to the existence of empty
   child collections (reads_mod), footers whose child names are distinct
   (fn_wf), footers that read as a reference tree with exactly its children
   (fn_reads_exact).  Definitions only; the proofs are in TreeCyclesFacts.v.
   Nothing here is extracted. *)
From Coq Require Import List NArith Bool.
From Moss Require Import Bytes Segment Stack Collection Store Tree TreeColl TreeInv.
Import ListNotations.

(* the reference tree after the batches bs, continued from r0 *)
Definition rt_run (r0 : rtree) (bs : list tbatch) : rtree := fold_left rt_apply bs r0.

(* the reference tree cut down to the child collections that have a footer,
   at every depth: what OpenStoreCollection can know about *)
Fixpoint rt_restrict (r : rtree) (f : fnode) {struct r} : rtree :=
  match r with
  | RT h kids =>
      RT h ((fix go (l : list (cname * rtree)) : list (cname * rtree) :=
               match l with
               | [] => []
               | (n, cr) :: q =>
                   match assoc n (fn_kids f) with
                   | Some cf => (n, rt_restrict cr cf) :: go q
                   | None => go q
                   end
               end) kids)
  end.

(* child names of a footer node are distinct, at every depth (they are a Go
   map in the implementation) *)
Inductive fn_wf : fnode -> Prop :=
| FW f :
    NoDup (map fst (fn_kids f)) ->
    (forall n cf, assoc n (fn_kids f) = Some cf -> fn_wf cf) ->
    fn_wf f.

(* ---- start from a store, close, reopen ---------------------------------- *)
(* OpenStoreCollection on the footer tree f (THReopen): restored bookkeeping
   with fresh incarnation numbers, nothing in memory, the renumbered footer as
   the lower-level snapshot and as the store's footer *)
Definition cinit_from (c : cfg) (f : fnode) : cst :=
  {| c_t := tinit (fst (restore 0 f)) (Some (snd (restore 0 f)));
     c_pend := None;
     c_store := snd (restore 0 f) |}.

Definition creopen (c : cfg) (r : cst) : cst := cinit_from c (c_store r).

(* several incarnations: each runs its labels, closes (with the choice of a
   persistence round completing during Close, if any), and the next one
   reopens what the store holds *)
Definition cycle := (list clabel * option persist_choice)%type.

Section WithMerge.
  Variable fm : bytes -> value -> bytes -> value.

  (* Collection.Close + Store.Close (THClose): every section is dropped; with
     Some ch a persistence round runs to completion during Close and its
     result is what the store holds *)
  Definition cclose (c : cfg) (r : cst) (ch : option persist_choice) : option cst :=
    let sf := match ch with
              | Some c' => c_update fm r c'
              | None => Some (c_store r)
              end in
    match sf, tstep fm c (c_t r) TClose with
    | Some f', Some s => Some {| c_t := s; c_pend := None; c_store := f' |}
    | _, _ => None
    end.

  (* the states just before each Close, and the store's footer at the end *)
  Fixpoint cycles_run (c : cfg) (f : fnode) (cy : list cycle) : option (list cst * fnode) :=
    match cy with
    | [] => Some ([], f)
    | (ls, ch) :: q =>
        match crun fm c (cinit_from c f) ls with
        | Some cs =>
            match cclose c cs ch with
            | Some cs' =>
                match cycles_run c (c_store cs') q with
                | Some (sts, ff) => Some (cs :: sts, ff)
                | None => None
                end
            | None => None
            end
        | None => None
        end
    end.

  (* nothing dirty and the persister idle: persistence has caught up *)
  Definition caught_up (cs : cst) : Prop :=
    t_top (c_t cs) = None /\ t_mid (c_t cs) = None /\ t_base (c_t cs) = None /\
    t_persister (c_t cs) = PIdle.

  (* the model's Close accepts a completing round in any persister state; the
     harness reports one only when the persister had not begun its round (it
     is parked before LowerLevelUpdate), which in the model is PIdle *)
  Definition close_choice_ok (cs : cst) (ch : option persist_choice) : Prop :=
    ch = None \/ t_persister (c_t cs) = PIdle.

  (* r' is r without some child collections that hold no key at any depth *)
  Inductive rt_sub : rtree -> rtree -> Prop :=
  | RS r' r :
      (forall k, rt_get fm r' k = rt_get fm r k) ->
      (forall n c', assoc n (rt_kids r') = Some c' -> assoc n (rt_kids r) <> None) ->
      (forall n c' c, assoc n (rt_kids r') = Some c' -> assoc n (rt_kids r) = Some c ->
                      rt_sub c' c) ->
      (forall n c, assoc n (rt_kids r') = None -> assoc n (rt_kids r) = Some c ->
                   rt_empty fm c) ->
      rt_sub r' r.

  (* a stack tree reads as the reference tree up to the existence of EMPTY
     child collections (the shape of fn_reads_mod, for snapshots) *)
  Inductive reads_mod : sstack -> rtree -> Prop :=
  | RM s r :
      (forall k, ss_get fm s k = rt_get fm r k) ->
      (forall n cs, assoc n (ss_kids s) = Some cs -> assoc n (rt_kids r) <> None) ->
      (forall n cs cr, assoc n (ss_kids s) = Some cs -> assoc n (rt_kids r) = Some cr ->
                       reads_mod cs cr) ->
      (forall n cr, assoc n (ss_kids s) = None -> assoc n (rt_kids r) = Some cr ->
                    rt_empty fm cr) ->
      reads_mod s r.

  (* the footer tree reads as the reference tree and has exactly its children *)
  Inductive fn_reads_exact : fnode -> rtree -> Prop :=
  | FRE f r :
      (forall k, sget fm (fn_segs f) no_below k = rt_get fm r k) ->
      (forall n, assoc n (fn_kids f) = None <-> assoc n (rt_kids r) = None) ->
      (forall n cf cr, assoc n (fn_kids f) = Some cf -> assoc n (rt_kids r) = Some cr ->
                       fn_reads_exact cf cr) ->
      fn_reads_exact f r.
End WithMerge.
