(* Theorems.v — the property-level theorems about the collection model
   (child-free), derived from the invariants.  props/C*.v restate them with
   `exact` so that the statements cannot drift. *)
From Coq Require Import List NArith Bool Lia Arith.
From Moss Require Import Bytes BytesFacts Segment SegmentFacts Stack StackFacts
     Collection CollectionFacts Store LowerLevel StoreFacts Prefix.

Section WithMerge.
  Variable fm : bytes -> value -> bytes -> value.
  Notation sget := (sget fm).
  Notation llv := (llv fm).
  Notation run := (run fm).
  Notation ref_from := (ref_from fm).
  Notation snap_get := (snap_get fm).

  (* C01 / C08: whatever the schedule, a snapshot reads the reference. *)
  Theorem snapshot_reads_reference c l0 ls s :
    run c (init l0) ls = Some s -> closed s = false ->
    forall k, snap_get (cur_snapshot s) k = ref_from (llv l0) (batches ls) k.
  Proof. intros Hr Hc k. apply (reads_are_reference fm c l0 ls s Hr Hc k). Qed.

  (* C02: the snapshot handed out at some point is a value; whatever runs
     afterwards it still reads the content of the moment it was taken. *)
  Theorem snapshot_frozen c l0 ls1 ls2 s1 s2 :
    run c (init l0) ls1 = Some s1 -> closed s1 = false ->
    run c s1 ls2 = Some s2 ->
    forall k, snap_get (cur_snapshot s1) k = ref_from (llv l0) (batches ls1) k.
  Proof. intros H1 Hc _ k. eapply snapshot_reads_reference; eauto. Qed.

  (* C02: the cached snapshot is never stale *)
  Theorem cached_snapshot_sound c l0 ls s :
    run c (init l0) ls = Some s -> closed s = false ->
    forall k, snap_get (cur_snapshot s) k = snap_get (mk_snapshot s) k.
  Proof.
    intros Hr Hc k. destruct (reads_are_reference fm c l0 ls s Hr Hc k) as [H1 H2]. congruence.
  Qed.

  (* C10: Collection.Get agrees with Snapshot.Get *)
  Theorem collection_get_agrees c l0 ls s :
    run c (init l0) ls = Some s -> closed s = false ->
    forall k, coll_get fm s k = snap_get (cur_snapshot s) k.
  Proof.
    intros Hr Hc k. unfold coll_get. symmetry. eapply cached_snapshot_sound; eauto.
  Qed.

  (* C13 / C20: once nothing is dirty the lower level IS the reference. *)
  Theorem drained_lower_level_is_reference c l0 ls s :
    run c (init l0) ls = Some s -> closed s = false ->
    dirty_segments s = 0 ->
    forall k, llv (ll s) k = ref_from (llv l0) (batches ls) k.
  Proof.
    intros Hr Hc Hd k.
    pose proof (run_inv fm c (llv l0) [] (init l0) ls s (inv_init fm c l0) Hr) as [HI|HI];
      [congruence|].
    simpl in HI. rewrite <- (inv_view _ _ _ _ _ HI k).
    unfold dirty_segments in Hd. unfold dirty.
    destruct (top s); [|simpl in Hd; lia].
    destruct (olist (mid s)); [|simpl in Hd; lia].
    destruct (olist (base s)); [|simpl in Hd; lia].
    reflexivity.
  Qed.

  (* C04 / C13: at every moment the lower level holds exactly a prefix of the
     batch history, and that prefix never shrinks. *)
  Theorem lower_level_is_prefix c l0 ls s :
    run c (init l0) ls = Some s -> closed s = false ->
    exists a, a <= length (batches ls) /\
              forall k, llv (ll s) k = ref_from (llv l0) (firstn a (batches ls)) k.
  Proof.
    intros Hr Hc.
    destruct (run_grun fm c (init l0) 0 ghost0 ls s Hr) as [g Hg].
    pose proof (grun_pinv fm c l0 ls s g Hg Hc) as HP.
    exists (ga g). split.
    - destruct (p_ord _ _ _ _ _ HP) as [? [? ?]]. lia.
    - apply (p_ll _ _ _ _ _ HP).
  Qed.

  (* C13: a failed LowerLevelUpdate changes nothing: the same base is offered again *)
  Theorem failed_update_keeps_base c s s1 s2 :
    step fm c s LPBegin = Some s1 -> step fm c s1 LPFail = Some s2 ->
    base s2 = base s /\ top s2 = top s /\ mid s2 = mid s /\ ll s2 = ll s /\ clean s2 = clean s
    /\ persister s2 = PIdle.
  Proof.
    unfold step. destruct (closed s) eqn:E; [discriminate|].
    destruct (persister s); try discriminate. destruct (base s) eqn:Eb; try discriminate.
    destruct (has_ll c); try discriminate. intros [= <-]. simpl. intros [= <-]. simpl.
    repeat split; auto.
  Qed.

  (* every way this development updates a lower level is legal for LPPublish *)
  Theorem store_persist_legal ch b f f' :
    store_persist fm ch b f = Some f' -> publish_ok fm b f f' = true.
  Proof.
    intros H. unfold publish_ok. apply forallb_forall. intros k _.
    apply value_eqb_true. eapply store_persist_view; eauto.
  Qed.

  Theorem map_update_legal b m :
    set_only m -> publish_ok fm b [m] [map_update fm b m] = true.
  Proof.
    intros H. unfold publish_ok. apply forallb_forall. intros k _.
    apply value_eqb_true. apply map_update_view; auto.
  Qed.
End WithMerge.

(* ---- close / reopen (C04) ------------------------------------------------- *)
Section Reopen.
  Variable fm : bytes -> value -> bytes -> value.
  Notation sget := (sget fm).
  Notation llv := (llv fm).
  Notation run := (run fm).
  Notation ref_from := (ref_from fm).

  Lemma ref_from_ext m1 m2 h k : (forall k, m1 k = m2 k) -> ref_from m1 h k = ref_from m2 h k.
  Proof.
    intros H. rewrite !ref_from_sget. apply sget_ext. apply H.
  Qed.

  (* what the store holds once collection and store are closed: the lower
     level last published, or - when a persistence round was in flight -
     that plus the base it was persisting (any legal choice of append /
     compaction) *)
  Inductive store_at_close (s : cstate) : llsnap -> Prop :=
  | SAC_published : store_at_close s (ll s)
  | SAC_inflight b ch l' :
      base s = Some b -> store_persist fm ch b (ll s) = Some l' -> store_at_close s l'.

  (* C04: whenever Close happens, the directory holds the reference content
     after some prefix of the executed batches - never a mixture. *)
  Theorem close_leaves_prefix c l0 ls s l' :
    run c (init l0) ls = Some s -> closed s = false -> store_at_close s l' ->
    exists n, n <= length (batches ls) /\
              forall k, llv l' k = ref_from (llv l0) (firstn n (batches ls)) k.
  Proof.
    intros Hr Hc Hs.
    destruct (run_grun fm c (init l0) 0 ghost0 ls s Hr) as [g Hg].
    pose proof (grun_pinv fm c l0 ls s g Hg Hc) as HP.
    destruct (p_ord _ _ _ _ _ HP) as [Hab [Hbd Hdh]].
    destruct Hs as [|b ch l' Hb Hp].
    - exists (ga g). split; [lia|]. apply (p_ll _ _ _ _ _ HP).
    - exists (gb g). split; [lia|]. intros k.
      rewrite (store_persist_view fm ch b (ll s) l' k Hp).
      pose proof (p_base _ _ _ _ _ HP k) as H. rewrite Hb in H. exact H.
  Qed.

  (* C04: once nothing is dirty (persistence has caught up) the directory
     holds exactly the reference content of all executed batches. *)
  Theorem caught_up_close_is_complete c l0 ls s :
    run c (init l0) ls = Some s -> closed s = false -> dirty_segments s = 0 ->
    forall k, llv (ll s) k = ref_from (llv l0) (batches ls) k.
  Proof. apply drained_lower_level_is_reference. Qed.

  (* any number of close/reopen cycles: each session starts from what the
     previous one left in the directory *)
  Inductive cycles (c : cfg) : llsnap -> list (list segment) -> llsnap -> Prop :=
  | Cy_nil l : cycles c l [] l
  | Cy_cons l ls s l' n hs lf :
      run c (init l) ls = Some s -> closed s = false -> store_at_close s l' ->
      n <= length (batches ls) ->
      (forall k, llv l' k = ref_from (llv l) (firstn n (batches ls)) k) ->
      cycles c l' hs lf ->
      cycles c l (firstn n (batches ls) :: hs) lf.

  Theorem cycles_content c l0 hs lf :
    cycles c l0 hs lf -> forall k, llv lf k = ref_from (llv l0) (concat hs) k.
  Proof.
    induction 1 as [l|l ls s l' n hs lf Hr Hc Hs Hn Hl Hcy IH]; intros k; simpl.
    - reflexivity.
    - rewrite IH. unfold Collection.ref_from. rewrite fold_left_app.
      fold (ref_from (llv l) (firstn n (batches ls))).
      apply ref_from_ext. apply Hl.
  Qed.
End Reopen.
