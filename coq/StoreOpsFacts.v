(* StoreOpsFacts.v — proofs about StoreOps.v *)
From Coq Require Import List Arith Bool Lia.
From Moss Require Import StoreOps.
Import ListNotations.

(* ------------------------------------------------------------------ *)
(* The invariant that holds between two iterations of the persister     *)

Fixpoint desc (l : list dfoot) : Prop :=
  match l with
  | [] => True
  | d :: r => (forall e, In e r -> d_id e < d_id d) /\ desc r
  end.

Definition cur (st : state) : fobj := objs st (s_cur st).

Record Inv (n : nat) (st : state) : Prop := {
  i_same : l_cur st = s_cur st;
  i_curlt : s_cur st < next_id st;
  i_crefs : o_refs (cur st) = 2;
  i_orefs : forall j, j <> s_cur st -> o_refs (objs st j) = 0;
  i_frefs : forall i, f_refs (files st i) =
                      match o_file (cur st) with
                      | Some f => if i =? f then 1 else 0
                      | None => 0
                      end;
  i_fresh : forall i, nfiles st <= i -> files st i = no_file;
  i_doom : forall i, f_doomed (files st i) = true -> f_exists (files st i) = false;
  i_served : match o_file (cur st) with
             | Some f => f < nfiles st /\ f_exists (files st f) = true /\
                         f_header (files st f) = true /\ f_doomed (files st f) = false /\
                         In {| d_id := s_cur st; d_content := o_content (cur st) |}
                            (f_footers (files st f))
             | None => True
             end;
  i_nodup : NoDup (o_content (cur st) ++ dirty st);
  i_idlt : forall x, In x (o_content (cur st) ++ dirty st) -> x < n;
  i_dids : forall i d, In d (f_footers (files st i)) -> d_id d < next_id st;
  i_orph : forall i d, In d (f_footers (files st i)) -> s_cur st < d_id d ->
                       d_content d = o_content (cur st) ++ dirty st /\ dirty st <> [];
  i_desc : forall i, desc (f_footers (files st i));
  i_ofresh : forall j, next_id st <= j -> objs st j = no_obj
}.

Lemma Inv_init : Inv 0 init.
Proof.
  constructor; unfold cur; simpl; auto; try lia;
    try (intros; contradiction); try constructor.
  - intros j Hj. destruct (Nat.eqb_spec j 0); [lia|reflexivity].
  - intros j Hj. destruct (Nat.eqb_spec j 0); [lia|reflexivity].
Qed.

(* ------------------------------------------------------------------ *)
(* Symbolic execution of a round: a "view" describes the (at most) two
   files and two Footer objects a round touches; every primitive of the
   model is mirrored on views, where it computes.                        *)

Definition pick {A} (sel : bool) (x y : A) : A := if sel then y else x.

Record vobj := { vo_file : option bool; vo_content : list nat; vo_refs : nat }.

Record vw := {
  vf : file; vg : file; vc : vobj; vn : vobj;
  w_nf : nat; w_sc : bool; w_lc : bool; w_dirty : list nat; w_id : nat
}.

Definition robj (f g : nat) (vx : vobj) (x : fobj) : Prop :=
  o_file x = option_map (fun b : bool => pick b f g) (vo_file vx) /\
  o_content x = vo_content vx /\ o_refs x = vo_refs vx.

Record matches (b : state) (f g c m : nat) (v : vw) (s : state) : Prop := {
  m_f : files s f = vf v;
  m_g : files s g = vg v;
  m_fr : forall i, i <> f -> i <> g -> files s i = files b i;
  m_c : robj f g (vc v) (objs s c);
  m_n : robj f g (vn v) (objs s m);
  m_or : forall j, j <> c -> j <> m -> objs s j = objs b j;
  m_nf : nfiles s = w_nf v;
  m_sc : s_cur s = pick (w_sc v) c m;
  m_lc : l_cur s = pick (w_lc v) c m;
  m_d : dirty s = w_dirty v;
  m_id : next_id s = w_id v
}.

Definition v_setf (sel : bool) (v : vw) (x : file) : vw :=
  {| vf := if sel then vf v else x; vg := if sel then x else vg v; vc := vc v; vn := vn v;
     w_nf := w_nf v; w_sc := w_sc v; w_lc := w_lc v; w_dirty := w_dirty v; w_id := w_id v |}.
Definition v_seto (sel : bool) (v : vw) (x : vobj) : vw :=
  {| vf := vf v; vg := vg v; vc := if sel then vc v else x; vn := if sel then x else vn v;
     w_nf := w_nf v; w_sc := w_sc v; w_lc := w_lc v; w_dirty := w_dirty v; w_id := w_id v |}.
Definition v_map_file (sel : bool) (F : file -> file) (v : vw) : vw :=
  v_setf sel v (F (pick sel (vf v) (vg v))).
Definition v_map_obj (sel : bool) (G : vobj -> vobj) (v : vw) : vw :=
  v_seto sel v (G (pick sel (vc v) (vn v))).
Definition vobj_inc (x : vobj) : vobj :=
  {| vo_file := vo_file x; vo_content := vo_content x; vo_refs := S (vo_refs x) |}.
Definition vobj_dec (x : vobj) : vobj :=
  {| vo_file := vo_file x; vo_content := vo_content x; vo_refs := pred (vo_refs x) |}.
Definition v_obj_decref (sel : bool) (v : vw) : vw :=
  let x := pick sel (vc v) (vn v) in
  let v1 := v_map_obj sel vobj_dec v in
  if pred (vo_refs x) =? 0
  then match vo_file x with Some b => v_map_file b file_dec v1 | None => v1 end
  else v1.
Definition v_bump_id (v : vw) : vw :=
  {| vf := vf v; vg := vg v; vc := vc v; vn := vn v;
     w_nf := w_nf v; w_sc := w_sc v; w_lc := w_lc v; w_dirty := w_dirty v; w_id := S (w_id v) |}.
Definition v_bump_nf (v : vw) : vw :=
  {| vf := vf v; vg := vg v; vc := vc v; vn := vn v;
     w_nf := S (w_nf v); w_sc := w_sc v; w_lc := w_lc v; w_dirty := w_dirty v; w_id := w_id v |}.
Definition v_set_sc (sel : bool) (v : vw) : vw :=
  {| vf := vf v; vg := vg v; vc := vc v; vn := vn v;
     w_nf := w_nf v; w_sc := sel; w_lc := w_lc v; w_dirty := w_dirty v; w_id := w_id v |}.
Definition v_set_lc (sel : bool) (v : vw) : vw :=
  {| vf := vf v; vg := vg v; vc := vc v; vn := vn v;
     w_nf := w_nf v; w_sc := w_sc v; w_lc := sel; w_dirty := w_dirty v; w_id := w_id v |}.
Definition v_set_dirty (d : list nat) (v : vw) : vw :=
  {| vf := vf v; vg := vg v; vc := vc v; vn := vn v;
     w_nf := w_nf v; w_sc := w_sc v; w_lc := w_lc v; w_dirty := d; w_id := w_id v |}.

Section Sim.
  Variables (b : state) (f g c m : nat).
  Hypothesis Hfg : f <> g.
  Hypothesis Hcm : c <> m.

  Local Notation M := (matches b f g c m).

  Lemma eqb_neq_false x y : x <> y -> (x =? y) = false.
  Proof. apply Nat.eqb_neq. Qed.

  Lemma sim_map_file_f F v s : M v s -> M (v_map_file false F v) (map_file s f F).
  Proof.
    intros [H1 H2 H3 H4 H5 H6 H7 H8 H9 H10 H11].
    constructor; simpl; auto.
    - rewrite Nat.eqb_refl, H1. reflexivity.
    - rewrite eqb_neq_false by auto. auto.
    - intros i Hi Hi'. rewrite eqb_neq_false by auto. auto.
  Qed.

  Lemma sim_map_file_g F v s : M v s -> M (v_map_file true F v) (map_file s g F).
  Proof.
    intros [H1 H2 H3 H4 H5 H6 H7 H8 H9 H10 H11].
    constructor; simpl; auto.
    - rewrite eqb_neq_false by auto. auto.
    - rewrite Nat.eqb_refl, H2. reflexivity.
    - intros i Hi Hi'. rewrite eqb_neq_false by auto. auto.
  Qed.

  Lemma sim_map_file sel F v s : M v s -> M (v_map_file sel F v) (map_file s (pick sel f g) F).
  Proof. destruct sel; [apply sim_map_file_g | apply sim_map_file_f]. Qed.

  Lemma sim_map_obj_c G Gv v s :
    (forall vx x, robj f g vx x -> robj f g (Gv vx) (G x)) ->
    M v s -> M (v_map_obj false Gv v) (map_obj s c G).
  Proof.
    intros HG [H1 H2 H3 H4 H5 H6 H7 H8 H9 H10 H11].
    constructor; simpl; auto.
    - rewrite Nat.eqb_refl. auto.
    - rewrite (eqb_neq_false m c) by auto. auto.
    - intros j Hj Hj'. rewrite eqb_neq_false by auto. auto.
  Qed.

  Lemma sim_map_obj_m G Gv v s :
    (forall vx x, robj f g vx x -> robj f g (Gv vx) (G x)) ->
    M v s -> M (v_map_obj true Gv v) (map_obj s m G).
  Proof.
    intros HG [H1 H2 H3 H4 H5 H6 H7 H8 H9 H10 H11].
    constructor; simpl; auto.
    - rewrite eqb_neq_false by auto. auto.
    - rewrite Nat.eqb_refl. auto.
    - intros j Hj Hj'. rewrite eqb_neq_false by auto. auto.
  Qed.

  Lemma robj_inc vx x : robj f g vx x -> robj f g (vobj_inc vx) (obj_inc x).
  Proof. intros (A & B & C). repeat split; simpl; auto. Qed.
  Lemma robj_dec vx x : robj f g vx x -> robj f g (vobj_dec vx) (obj_dec x).
  Proof. intros (A & B & C). repeat split; simpl; auto. Qed.
  Lemma robj_const sel ct r vx x :
    robj f g vx x ->
    robj f g ((fun _ => {| vo_file := Some sel; vo_content := ct; vo_refs := r |}) vx)
             ((fun _ => {| o_file := Some (pick sel f g); o_content := ct; o_refs := r |}) x).
  Proof. intros _. repeat split. Qed.

  Lemma sim_obj_addref_c v s : M v s -> M (v_map_obj false vobj_inc v) (obj_addref s c).
  Proof. apply sim_map_obj_c, robj_inc. Qed.
  Lemma sim_obj_addref_m v s : M v s -> M (v_map_obj true vobj_inc v) (obj_addref s m).
  Proof. apply sim_map_obj_m, robj_inc. Qed.

  Lemma sim_alloc_m_f ct r v s :
    M v s ->
    M (v_map_obj true (fun _ => {| vo_file := Some false; vo_content := ct; vo_refs := r |}) v)
      (map_obj s m (fun _ => {| o_file := Some f; o_content := ct; o_refs := r |})).
  Proof. apply sim_map_obj_m. intros vx x Hx. apply (robj_const false ct r vx x Hx). Qed.
  Lemma sim_alloc_m_g ct r v s :
    M v s ->
    M (v_map_obj true (fun _ => {| vo_file := Some true; vo_content := ct; vo_refs := r |}) v)
      (map_obj s m (fun _ => {| o_file := Some g; o_content := ct; o_refs := r |})).
  Proof. apply sim_map_obj_m. intros vx x Hx. apply (robj_const true ct r vx x Hx). Qed.

  Lemma sim_obj_decref_c v s : M v s -> M (v_obj_decref false v) (obj_decref s c).
  Proof.
    intros H. unfold obj_decref, v_obj_decref.
    pose proof (m_c _ _ _ _ _ _ _ H) as (A & B & C). simpl pick.
    rewrite C, A.
    pose proof (sim_map_obj_c obj_dec vobj_dec v s robj_dec H) as H1.
    destruct (pred (vo_refs (vc v)) =? 0); auto.
    destruct (vo_file (vc v)) as [sel|]; simpl; auto.
    apply (sim_map_file sel). exact H1.
  Qed.

  Lemma sim_obj_decref_m v s : M v s -> M (v_obj_decref true v) (obj_decref s m).
  Proof.
    intros H. unfold obj_decref, v_obj_decref.
    pose proof (m_n _ _ _ _ _ _ _ H) as (A & B & C). simpl pick.
    rewrite C, A.
    pose proof (sim_map_obj_m obj_dec vobj_dec v s robj_dec H) as H1.
    destruct (pred (vo_refs (vn v)) =? 0); auto.
    destruct (vo_file (vn v)) as [sel|]; simpl; auto.
    apply (sim_map_file sel). exact H1.
  Qed.

  Lemma sim_bump_id v s : M v s -> M (v_bump_id v) (bump_id s).
  Proof. intros []. constructor; simpl; auto. Qed.
  Lemma sim_bump_nf v s : M v s -> M (v_bump_nf v) (bump_nfiles s).
  Proof. intros []. constructor; simpl; auto. Qed.
  Lemma sim_set_sc_c v s : M v s -> M (v_set_sc false v) (set_scur s c).
  Proof. intros []. constructor; simpl; auto. Qed.
  Lemma sim_set_sc_m v s : M v s -> M (v_set_sc true v) (set_scur s m).
  Proof. intros []. constructor; simpl; auto. Qed.
  Lemma sim_set_lc_c v s : M v s -> M (v_set_lc false v) (set_lcur s c).
  Proof. intros []. constructor; simpl; auto. Qed.
  Lemma sim_set_lc_m v s : M v s -> M (v_set_lc true v) (set_lcur s m).
  Proof. intros []. constructor; simpl; auto. Qed.
  Lemma sim_set_dirty d v s : M v s -> M (v_set_dirty d v) (set_dirty s d).
  Proof. intros []. constructor; simpl; auto. Qed.
End Sim.

(* scalar fields through the primitives *)
Lemma sc_nfiles_map_file s i F : nfiles (map_file s i F) = nfiles s.
Proof. reflexivity. Qed.
Lemma sc_s_cur_map_file s i F : s_cur (map_file s i F) = s_cur s.
Proof. reflexivity. Qed.
Lemma sc_l_cur_map_file s i F : l_cur (map_file s i F) = l_cur s.
Proof. reflexivity. Qed.
Lemma sc_dirty_map_file s i F : dirty (map_file s i F) = dirty s.
Proof. reflexivity. Qed.
Lemma sc_next_id_map_file s i F : next_id (map_file s i F) = next_id s.
Proof. reflexivity. Qed.
Lemma sc_nfiles_map_obj s i G : nfiles (map_obj s i G) = nfiles s.
Proof. reflexivity. Qed.
Lemma sc_s_cur_map_obj s i G : s_cur (map_obj s i G) = s_cur s.
Proof. reflexivity. Qed.
Lemma sc_l_cur_map_obj s i G : l_cur (map_obj s i G) = l_cur s.
Proof. reflexivity. Qed.
Lemma sc_dirty_map_obj s i G : dirty (map_obj s i G) = dirty s.
Proof. reflexivity. Qed.
Lemma sc_next_id_map_obj s i G : next_id (map_obj s i G) = next_id s.
Proof. reflexivity. Qed.
Lemma sc_nfiles_file_addref s i : nfiles (file_addref s i) = nfiles s.
Proof. reflexivity. Qed.
Lemma sc_s_cur_file_addref s i : s_cur (file_addref s i) = s_cur s.
Proof. reflexivity. Qed.
Lemma sc_l_cur_file_addref s i : l_cur (file_addref s i) = l_cur s.
Proof. reflexivity. Qed.
Lemma sc_dirty_file_addref s i : dirty (file_addref s i) = dirty s.
Proof. reflexivity. Qed.
Lemma sc_next_id_file_addref s i : next_id (file_addref s i) = next_id s.
Proof. reflexivity. Qed.
Lemma sc_nfiles_file_decref s i : nfiles (file_decref s i) = nfiles s.
Proof. reflexivity. Qed.
Lemma sc_s_cur_file_decref s i : s_cur (file_decref s i) = s_cur s.
Proof. reflexivity. Qed.
Lemma sc_l_cur_file_decref s i : l_cur (file_decref s i) = l_cur s.
Proof. reflexivity. Qed.
Lemma sc_dirty_file_decref s i : dirty (file_decref s i) = dirty s.
Proof. reflexivity. Qed.
Lemma sc_next_id_file_decref s i : next_id (file_decref s i) = next_id s.
Proof. reflexivity. Qed.
Lemma sc_nfiles_sync_file s i : nfiles (sync_file s i) = nfiles s.
Proof. reflexivity. Qed.
Lemma sc_s_cur_sync_file s i : s_cur (sync_file s i) = s_cur s.
Proof. reflexivity. Qed.
Lemma sc_l_cur_sync_file s i : l_cur (sync_file s i) = l_cur s.
Proof. reflexivity. Qed.
Lemma sc_dirty_sync_file s i : dirty (sync_file s i) = dirty s.
Proof. reflexivity. Qed.
Lemma sc_next_id_sync_file s i : next_id (sync_file s i) = next_id s.
Proof. reflexivity. Qed.
Lemma sc_nfiles_add_footer s i d : nfiles (add_footer s i d) = nfiles s.
Proof. reflexivity. Qed.
Lemma sc_s_cur_add_footer s i d : s_cur (add_footer s i d) = s_cur s.
Proof. reflexivity. Qed.
Lemma sc_l_cur_add_footer s i d : l_cur (add_footer s i d) = l_cur s.
Proof. reflexivity. Qed.
Lemma sc_dirty_add_footer s i d : dirty (add_footer s i d) = dirty s.
Proof. reflexivity. Qed.
Lemma sc_next_id_add_footer s i d : next_id (add_footer s i d) = next_id s.
Proof. reflexivity. Qed.
Lemma sc_nfiles_obj_addref s i : nfiles (obj_addref s i) = nfiles s.
Proof. reflexivity. Qed.
Lemma sc_s_cur_obj_addref s i : s_cur (obj_addref s i) = s_cur s.
Proof. reflexivity. Qed.
Lemma sc_l_cur_obj_addref s i : l_cur (obj_addref s i) = l_cur s.
Proof. reflexivity. Qed.
Lemma sc_dirty_obj_addref s i : dirty (obj_addref s i) = dirty s.
Proof. reflexivity. Qed.
Lemma sc_next_id_obj_addref s i : next_id (obj_addref s i) = next_id s.
Proof. reflexivity. Qed.
Lemma sc_nfiles_bump_id s : nfiles (bump_id s) = nfiles s.
Proof. reflexivity. Qed.
Lemma sc_s_cur_bump_id s : s_cur (bump_id s) = s_cur s.
Proof. reflexivity. Qed.
Lemma sc_l_cur_bump_id s : l_cur (bump_id s) = l_cur s.
Proof. reflexivity. Qed.
Lemma sc_dirty_bump_id s : dirty (bump_id s) = dirty s.
Proof. reflexivity. Qed.
Lemma sc_next_id_bump_id s : next_id (bump_id s) = S (next_id s).
Proof. reflexivity. Qed.
Lemma sc_nfiles_bump_nfiles s : nfiles (bump_nfiles s) = S (nfiles s).
Proof. reflexivity. Qed.
Lemma sc_s_cur_bump_nfiles s : s_cur (bump_nfiles s) = s_cur s.
Proof. reflexivity. Qed.
Lemma sc_l_cur_bump_nfiles s : l_cur (bump_nfiles s) = l_cur s.
Proof. reflexivity. Qed.
Lemma sc_dirty_bump_nfiles s : dirty (bump_nfiles s) = dirty s.
Proof. reflexivity. Qed.
Lemma sc_next_id_bump_nfiles s : next_id (bump_nfiles s) = next_id s.
Proof. reflexivity. Qed.
Lemma sc_nfiles_set_scur s i : nfiles (set_scur s i) = nfiles s.
Proof. reflexivity. Qed.
Lemma sc_s_cur_set_scur s i : s_cur (set_scur s i) = i.
Proof. reflexivity. Qed.
Lemma sc_l_cur_set_scur s i : l_cur (set_scur s i) = l_cur s.
Proof. reflexivity. Qed.
Lemma sc_dirty_set_scur s i : dirty (set_scur s i) = dirty s.
Proof. reflexivity. Qed.
Lemma sc_next_id_set_scur s i : next_id (set_scur s i) = next_id s.
Proof. reflexivity. Qed.
Lemma sc_nfiles_set_lcur s i : nfiles (set_lcur s i) = nfiles s.
Proof. reflexivity. Qed.
Lemma sc_s_cur_set_lcur s i : s_cur (set_lcur s i) = s_cur s.
Proof. reflexivity. Qed.
Lemma sc_l_cur_set_lcur s i : l_cur (set_lcur s i) = i.
Proof. reflexivity. Qed.
Lemma sc_dirty_set_lcur s i : dirty (set_lcur s i) = dirty s.
Proof. reflexivity. Qed.
Lemma sc_next_id_set_lcur s i : next_id (set_lcur s i) = next_id s.
Proof. reflexivity. Qed.
Lemma sc_nfiles_set_dirty s d : nfiles (set_dirty s d) = nfiles s.
Proof. reflexivity. Qed.
Lemma sc_s_cur_set_dirty s d : s_cur (set_dirty s d) = s_cur s.
Proof. reflexivity. Qed.
Lemma sc_l_cur_set_dirty s d : l_cur (set_dirty s d) = l_cur s.
Proof. reflexivity. Qed.
Lemma sc_dirty_set_dirty s d : dirty (set_dirty s d) = d.
Proof. reflexivity. Qed.
Lemma sc_next_id_set_dirty s d : next_id (set_dirty s d) = next_id s.
Proof. reflexivity. Qed.
Lemma sc_nfiles_obj_decref s i : nfiles (obj_decref s i) = nfiles s.
Proof. unfold obj_decref. destruct (pred (o_refs (objs s i)) =? 0); [destruct (o_file (objs s i))|]; reflexivity. Qed.
Lemma sc_s_cur_obj_decref s i : s_cur (obj_decref s i) = s_cur s.
Proof. unfold obj_decref. destruct (pred (o_refs (objs s i)) =? 0); [destruct (o_file (objs s i))|]; reflexivity. Qed.
Lemma sc_l_cur_obj_decref s i : l_cur (obj_decref s i) = l_cur s.
Proof. unfold obj_decref. destruct (pred (o_refs (objs s i)) =? 0); [destruct (o_file (objs s i))|]; reflexivity. Qed.
Lemma sc_dirty_obj_decref s i : dirty (obj_decref s i) = dirty s.
Proof. unfold obj_decref. destruct (pred (o_refs (objs s i)) =? 0); [destruct (o_file (objs s i))|]; reflexivity. Qed.
Lemma sc_next_id_obj_decref s i : next_id (obj_decref s i) = next_id s.
Proof. unfold obj_decref. destruct (pred (o_refs (objs s i)) =? 0); [destruct (o_file (objs s i))|]; reflexivity. Qed.
Global Hint Rewrite sc_nfiles_map_file sc_s_cur_map_file sc_l_cur_map_file sc_dirty_map_file sc_next_id_map_file sc_nfiles_map_obj sc_s_cur_map_obj sc_l_cur_map_obj sc_dirty_map_obj sc_next_id_map_obj sc_nfiles_file_addref sc_s_cur_file_addref sc_l_cur_file_addref sc_dirty_file_addref sc_next_id_file_addref sc_nfiles_file_decref sc_s_cur_file_decref sc_l_cur_file_decref sc_dirty_file_decref sc_next_id_file_decref sc_nfiles_sync_file sc_s_cur_sync_file sc_l_cur_sync_file sc_dirty_sync_file sc_next_id_sync_file sc_nfiles_add_footer sc_s_cur_add_footer sc_l_cur_add_footer sc_dirty_add_footer sc_next_id_add_footer sc_nfiles_obj_addref sc_s_cur_obj_addref sc_l_cur_obj_addref sc_dirty_obj_addref sc_next_id_obj_addref sc_nfiles_bump_id sc_s_cur_bump_id sc_l_cur_bump_id sc_dirty_bump_id sc_next_id_bump_id sc_nfiles_bump_nfiles sc_s_cur_bump_nfiles sc_l_cur_bump_nfiles sc_dirty_bump_nfiles sc_next_id_bump_nfiles sc_nfiles_set_scur sc_s_cur_set_scur sc_l_cur_set_scur sc_dirty_set_scur sc_next_id_set_scur sc_nfiles_set_lcur sc_s_cur_set_lcur sc_l_cur_set_lcur sc_dirty_set_lcur sc_next_id_set_lcur sc_nfiles_set_dirty sc_s_cur_set_dirty sc_l_cur_set_dirty sc_dirty_set_dirty sc_next_id_set_dirty sc_nfiles_obj_decref sc_s_cur_obj_decref sc_l_cur_obj_decref sc_dirty_obj_decref sc_next_id_obj_decref : sc.

(* ------------------------------------------------------------------ *)
(* The two classes of results of one iteration of the persister         *)

Definition same_meta (x y : file) : Prop :=
  f_exists x = f_exists y /\ f_refs x = f_refs y /\ f_doomed x = f_doomed y /\ f_header x = f_header y.

(* the complete footers of a file after a failed round: unchanged, or one more
   footer, the one the failed round wrote completely (id m, content ct) *)
Definition foot_err (m : nat) (ct : list nat) (id' : nat) (old new : list dfoot) : Prop :=
  new = old \/ (new = {| d_id := m; d_content := ct |} :: old /\ id' = S m).

Definition pending (st : state) : list nat := o_content (cur st) ++ dirty st.

(* LK: under which condition a file created by the failed round may stay in the directory *)
Record ErrStep (LK : Prop) (st st' : state) : Prop := {
  e_sc : s_cur st' = s_cur st;
  e_lc : l_cur st' = l_cur st;
  e_d : dirty st' = dirty st;
  e_nf : nfiles st <= nfiles st';
  e_id : next_id st <= next_id st';
  e_cur : objs st' (s_cur st) = objs st (s_cur st);
  e_orefs : forall j, j <> s_cur st -> o_refs (objs st j) = 0 -> o_refs (objs st' j) = 0;
  e_old : forall i, i < nfiles st ->
          same_meta (files st' i) (files st i) /\
          foot_err (next_id st) (pending st) (next_id st') (f_footers (files st i)) (f_footers (files st' i));
  e_new : forall i, nfiles st <= i ->
          f_refs (files st' i) = 0 /\
          (f_doomed (files st' i) = true -> f_exists (files st' i) = false) /\
          foot_err (next_id st) (pending st) (next_id st') [] (f_footers (files st' i)) /\
          (f_exists (files st' i) = true -> LK);
  e_fresh : forall i, nfiles st' <= i -> files st' i = no_file;
  e_ofresh : forall j, next_id st' <= j -> objs st' j = no_obj
}.

(* sync: the new footer must be durable; LKold: under which condition the
   superseded file of a full compaction may stay in the directory *)
Record OkStep (sync : bool) (LKold : Prop) (st st' : state) : Prop := {
  k_sc : s_cur st' = next_id st;
  k_lc : l_cur st' = next_id st;
  k_d : dirty st' = [];
  k_id : next_id st' = S (next_id st);
  k_nf : nfiles st <= nfiles st';
  k_orefs : forall j, j <> next_id st -> o_refs (objs st j) = 0 \/ j = s_cur st -> o_refs (objs st' j) = 0;
  k_fresh : forall i, nfiles st' <= i -> files st' i = no_file;
  k_ofresh : forall j, S (next_id st) <= j -> objs st' j = no_obj;
  k_new : exists t,
      objs st' (next_id st) = {| o_file := Some t; o_content := pending st; o_refs := 2 |} /\
      t < nfiles st' /\
      (o_file (cur st) = Some t \/ t = nfiles st) /\
      f_exists (files st' t) = true /\ f_header (files st' t) = true /\
      f_doomed (files st' t) = false /\ f_refs (files st' t) = 1 /\
      f_footers (files st' t) = {| d_id := next_id st; d_content := pending st |} :: f_footers (files st t) /\
      (sync = true -> f_unsynced (files st' t) = []) /\
      forall i, i <> t ->
        f_footers (files st' i) = f_footers (files st i) /\
        (f_exists (files st' i) = true -> f_exists (files st i) = true /\ (o_file (cur st) = Some i -> LKold)) /\
        (o_file (cur st) <> Some i -> f_refs (files st' i) = f_refs (files st i) /\ f_doomed (files st' i) = f_doomed (files st i)) /\
        (o_file (cur st) = Some i -> f_refs (files st' i) = 0 /\ (f_doomed (files st' i) = true -> f_exists (files st' i) = false))
}.

Lemma desc_cons_lt (d : dfoot) (l : list dfoot) :
  desc l -> (forall e, In e l -> d_id e < d_id d) -> desc (d :: l).
Proof. simpl; auto. Qed.

Lemma Inv_err LK n st st' :
  Inv n st -> ErrStep LK st st' -> (dirty st <> [] \/ next_id st' = next_id st) -> Inv n st'.
Proof.
  intros [Hsame Hclt Hcr Hor Hfr Hfresh Hdoom Hserved Hnodup Hidlt Hdids Horph Hdesc Hofresh]
         [Esc Elc Ed Enf Eid Ecur Eor Eold Enew Efresh Eofresh] Hdn.
  unfold pending, cur in *.
  assert (Hfoot : forall i d, In d (f_footers (files st' i)) ->
            In d (f_footers (files st i)) \/
            (d = {| d_id := next_id st; d_content := o_content (objs st (s_cur st)) ++ dirty st |} /\
             next_id st' = S (next_id st))).
  { intros i d Hin. destruct (le_lt_dec (nfiles st) i) as [Hi|Hi].
    - destruct (Enew i Hi) as (_ & _ & [E|[E E']] & _); rewrite E in Hin; simpl in Hin.
      + contradiction.
      + destruct Hin as [<-|[]]; auto.
    - destruct (Eold i Hi) as (_ & [E|[E E']]); rewrite E in Hin; auto.
      destruct Hin as [<-|Hin]; auto. }
  constructor; unfold cur; rewrite ?Esc, ?Elc, ?Ed, ?Ecur.
  - auto.
  - lia.
  - auto.
  - intros j Hj. apply Eor; auto.
  - intros i. destruct (le_lt_dec (nfiles st) i) as [Hi|Hi].
    + destruct (Enew i Hi) as (-> & _).
      destruct (o_file (objs st (s_cur st))) as [f|]; auto.
      destruct Hserved as (Hf & _). rewrite (proj2 (Nat.eqb_neq i f)); [auto|lia].
    + destruct (Eold i Hi) as ((_ & -> & _) & _). apply Hfr.
  - auto.
  - intros i. destruct (le_lt_dec (nfiles st) i) as [Hi|Hi].
    + destruct (Enew i Hi) as (_ & H & _). exact H.
    + destruct (Eold i Hi) as ((-> & _ & -> & _) & _). apply Hdoom.
  - destruct (o_file (objs st (s_cur st))) as [f|]; auto.
    destruct Hserved as (Hf & Hex & Hhd & Hnd & Hin).
    destruct (Eold f Hf) as ((-> & _ & -> & ->) & HF).
    repeat split; auto; try lia.
    destruct HF as [->|[-> _]]; simpl; auto.
  - auto.
  - auto.
  - intros i d Hin. destruct (Hfoot i d Hin) as [H|[-> E]].
    + specialize (Hdids i d H). lia.
    + simpl. lia.
  - intros i d Hin Hlt. destruct (Hfoot i d Hin) as [H|[-> E]].
    + apply (Horph i d H Hlt).
    + simpl. split; auto. destruct Hdn as [H|H]; auto. lia.
  - intros i. destruct (le_lt_dec (nfiles st) i) as [Hi|Hi].
    + destruct (Enew i Hi) as (_ & _ & [E|[E E']] & _); rewrite E; simpl; auto.
      split; auto. intros e [].
    + destruct (Eold i Hi) as (_ & [E|[E E']]); rewrite E; auto.
      apply desc_cons_lt; auto. simpl. intros e He. apply (Hdids i e He).
  - auto.
Qed.

Lemma Inv_ok sync LK n st st' :
  Inv n st -> OkStep sync LK st st' -> Inv n st'.
Proof.
  intros [Hsame Hclt Hcr Hor Hfr Hfresh Hdoom Hserved Hnodup Hidlt Hdids Horph Hdesc Hofresh]
         [Ksc Klc Kd Kid Knf Kor Kfresh Kofresh (t & Kobj & Kt & Ktf & Kex & Khd & Knd & Krf & Kft & Ksy & Kother)].
  unfold pending, cur in *.
  assert (Hfoot : forall i d, In d (f_footers (files st' i)) -> d_id d < S (next_id st)).
  { intros i d Hin. destruct (Nat.eq_dec i t) as [->|Hi].
    - rewrite Kft in Hin. destruct Hin as [<-|Hin]; simpl; auto.
      specialize (Hdids t d Hin). lia.
    - destruct (Kother i Hi) as (E & _). rewrite E in Hin. specialize (Hdids i d Hin). lia. }
  constructor; unfold cur; rewrite ?Ksc, ?Klc, ?Kd, ?Kobj, ?Kid; simpl.
  - auto.
  - lia.
  - auto.
  - intros j Hj. apply Kor; auto. destruct (Nat.eq_dec j (s_cur st)); auto.
  - intros i. destruct (Nat.eqb_spec i t) as [->|Hi]; auto.
    destruct (Kother i Hi) as (_ & _ & K1 & K2).
    destruct (o_file (objs st (s_cur st))) as [f|] eqn:Ef.
    + destruct (Nat.eq_dec f i) as [->|Hfi].
      * apply K2; auto.
      * destruct K1 as (-> & _); [congruence|]. rewrite Hfr.
        rewrite (proj2 (Nat.eqb_neq i f)); auto.
    + destruct K1 as (-> & _); [congruence|]. apply Hfr.
  - auto.
  - intros i Hd. destruct (Nat.eq_dec i t) as [->|Hi]; [congruence|].
    destruct (Kother i Hi) as (_ & K0 & K1 & K2).
    destruct (f_exists (files st' i)) eqn:Ex; auto.
    destruct K0 as (Ex0 & _); auto.
    destruct (o_file (objs st (s_cur st))) as [f|] eqn:Ef.
    + destruct (Nat.eq_dec f i) as [->|Hfi].
      * destruct K2 as (_ & K2); auto.
      * destruct K1 as (_ & K1); [congruence|]. rewrite K1 in Hd. rewrite (Hdoom i Hd) in Ex0. discriminate.
    + destruct K1 as (_ & K1); [congruence|]. rewrite K1 in Hd. rewrite (Hdoom i Hd) in Ex0. discriminate.
  - repeat split; auto. rewrite Kft. left; reflexivity.
  - rewrite app_nil_r. auto.
  - intros x Hx. rewrite app_nil_r in Hx. auto.
  - auto.
  - intros i d Hin Hlt. specialize (Hfoot i d Hin). lia.
  - intros i. destruct (Nat.eq_dec i t) as [->|Hi].
    + rewrite Kft. apply desc_cons_lt; auto. simpl. intros e He. apply (Hdids t e He).
    + destruct (Kother i Hi) as (-> & _). auto.
  - auto.
Qed.

Lemma NoDup_app_single (l : list nat) (x : nat) : NoDup l -> ~ In x l -> NoDup (l ++ [x]).
Proof.
  induction l as [|a l IH]; simpl; intros Hn Hx.
  - constructor; auto.
  - inversion Hn; subst. constructor.
    + intros Hin. apply in_app_or in Hin. destruct Hin as [Hin|[->|[]]]; auto.
    + apply IH; auto.
Qed.

Lemma Inv_hand_over n st :
  Inv n st -> Inv (S n) (hand_over n st) /\ dirty (hand_over n st) <> [].
Proof.
  intros [Hsame Hclt Hcr Hor Hfr Hfresh Hdoom Hserved Hnodup Hidlt Hdids Horph Hdesc Hofresh].
  unfold hand_over. destruct (dirty st) as [|x r] eqn:Ed.
  - split; [|simpl; discriminate].
    unfold cur in *. rewrite app_nil_r in *.
    constructor; unfold cur; simpl; auto.
    + apply NoDup_app_single; auto. intros Hin. specialize (Hidlt _ Hin). lia.
    + intros y Hy. apply in_app_or in Hy. destruct Hy as [Hy|[<-|[]]]; auto. specialize (Hidlt _ Hy). lia.
    + intros i d Hin Hlt. destruct (Horph i d Hin Hlt) as (_ & []). reflexivity.
  - split; [|rewrite Ed; discriminate].
    constructor; unfold cur; rewrite ?Ed; auto. intros y Hy. specialize (Hidlt y Hy). lia.
Qed.

(* ------------------------------------------------------------------ *)
(* From a computed view of the result to the class of the step          *)

Lemma robj_eq f g vx x y : robj f g vx x -> robj f g vx y -> x = y.
Proof.
  intros (A & B & C) (A' & B' & C'). destruct x, y; simpl in *. congruence.
Qed.

Ltac same_file_case Hn :=
  split; [reflexivity|];
  split; [intros Hx; split; [exact Hx|intros Hy; contradiction]|];
  split; [intros _; split; reflexivity|];
  intros Hy; contradiction.

Section Views.
  Variables (st : state) (f g c m : nat) (v0 : vw).
  Hypothesis Hfresh : forall i, nfiles st <= i -> files st i = no_file.
  Hypothesis Hc : s_cur st = c.
  Hypothesis Hl : l_cur st = c.
  Hypothesis Hm : next_id st = m.
  Hypothesis Hg : nfiles st = g.
  Hypothesis Hfg : f <> g.
  Hypothesis Hcm : c <> m.
  Hypothesis Hcltm : c < m.
  Hypothesis Hofresh : forall j, next_id st <= j -> objs st j = no_obj.
  Hypothesis H0 : matches st f g c m v0 st.
  (* f is the served file, or a dummy index beyond g when there is none *)
  Hypothesis Hf : (f < g /\ vo_file (vc v0) = Some false) \/ (g < f /\ vo_file (vc v0) = None).

  Let ct := pending st.

  Definition VErr (LK : Prop) (V : vw) : Prop :=
    w_sc V = false /\ w_lc V = false /\ w_dirty V = w_dirty v0 /\
    g <= w_nf V /\ m <= w_id V /\
    vc V = vc v0 /\ vo_refs (vn V) = 0 /\
    same_meta (vf V) (vf v0) /\
    foot_err m ct (w_id V) (f_footers (vf v0)) (f_footers (vf V)) /\
    (g < f -> vf V = no_file) /\
    f_refs (vg V) = 0 /\ (f_doomed (vg V) = true -> f_exists (vg V) = false) /\
    foot_err m ct (w_id V) [] (f_footers (vg V)) /\
    (f_exists (vg V) = true -> LK) /\
    (w_nf V <= g -> vg V = no_file) /\
    (w_id V <= m -> vn V = vn v0).

  Lemma err_of_view LK V s' : matches st f g c m V s' -> VErr LK V -> ErrStep LK st s'.
  Proof.
    intros M (V1 & V2 & V3 & V4 & V5 & V6 & V7 & V8 & V9 & V10 & V11 & V12 & V13 & V14 & V15 & V16).
    destruct M as [Mf Mg Mfr Mc Mn Mor Mnf Msc Mlc Md Mid].
    destruct H0 as [Nf Ng Nfr Nc Nn Nor Nnf Nsc Nlc Nd Nid].
    rewrite V1 in Msc. rewrite V2 in Mlc. simpl in Msc, Mlc.
    assert (Gno : files st g = no_file) by (apply Hfresh; lia).
    constructor; rewrite ?Hc, ?Hl, ?Hm, ?Hg; try congruence; try lia.
    - rewrite V6 in Mc. apply (robj_eq f g (vc v0)); auto.
    - intros j Hj Hz. destruct (Nat.eq_dec j m) as [->|Hjm].
      + destruct Mn as (_ & _ & ->). auto.
      + rewrite Mor; auto.
    - intros i Hi. destruct (Nat.eq_dec i f) as [->|Hif].
      + rewrite Mf, Nf, Mid. auto.
      + rewrite Mfr; auto; try lia. split; [repeat split|left; reflexivity].
    - intros i Hi. destruct (Nat.eq_dec i g) as [->|Hig].
      + rewrite Mg, Mid. auto.
      + destruct (Nat.eq_dec i f) as [->|Hif].
        * assert (Hgf : g < f) by lia. rewrite Mf, (V10 Hgf). simpl.
          repeat split; auto; try discriminate. left; reflexivity.
        * rewrite Mfr; auto. rewrite Hfresh by lia. simpl.
          repeat split; auto; try discriminate. left; reflexivity.
    - intros i Hi. rewrite Mnf in Hi. destruct (Nat.eq_dec i g) as [->|Hig].
      + rewrite Mg. apply V15. lia.
      + destruct (Nat.eq_dec i f) as [->|Hif].
        * rewrite Mf. apply V10. lia.
        * rewrite Mfr; auto. apply Hfresh. lia.
    - intros j Hj. rewrite Mid in Hj. destruct (Nat.eq_dec j m) as [->|Hjm].
      + rewrite <- (Hofresh m) by lia. apply (robj_eq f g (vn v0)); auto.
        rewrite <- V16; auto.
      + rewrite Mor; auto; try lia. apply Hofresh. lia.
  Qed.

  Definition VOk (sync : bool) (LKold : Prop) (tsel : bool) (V : vw) : Prop :=
    w_sc V = true /\ w_lc V = true /\ w_dirty V = [] /\ w_id V = S m /\ g <= w_nf V /\
    vn V = {| vo_file := Some tsel; vo_content := ct; vo_refs := 2 |} /\
    vo_refs (vc V) = 0 /\
    (let T := pick tsel (vf V) (vg V) in
     let T0 := pick tsel (vf v0) (vg v0) in
     f_exists T = true /\ f_header T = true /\ f_doomed T = false /\ f_refs T = 1 /\
     f_footers T = {| d_id := m; d_content := ct |} :: f_footers T0 /\
     (sync = true -> f_unsynced T = [])) /\
    (tsel = false -> f < g /\ vg V = vg v0) /\
    (tsel = true -> w_nf V = S g /\
       ((g < f -> vf V = vf v0) /\
        (f < g -> f_refs (vf V) = 0 /\ (f_doomed (vf V) = true -> f_exists (vf V) = false) /\
                  f_footers (vf V) = f_footers (vf v0) /\
                  (f_exists (vf V) = true -> f_exists (vf v0) = true /\ LKold)))).

  Lemma cur_file_f : f < g -> o_file (cur st) = Some f.
  Proof.
    intros Hlt. destruct H0 as [_ _ _ (A & _) _ _ _ _ _ _ _].
    unfold cur. rewrite Hc, A.
    destruct Hf as [(_ & ->)|(Hgf & _)]; [reflexivity|lia].
  Qed.

  Lemma cur_file_none : g < f -> o_file (cur st) = None.
  Proof.
    intros Hlt. destruct H0 as [_ _ _ (A & _) _ _ _ _ _ _ _].
    unfold cur. rewrite Hc, A.
    destruct Hf as [(Hgf & _)|(_ & ->)]; [lia|reflexivity].
  Qed.

  Lemma cur_file_not i : i <> f -> o_file (cur st) <> Some i.
  Proof.
    intros Hi. destruct (lt_dec f g).
    - rewrite cur_file_f by auto. congruence.
    - rewrite cur_file_none by lia. discriminate.
  Qed.

  Lemma ok_of_view sync LKold tsel V s' :
    matches st f g c m V s' -> VOk sync LKold tsel V -> OkStep sync LKold st s'.
  Proof.
    intros M (V1 & V2 & V3 & V4 & V5 & V6 & V7 & VT & VA & VB).
    destruct M as [Mf Mg Mfr Mc Mn Mor Mnf Msc Mlc Md Mid].
    pose proof H0 as [Nf Ng Nfr Nc Nn Nor Nnf Nsc Nlc Nd Nid].
    rewrite V1 in Msc. rewrite V2 in Mlc. simpl in Msc, Mlc.
    assert (Gno : files st g = no_file) by (apply Hfresh; lia).
    constructor; rewrite ?Hc, ?Hl, ?Hm, ?Hg; try congruence; try lia.
    - intros j Hj Hz. destruct (Nat.eq_dec j c) as [->|Hjc].
      + destruct Mc as (_ & _ & ->). auto.
      + rewrite Mor; auto. destruct Hz; congruence.
    - intros i Hi. rewrite Mnf in Hi. destruct tsel.
      + destruct VB as (E & VB1 & VB2); auto.
        assert (i <> g) by lia.
        destruct (Nat.eq_dec i f) as [->|Hif].
        * assert (g < f) by lia. rewrite Mf, VB1, <- Nf; auto. apply Hfresh; lia.
        * rewrite Mfr; auto. apply Hfresh; lia.
      + destruct VA as (Hlt & E); auto.
        destruct (Nat.eq_dec i g) as [->|Hig].
        * rewrite Mg, E, <- Ng. auto.
        * assert (i <> f) by lia. rewrite Mfr; auto. apply Hfresh; lia.
    - intros j Hj. rewrite Mor; auto; try lia. apply Hofresh. lia.
    - exists (pick tsel f g).
      assert (Eobj : objs s' m = {| o_file := Some (pick tsel f g); o_content := ct; o_refs := 2 |}).
      { rewrite V6 in Mn. destruct Mn as (A & B & C). destruct (objs s' m); simpl in *. congruence. }
      destruct VT as (T1 & T2 & T3 & T4 & T5 & T6).
      destruct tsel; simpl pick in *.
      + destruct VB as (E & VB1 & VB2); auto.
        rewrite Mg, Ng, Mnf.
        do 9 (split; [solve [auto | lia] |]).
        intros i Hi. destruct (Nat.eq_dec i f) as [->|Hif].
        * destruct (lt_dec f g) as [Hlt|Hnlt].
          -- destruct (VB2 Hlt) as (B1 & B2 & B3 & B4).
             rewrite Mf, Nf.
             split; [exact B3|].
             split; [intros Hx; destruct (B4 Hx); split; auto|].
             split; [intros Hn; exfalso; apply Hn, cur_file_f; auto|].
             intros _; split; auto.
          -- assert (Hgf : g < f) by lia. rewrite Mf, (VB1 Hgf), Nf.
             assert (Hn : o_file (cur st) <> Some f) by (rewrite cur_file_none by auto; discriminate).
             same_file_case Hn.
        * rewrite Mfr; auto. pose proof (cur_file_not i Hif) as Hn.
          same_file_case Hn.
      + destruct VA as (Hlt & E); auto.
        rewrite Mf, Nf, Mnf.
        do 9 (split; [solve [auto | lia | left; apply cur_file_f; auto] |]).
        intros i Hi. pose proof (cur_file_not i Hi) as Hn.
        destruct (Nat.eq_dec i g) as [->|Hig].
        * rewrite Mg, E, Ng. same_file_case Hn.
        * rewrite Mfr; auto. same_file_case Hn.
  Qed.
End Views.

(* ------------------------------------------------------------------ *)
(* Every path through one iteration of the persister                    *)

Definition sync_req (o : opts) (k : round_kind) : bool :=
  match k with
  | RAppend => negb (noSync o)
  | _ => negb (noSync o && negb (compactionSync o))
  end.

(* a file created by a failed round stays in the directory only if the Stat
   of removeFileOnClose failed, or the round was an append that had to create
   the store's first file (no clean-up in persist) *)
Definition leak_cond (fo : oracle) (n : nat) (st : state) : Prop :=
  fl fo n SRmStat = true \/ o_file (cur st) = None.

Definition step_spec (o : opts) (fo : oracle) (n : nat) (k : round_kind) (st st' : state)
           (oc : round_outcome) : Prop :=
  ro_handed oc = dirty st /\ ro_onerror oc = ro_error oc /\
  ro_kind oc = effective_kind fo n k st /\
  ro_served oc = s_cur st' /\
  (ro_error oc = true ->
     ro_committed oc = false /\ ErrStep (leak_cond fo n st) st st') /\
  (ro_error oc = false ->
     ro_committed oc = true /\
     OkStep (sync_req o (ro_kind oc)) (fl fo n SRmOldStat = true) st st').

Definition body_spec (o : opts) (fo : oracle) (n : nat) (k : round_kind) (st : state) : Prop :=
  step_spec o fo n k st (fst (persister_body o fo n k st)) (snd (persister_body o fo n k st)).

Ltac sim_step :=
  first
  [ eapply sim_alloc_m_f | eapply sim_alloc_m_g
  | eapply sim_map_file_f | eapply sim_map_file_g
  | eapply sim_obj_addref_c | eapply sim_obj_addref_m
  | eapply sim_obj_decref_c | eapply sim_obj_decref_m
  | eapply sim_bump_id | eapply sim_bump_nf
  | eapply sim_set_sc_c | eapply sim_set_sc_m
  | eapply sim_set_lc_c | eapply sim_set_lc_m
  | eapply sim_set_dirty ].

Ltac walk fo n :=
  repeat match goal with
  | |- context[if ?b then _ else _] =>
      match b with
      | context[fl fo n ?s] =>
          let E := fresh "E" in destruct (fl fo n s) eqn:E; cbn [negb andb orb fst snd]
      end
  end.

Ltac view_compute :=
  cbv [v_map_file v_map_obj v_obj_decref v_setf v_seto v_bump_id v_bump_nf v_set_sc v_set_lc v_set_dirty
       pick vobj_inc vobj_dec vf vg vc vn w_nf w_sc w_lc w_dirty w_id vo_file vo_content vo_refs
       file_inc file_dec file_sync file_addfoot file_doom fresh_file no_file
       f_exists f_refs f_doomed f_header f_footers f_unsynced d_id d_content
       Nat.pred Nat.eqb andb orb negb].

Ltac vsolve :=
  cbv zeta;
  repeat match goal with
  | |- _ /\ _ => split
  | |- _ -> _ => intro
  end;
  try solve [ reflexivity | lia | congruence | assumption
            | left; reflexivity | right; split; reflexivity
            | left; assumption | right; assumption ].

Ltac chain M0 :=
  autorewrite with sc;
  repeat match goal with H : l_cur ?st = s_cur ?st |- _ => rewrite H end;
  unfold file_addref, file_decref, sync_file, add_footer;
  repeat sim_step; first [exact M0 | assumption | lia].

Ltac walk2 fo n :=
  repeat match goal with
  | |- context[if ?b then _ else _] =>
      first
      [ match b with
        | context[?v] => is_var v; match type of v with bool => idtac end;
                         destruct v; cbn [negb andb orb fst snd]
        end
      | match b with
        | context[fl fo n ?s] =>
            let E := fresh "E" in destruct (fl fo n s) eqn:E; cbn [negb andb orb fst snd]
        end ]
  end.

Lemma step_spec_file o fo n n' k st f st' oc :
  Inv n' st -> o_file (cur st) = Some f -> k <> RNoop ->
  persister_body o fo n k st = (st', oc) -> step_spec o fo n k st st' oc.
Proof.
  intros HI Hf Hk.
  destruct HI as [Hsame Hclt Hcr Hor Hfr Hfresh Hdoom Hserved Hnodup Hidlt Hdids Horph Hdesc Hofresh].
  assert (Hct : pending st = o_content (cur st) ++ dirty st) by reflexivity.
  unfold cur in *. rewrite Hf in *.
  destruct Hserved as (Hflt & Hex & Hhd & Hnd & Hin).
  pose proof (Hfr f) as Hrf. rewrite Nat.eqb_refl in Hrf.
  pose proof (Hfresh (nfiles st) (le_n _)) as Hgno.
  pose proof (Hofresh (next_id st) (le_n _)) as Hmno.
  destruct (files st f) as [ex rf dm hd F0 U0] eqn:Ef. simpl in Hex, Hhd, Hnd, Hrf, Hin. subst ex rf dm hd.
  destruct (objs st (s_cur st)) as [cf K cr] eqn:Ec. simpl in Hf, Hcr, Hct. subst cf cr.
  pose (v0 := {| vf := {| f_exists := true; f_refs := 1; f_doomed := false; f_header := true; f_footers := F0; f_unsynced := U0 |};
                 vg := no_file;
                 vc := {| vo_file := Some false; vo_content := K; vo_refs := 2 |};
                 vn := {| vo_file := None; vo_content := []; vo_refs := 0 |};
                 w_nf := nfiles st; w_sc := false; w_lc := false; w_dirty := dirty st; w_id := next_id st |}).
  assert (Hfg : f <> nfiles st) by lia. assert (Hcm : s_cur st <> next_id st) by lia.
  assert (M0 : matches st f (nfiles st) (s_cur st) (next_id st) v0 st).
  { constructor; simpl; auto.
    - rewrite Ec. repeat split.
    - rewrite Hmno. repeat split. }
  assert (HF : (f < nfiles st /\ vo_file (vc v0) = Some false) \/ (nfiles st < f /\ vo_file (vc v0) = None))
    by (left; split; [lia|reflexivity]).
  destruct o as [ns cs ms kf].
  unfold step_spec, sync_req, persister_body, store_persist, effective_kind, persist_append, persist_compact,
         start_or_reuse, start_file, persist_footer, remove_on_close.
  cbn [noSync compactionSync midSync].
  rewrite Ec. cbn [o_file o_content].
  set (nsx := ns && negb cs). clearbody nsx.
  destruct k; [contradiction| | |].
  all: walk2 fo n.
  all: intros X; injection X as <- <-.
  all: cbn [ro_handed ro_onerror ro_error ro_kind ro_served ro_committed fst snd].
  all: split; [reflexivity|]; split; [reflexivity|]; split; [reflexivity|]; split; [reflexivity|].
  all: split; [intros X; try discriminate X | intros X; try discriminate X]; (split; [reflexivity|]).
  all: first
    [ solve [ eapply (err_of_view st f (nfiles st) (s_cur st) (next_id st) v0);
              [.. | chain M0 | ];
              first [ exact M0 | exact HF | assumption | reflexivity | lia
                    | unfold VErr, same_meta, foot_err, leak_cond; rewrite ?Hct; subst v0; view_compute; vsolve ] ]
    | solve [ eapply (ok_of_view st f (nfiles st) (s_cur st) (next_id st) v0) with (tsel := false);
              [.. | chain M0 | ];
              first [ exact M0 | exact HF | assumption | reflexivity | lia
                    | unfold VOk; rewrite ?Hct; subst v0; view_compute; vsolve ] ]
    | solve [ eapply (ok_of_view st f (nfiles st) (s_cur st) (next_id st) v0) with (tsel := true);
              [.. | chain M0 | ];
              first [ exact M0 | exact HF | assumption | reflexivity | lia
                    | unfold VOk; rewrite ?Hct; subst v0; view_compute; vsolve ] ]
    ].
Qed.

Lemma step_spec_nofile o fo n n' k st st' oc :
  Inv n' st -> o_file (cur st) = None -> k <> RNoop ->
  persister_body o fo n k st = (st', oc) -> step_spec o fo n k st st' oc.
Proof.
  intros HI Hf Hk.
  destruct HI as [Hsame Hclt Hcr Hor Hfr Hfresh Hdoom Hserved Hnodup Hidlt Hdids Horph Hdesc Hofresh].
  assert (Hct : pending st = o_content (cur st) ++ dirty st) by reflexivity.
  unfold cur in *. rewrite Hf in *.
  set (f := S (nfiles st)).
  pose proof (Hfresh f (le_S _ _ (le_n _))) as Hfno.
  pose proof (Hfresh (nfiles st) (le_n _)) as Hgno.
  pose proof (Hofresh (next_id st) (le_n _)) as Hmno.
  destruct (objs st (s_cur st)) as [cf K cr] eqn:Ec. simpl in Hf, Hcr, Hct. subst cf cr.
  assert (Hnone : o_file (cur st) = None) by (unfold cur; rewrite Ec; reflexivity).
  pose (v0 := {| vf := no_file;
                 vg := no_file;
                 vc := {| vo_file := None; vo_content := K; vo_refs := 2 |};
                 vn := {| vo_file := None; vo_content := []; vo_refs := 0 |};
                 w_nf := nfiles st; w_sc := false; w_lc := false; w_dirty := dirty st; w_id := next_id st |}).
  assert (Hfg : f <> nfiles st) by (subst f; lia). assert (Hcm : s_cur st <> next_id st) by lia.
  assert (M0 : matches st f (nfiles st) (s_cur st) (next_id st) v0 st).
  { constructor; simpl; auto.
    - rewrite Ec. repeat split.
    - rewrite Hmno. repeat split. }
  assert (HF : (f < nfiles st /\ vo_file (vc v0) = Some false) \/ (nfiles st < f /\ vo_file (vc v0) = None))
    by (right; split; [subst f; lia|reflexivity]).
  destruct o as [ns cs ms kf].
  unfold step_spec, sync_req, persister_body, store_persist, effective_kind, persist_append, persist_compact,
         start_or_reuse, start_file, persist_footer, remove_on_close.
  cbn [noSync compactionSync midSync].
  rewrite Ec. cbn [o_file o_content].
  set (nsx := ns && negb cs). clearbody nsx.
  destruct k; [contradiction| | |].
  all: walk2 fo n.
  all: intros X; injection X as <- <-.
  all: cbn [ro_handed ro_onerror ro_error ro_kind ro_served ro_committed fst snd].
  all: split; [reflexivity|]; split; [reflexivity|]; split; [reflexivity|]; split; [reflexivity|].
  all: split; [intros X; try discriminate X | intros X; try discriminate X]; (split; [reflexivity|]).
  all: first
    [ solve [ eapply (err_of_view st f (nfiles st) (s_cur st) (next_id st) v0);
              [.. | chain M0 | ];
              first [ exact M0 | exact HF | assumption | reflexivity | lia | (subst f; lia)
                    | unfold VErr, same_meta, foot_err, leak_cond; rewrite ?Hct; subst v0; view_compute; vsolve ] ]
    | solve [ eapply (ok_of_view st f (nfiles st) (s_cur st) (next_id st) v0) with (tsel := false);
              [.. | chain M0 | ];
              first [ exact M0 | exact HF | assumption | reflexivity | lia | (subst f; lia)
                    | unfold VOk; rewrite ?Hct; subst v0; view_compute; vsolve ] ]
    | solve [ eapply (ok_of_view st f (nfiles st) (s_cur st) (next_id st) v0) with (tsel := true);
              [.. | chain M0 | ];
              first [ exact M0 | exact HF | assumption | reflexivity | lia | (subst f; lia)
                    | unfold VOk; rewrite ?Hct; subst v0; view_compute; vsolve ] ]
    ].
Qed.

Lemma step_spec_holds o fo n n' k st :
  Inv n' st -> k <> RNoop -> body_spec o fo n k st.
Proof.
  intros HI Hk. unfold body_spec.
  destruct (persister_body o fo n k st) as [st' oc] eqn:E. simpl.
  destruct (o_file (cur st)) as [f|] eqn:Hf.
  - eapply step_spec_file; eauto.
  - eapply step_spec_nofile; eauto.
Qed.

(* ------------------------------------------------------------------ *)
(* The invariant holds after every iteration                            *)

Lemma noop_state st :
  o_refs (cur st) = 2 ->
  let st' := fst (persister_round {| noSync := false; compactionSync := false; midSync := false; keepFiles := false |}
                                  (fun _ _ => false) 0 RNoop st) in
  files st' = files st /\ nfiles st' = nfiles st /\ s_cur st' = s_cur st /\ l_cur st' = l_cur st /\
  dirty st' = dirty st /\ next_id st' = next_id st /\ forall j, objs st' j = objs st j.
Proof.
  unfold cur. intros Hr. simpl.
  unfold obj_decref. simpl. rewrite Nat.eqb_refl. simpl. rewrite Hr. simpl.
  repeat split; auto.
  intros j. destruct (Nat.eqb_spec j (s_cur st)) as [->|Hj]; auto.
  rewrite Nat.eqb_refl. destruct (objs st (s_cur st)); simpl in *. subst. reflexivity.
Qed.

Lemma noop_indep o fo n st :
  fst (persister_round o fo n RNoop st) =
  fst (persister_round {| noSync := false; compactionSync := false; midSync := false; keepFiles := false |}
                       (fun _ _ => false) 0 RNoop st).
Proof. reflexivity. Qed.

Lemma Inv_noop o fo n n' st : Inv n' st -> Inv n' (fst (persister_round o fo n RNoop st)).
Proof.
  intros HI. rewrite noop_indep.
  destruct (noop_state st (i_crefs _ _ HI)) as (E1 & E2 & E3 & E4 & E5 & E6 & E7).
  set (st' := fst (persister_round _ _ 0 RNoop st)) in *. clearbody st'.
  destruct HI as [Hsame Hclt Hcr Hor Hfr Hfresh Hdoom Hserved Hnodup Hidlt Hdids Horph Hdesc Hofresh].
  constructor; unfold cur in *; rewrite ?E1, ?E2, ?E3, ?E4, ?E5, ?E6, ?E7; auto.
  - intros j Hj. rewrite E7. auto.
  - intros j Hj. rewrite E7. auto.
Qed.

Lemma Inv_mono n n' st : n <= n' -> Inv n st -> Inv n' st.
Proof.
  intros Hle [Hsame Hclt Hcr Hor Hfr Hfresh Hdoom Hserved Hnodup Hidlt Hdids Horph Hdesc Hofresh].
  constructor; auto. intros x Hx. specialize (Hidlt x Hx). lia.
Qed.

(* what one iteration does, for every kind, every oracle, every option *)
Lemma round_spec o fo n k st :
  Inv n st -> k <> RNoop ->
  step_spec o fo n k (hand_over n st)
            (fst (persister_round o fo n k st)) (snd (persister_round o fo n k st)).
Proof.
  intros HI Hk. destruct (Inv_hand_over n st HI) as (HI' & _).
  pose proof (step_spec_holds o fo n (S n) k (hand_over n st) HI' Hk) as H.
  unfold body_spec in H. destruct k; try contradiction; exact H.
Qed.

Lemma round_kind_eq_dec (a b : round_kind) : {a = b} + {a <> b}.
Proof. decide equality. Qed.

Lemma Inv_round o fo n k st :
  Inv n st -> Inv (S n) (fst (persister_round o fo n k st)).
Proof.
  intros HI. destruct (round_kind_eq_dec k RNoop) as [->|Hk].
  - apply Inv_mono with n; [lia|]. apply Inv_noop; auto.
  - destruct (Inv_hand_over n st HI) as (HI' & Hd).
    pose proof (round_spec o fo n k st HI Hk) as (_ & _ & _ & _ & HE & HO).
    destruct (ro_error (snd (persister_round o fo n k st))).
    + destruct HE as (_ & HE); auto. eapply Inv_err; eauto.
    + destruct HO as (_ & HO); auto. eapply Inv_ok; eauto.
Qed.

Lemma run_cons o fo n k ks st :
  run o fo n (k :: ks) st =
  (fst (run o fo (S n) ks (fst (persister_round o fo n k st))),
   snd (persister_round o fo n k st) :: snd (run o fo (S n) ks (fst (persister_round o fo n k st)))).
Proof.
  simpl. destruct (persister_round o fo n k st) as [st1 oc]. simpl.
  destruct (run o fo (S n) ks st1). reflexivity.
Qed.

Theorem Inv_run o fo ks : forall n st,
  Inv n st -> Inv (n + length ks) (fst (run o fo n ks st)).
Proof.
  induction ks as [|k ks IH]; intros n st HI.
  - simpl. rewrite Nat.add_0_r. exact HI.
  - rewrite run_cons. simpl fst. simpl length. rewrite Nat.add_succ_r.
    apply (IH (S n)). apply Inv_round; auto.
Qed.

(* every state the persister can reach from an empty directory *)
Definition reachable (o : opts) (fo : oracle) (ks : list round_kind) : state :=
  fst (run o fo 0 ks init).

Corollary Inv_reachable o fo ks : Inv (length ks) (reachable o fo ks).
Proof. apply (Inv_run o fo ks 0 init Inv_init). Qed.

(* ------------------------------------------------------------------ *)
(* Main theorems, per iteration (any state satisfying the invariant, in
   particular every reachable one) and for whole runs                   *)

Lemma cur_hand_over n st : cur (hand_over n st) = cur st.
Proof. unfold hand_over, cur. destruct (dirty st); reflexivity. Qed.

Lemma scur_hand_over n st : s_cur (hand_over n st) = s_cur st.
Proof. unfold hand_over. destruct (dirty st); reflexivity. Qed.

Lemma objs_hand_over n st : objs (hand_over n st) = objs st.
Proof. unfold hand_over. destruct (dirty st); reflexivity. Qed.

Lemma files_hand_over n st : files (hand_over n st) = files st.
Proof. unfold hand_over. destruct (dirty st); reflexivity. Qed.

Lemma nfiles_hand_over n st : nfiles (hand_over n st) = nfiles st.
Proof. unfold hand_over. destruct (dirty st); reflexivity. Qed.

Lemma pending_hand_over n st : pending (hand_over n st) = o_content (cur st) ++ dirty (hand_over n st).
Proof. unfold pending. rewrite cur_hand_over. reflexivity. Qed.

(* (a) the served footer always lives in a file that exists, is open, is not
   scheduled for removal, and holds that footer completely *)
Theorem served_footer_alive n st :
  Inv n st ->
  forall f, o_file (cur st) = Some f ->
    f_exists (files st f) = true /\ f_doomed (files st f) = false /\
    f_header (files st f) = true /\ f_refs (files st f) = 1 /\
    In {| d_id := s_cur st; d_content := o_content (cur st) |} (f_footers (files st f)).
Proof.
  intros HI f Hf. pose proof (i_served _ _ HI) as H. pose proof (i_frefs _ _ HI f) as Hr.
  rewrite Hf in H, Hr. rewrite Nat.eqb_refl in Hr. tauto.
Qed.

Corollary served_footer_alive_run o fo ks :
  let st := reachable o fo ks in
  forall f, o_file (cur st) = Some f ->
    f_exists (files st f) = true /\ f_doomed (files st f) = false /\
    f_header (files st f) = true /\ f_refs (files st f) = 1 /\
    In {| d_id := s_cur st; d_content := o_content (cur st) |} (f_footers (files st f)).
Proof. intros st. apply (served_footer_alive (length ks)). apply Inv_reachable. Qed.

(* (b) a round that reports success: its footer is complete in an existing
   file, durable unless NoSync applies, served, and holds every id handed over *)
Theorem success_is_served o fo n k st :
  Inv n st -> k <> RNoop ->
  let st' := fst (persister_round o fo n k st) in
  let oc := snd (persister_round o fo n k st) in
  ro_error oc = false ->
  ro_committed oc = true /\ ro_onerror oc = false /\
  ro_handed oc = dirty (hand_over n st) /\ ro_handed oc <> [] /\
  dirty st' = [] /\ ro_served oc = s_cur st' /\
  o_content (cur st') = o_content (cur st) ++ ro_handed oc /\
  exists t, o_file (cur st') = Some t /\
            f_exists (files st' t) = true /\ f_doomed (files st' t) = false /\
            In {| d_id := s_cur st'; d_content := o_content (cur st') |} (f_footers (files st' t)) /\
            (sync_req o (ro_kind oc) = true -> f_unsynced (files st' t) = []).
Proof.
  intros HI Hk st' oc Herr.
  destruct (Inv_hand_over n st HI) as (HI' & Hd).
  pose proof (round_spec o fo n k st HI Hk) as (H1 & H2 & H3 & H4 & HE & HO).
  fold st' in H4, HE, HO. fold oc in H1, H2, H3, H4, HE, HO.
  destruct (HO Herr) as (Hc & [Ksc Klc Kd Kid Knf Kor Kfresh Kofresh
     (t & Kobj & Kt & Ktf & Kex & Khd & Knd & Krf & Kft & Ksy & Kother)]).
  rewrite pending_hand_over in *.
  repeat split; auto; try congruence.
  - unfold cur at 1. rewrite Ksc, Kobj. simpl. congruence.
  - exists t. unfold cur. rewrite Ksc, Kobj. simpl.
    repeat split; auto. rewrite Kft. left. reflexivity.
Qed.

(* (c) a round that reports an error: surfaced, nothing committed, the served
   footer and its file untouched, the dirty stack still waiting *)
Theorem error_keeps_served o fo n k st :
  Inv n st ->
  let st' := fst (persister_round o fo n k st) in
  let oc := snd (persister_round o fo n k st) in
  ro_error oc = true ->
  ro_onerror oc = true /\ ro_committed oc = false /\
  s_cur st' = s_cur st /\ cur st' = cur st /\ ro_served oc = s_cur st /\
  dirty st' = ro_handed oc /\ ro_handed oc <> [] /\
  forall f, o_file (cur st) = Some f ->
    same_meta (files st' f) (files st f) /\
    incl (f_footers (files st f)) (f_footers (files st' f)).
Proof.
  intros HI st' oc Herr.
  destruct (round_kind_eq_dec k RNoop) as [->|Hk]; [discriminate Herr|].
  destruct (Inv_hand_over n st HI) as (HI' & Hd).
  pose proof (round_spec o fo n k st HI Hk) as (H1 & H2 & H3 & H4 & HE & HO).
  fold st' in H4, HE, HO. fold oc in H1, H2, H3, H4, HE, HO.
  destruct (HE Herr) as (Hc & [Esc Elc Ed Enf Eid Ecur Eor Eold Enew Efresh Eofresh]).
  rewrite scur_hand_over in *.
  assert (Hcur : cur st' = cur st).
  { unfold cur at 1. rewrite Esc, Ecur, objs_hand_over. reflexivity. }
  split; [congruence|]. split; [auto|]. split; [auto|]. split; [auto|].
  split; [congruence|]. split; [congruence|]. split; [congruence|].
  intros f Hf.
  pose proof (i_served _ _ HI) as Hs. rewrite Hf in Hs. destruct Hs as (Hflt & _).
  rewrite <- (nfiles_hand_over n) in Hflt. destruct (Eold f Hflt) as (Hm & HF).
  rewrite files_hand_over in Hm, HF. split; [exact Hm|].
  destruct HF as [E|[E _]]; rewrite E.
  - apply incl_refl.
  - apply incl_tl, incl_refl.
Qed.

(* (d) no round id is ever applied twice to the served content, and an error
   is never reported for a round whose footer was committed *)
Lemma NoDup_app_l (l r : list nat) : NoDup (l ++ r) -> NoDup l.
Proof.
  induction l as [|a l IH]; simpl; intros H; [constructor|].
  inversion H; subst. constructor; auto. intros Hin. apply H2. apply in_or_app. auto.
Qed.

Theorem no_round_applied_twice n st : Inv n st -> NoDup (o_content (cur st) ++ dirty st).
Proof. intros HI. apply (i_nodup _ _ HI). Qed.

Corollary no_round_applied_twice_run o fo ks :
  NoDup (o_content (cur (reachable o fo ks))).
Proof. eapply NoDup_app_l, no_round_applied_twice, Inv_reachable. Qed.

Theorem no_error_after_commit o fo n k st :
  Inv n st ->
  ro_error (snd (persister_round o fo n k st)) = true ->
  ro_committed (snd (persister_round o fo n k st)) = false.
Proof. intros HI H. apply (error_keeps_served o fo n k st HI H). Qed.

Theorem no_error_after_commit_run o fo ks : forall n st,
  Inv n st ->
  Forall (fun oc => ro_error oc = true -> ro_committed oc = false) (snd (run o fo n ks st)).
Proof.
  induction ks as [|k ks IH]; intros n st HI.
  - constructor.
  - rewrite run_cons. simpl snd. constructor.
    + apply no_error_after_commit; auto.
    + apply IH. apply Inv_round; auto.
Qed.

(* (e) once the operations of an attempt succeed, the attempt succeeds *)
Theorem quiet_round_succeeds o fo n k st :
  (forall s, fo n s = false) ->
  ro_error (snd (persister_round o fo n k st)) = false.
Proof.
  intros Hq. assert (Hfl : forall s, fl fo n s = false) by (intros s; apply Hq).
  destruct k; [reflexivity| | |];
    unfold persister_round, persister_body, store_persist, effective_kind, persist_append, persist_compact,
           start_or_reuse, start_file, persist_footer, remove_on_close;
    rewrite ?Hfl; rewrite ?Bool.andb_false_r; cbn [negb andb orb fst snd];
    destruct (o_file (objs (hand_over n st) (s_cur (hand_over n st))));
    rewrite ?Hfl; rewrite ?Bool.andb_false_r; cbn [negb andb orb fst snd]; reflexivity.
Qed.

(* (e) for runs: whatever happened before, if the oracle is quiet for the next
   attempt, that attempt succeeds, serves everything handed over so far and
   leaves nothing waiting *)
Theorem retry_after_failures_succeeds o fo ks k :
  k <> RNoop ->
  (forall s, fo (length ks) s = false) ->
  let st := reachable o fo ks in
  let st' := fst (persister_round o fo (length ks) k st) in
  let oc := snd (persister_round o fo (length ks) k st) in
  ro_error oc = false /\ dirty st' = [] /\
  o_content (cur st') = o_content (cur st) ++ ro_handed oc /\
  incl (dirty st) (ro_handed oc).
Proof.
  intros Hk Hq st st' oc.
  pose proof (quiet_round_succeeds o fo (length ks) k st Hq) as He.
  pose proof (success_is_served o fo (length ks) k st (Inv_reachable o fo ks) Hk He)
    as (_ & _ & Hh & _ & Hd & _ & Hc & _).
  fold st' in Hd, Hc. fold oc in Hh, Hc.
  repeat split; auto.
  rewrite Hh. unfold hand_over. destruct (dirty st) eqn:E; [intros x []|rewrite E; apply incl_refl].
Qed.

(* ------------------------------------------------------------------ *)
(* (f) Close and reopen                                                  *)

(* Close drops the collection's and the store's count on the served footer:
   every file is closed, nothing else about the files changes *)
Lemma objs_map_obj_same st i G : objs (map_obj st i G) i = G (objs st i).
Proof. unfold map_obj, upd_obj, set_objs. simpl. rewrite Nat.eqb_refl. reflexivity. Qed.

Lemma close_all_eq n st :
  Inv n st ->
  close_all st =
  let st2 := map_obj (map_obj st (s_cur st) obj_dec) (s_cur st) obj_dec in
  match o_file (cur st) with Some f => file_decref st2 f | None => st2 end.
Proof.
  intros HI. pose proof (i_same _ _ HI) as Hsame. pose proof (i_crefs _ _ HI) as Hcr.
  unfold cur in *. unfold close_all. rewrite Hsame.
  assert (E1 : obj_decref st (s_cur st) = map_obj st (s_cur st) obj_dec).
  { unfold obj_decref. rewrite Hcr. reflexivity. }
  rewrite E1. unfold obj_decref. rewrite objs_map_obj_same. simpl. rewrite Hcr. reflexivity.
Qed.

Theorem close_all_spec n st :
  Inv n st ->
  let sc := close_all st in
  nfiles sc = nfiles st /\
  forall i, f_refs (files sc i) = 0 /\
            f_exists (files sc i) = f_exists (files st i) /\
            f_header (files sc i) = f_header (files st i) /\
            f_footers (files sc i) = f_footers (files st i).
Proof.
  intros HI. cbv zeta. rewrite (close_all_eq n st HI).
  destruct HI as [Hsame Hclt Hcr Hor Hfr Hfresh Hdoom Hserved Hnodup Hidlt Hdids Horph Hdesc Hofresh].
  unfold cur in *. cbv zeta.
  destruct (o_file (objs st (s_cur st))) as [f|] eqn:Hf.
  - destruct Hserved as (Hflt & Hex & Hhd & Hnd & Hin).
    split; [reflexivity|]. intros i. simpl.
    destruct (Nat.eqb_spec i f) as [->|Hi].
    + pose proof (Hfr f) as Hr. rewrite Nat.eqb_refl in Hr.
      unfold file_dec. simpl. rewrite Hr, Hnd. simpl. auto.
    + pose proof (Hfr i) as Hr. rewrite (proj2 (Nat.eqb_neq i f) Hi) in Hr. auto.
  - split; [reflexivity|]. intros i. simpl. rewrite Hfr. auto.
Qed.

Lemma dir_of_close n st : Inv n st -> dir_of (close_all st) = dir_of st.
Proof.
  intros HI. destruct (close_all_spec n st HI) as (Hn & Hf).
  unfold dir_of. rewrite Hn. apply filter_ext. intros i. apply (Hf i).
Qed.

Lemma usable_close n st i : Inv n st -> usable (files (close_all st) i) = usable (files st i).
Proof.
  intros HI. destruct (close_all_spec n st HI) as (_ & Hf).
  destruct (Hf i) as (_ & E1 & E2 & E3). unfold usable. rewrite E1, E2, E3. reflexivity.
Qed.

Lemma newest_usable_ext fs fs' m :
  (forall i, usable (fs i) = usable (fs' i)) -> newest_usable fs m = newest_usable fs' m.
Proof. intros H. induction m; simpl; auto. rewrite H, IHm. reflexivity. Qed.

Lemma newest_usable_is fs m f :
  f < m -> usable (fs f) = true -> (forall i, f < i -> i < m -> usable (fs i) = false) ->
  newest_usable fs m = Some f.
Proof.
  induction m as [|m IH]; intros Hf Hu Hn; [lia|]. simpl.
  destruct (Nat.eq_dec f m) as [->|Hne].
  - rewrite Hu. reflexivity.
  - rewrite Hn by lia. apply IH; [lia|exact Hu|]. intros i H1 H2. apply Hn; lia.
Qed.

(* no file newer than the served one exists *)
Definition Newest (st : state) : Prop :=
  forall i, f_exists (files st i) = true ->
            match o_file (cur st) with Some f => i <= f | None => True end.

(* the clean-up Stat of a failed full compaction (SRmStat) does not fail in round n *)
Definition rm_stat_ok (fo : oracle) (n : nat) : Prop := fl fo n SRmStat = false.
(* nor does the Stat before scheduling the superseded file (SRmOldStat) *)
Definition rm_old_stat_ok (fo : oracle) (n : nat) : Prop := fl fo n SRmOldStat = false.

Lemma exists_lt_nfiles n st i : Inv n st -> f_exists (files st i) = true -> i < nfiles st.
Proof.
  intros HI He. destruct (le_lt_dec (nfiles st) i) as [H|H]; auto.
  rewrite (i_fresh _ _ HI i H) in He. discriminate.
Qed.

Lemma Newest_round o fo n k st :
  Inv n st -> rm_stat_ok fo n -> Newest st -> Newest (fst (persister_round o fo n k st)).
Proof.
  intros HI Hrm HN.
  destruct (round_kind_eq_dec k RNoop) as [->|Hk].
  { rewrite noop_indep. destruct (noop_state st (i_crefs _ _ HI)) as (E1 & E2 & E3 & E4 & E5 & E6 & E7).
    intros i. unfold cur. rewrite E1, E3, E7. apply HN. }
  destruct (Inv_hand_over n st HI) as (HI' & Hd).
  pose proof (round_spec o fo n k st HI Hk) as (_ & _ & _ & _ & HE & HO).
  set (st' := fst (persister_round o fo n k st)) in *.
  destruct (ro_error (snd (persister_round o fo n k st))).
  - destruct HE as (_ & [Esc Elc Ed Enf Eid Ecur Eor Eold Enew Efresh Eofresh]); auto.
    rewrite scur_hand_over, nfiles_hand_over in *.
    intros i Hex. unfold cur. rewrite Esc, Ecur, objs_hand_over. fold (cur st).
    destruct (le_lt_dec (nfiles st) i) as [Hi|Hi].
    + destruct (Enew i Hi) as (_ & _ & _ & HL). destruct (HL Hex) as [HL'|HL'].
      * unfold rm_stat_ok in Hrm. congruence.
      * rewrite cur_hand_over in HL'. rewrite HL'. exact I.
    + destruct (Eold i Hi) as ((Ex & _) & _). rewrite files_hand_over in Ex. rewrite Ex in Hex.
      apply HN; auto.
  - destruct HO as (_ & [Ksc Klc Kd Kid Knf Kor Kfresh Kofresh
       (t & Kobj & Kt & Ktf & Kex & Khd & Knd & Krf & Kft & Ksy & Kother)]); auto.
    rewrite nfiles_hand_over, cur_hand_over in *.
    intros i Hex. unfold cur. rewrite Ksc, Kobj. simpl.
    destruct (Nat.eq_dec i t) as [->|Hi]; [lia|].
    destruct (Kother i Hi) as (_ & K0 & _). destruct (K0 Hex) as (Hex0 & _).
    rewrite files_hand_over in Hex0.
    pose proof (exists_lt_nfiles n st i HI Hex0) as Hlt.
    pose proof (HN i Hex0) as Hle.
    destruct Ktf as [Hc | ->]; [|lia].
    rewrite Hc in Hle. lia.
Qed.

Lemma Newest_run o fo ks : forall n st,
  Inv n st -> (forall j, n <= j -> j < n + length ks -> rm_stat_ok fo j) ->
  Newest st -> Newest (fst (run o fo n ks st)).
Proof.
  induction ks as [|k ks IH]; intros n st HI Hrm HN; [exact HN|].
  rewrite run_cons. simpl fst. apply IH.
  - apply Inv_round; auto.
  - intros j H1 H2. apply Hrm; simpl; lia.
  - apply Newest_round; auto. apply Hrm; simpl; lia.
Qed.

Lemma Newest_init : Newest init.
Proof. intros i H. discriminate H. Qed.

Lemma desc_head_max (d : dfoot) (l : list dfoot) e : desc (d :: l) -> In e (d :: l) -> d_id e <= d_id d.
Proof. intros (H & _) [<-|Hin]; [lia|]. specialize (H e Hin). lia. Qed.

(* Reopen after Close, when the clean-up Stat never failed: OpenStore picks the
   served file; it serves the served footer, or - only while a failed round's
   dirty stack is still waiting - a complete footer of such a failed round,
   whose content is the served content plus exactly that waiting stack *)
Theorem reopen_serves n st f :
  Inv n st -> Newest st -> o_file (cur st) = Some f ->
  exists d, reopen (close_all st) = ReopenServes f d /\
            ((d_id d = s_cur st /\ d_content d = o_content (cur st)) \/
             (s_cur st < d_id d /\ d_content d = o_content (cur st) ++ dirty st /\ dirty st <> [])).
Proof.
  intros HI HN Hf.
  destruct (served_footer_alive n st HI f Hf) as (Hex & Hnd & Hhd & Hrf & Hin).
  pose proof (i_served _ _ HI) as Hs. rewrite Hf in Hs. destruct Hs as (Hflt & _).
  destruct (close_all_spec n st HI) as (Hn & Hc).
  destruct (f_footers (files st f)) as [|d r] eqn:Eft; [contradiction|].
  exists d. split.
  - unfold reopen. rewrite (dir_of_close n st HI).
    assert (Hdir : In f (dir_of st)).
    { unfold dir_of. apply filter_In. split; [apply in_seq; lia|exact Hex]. }
    destruct (dir_of st) as [|x xs]; [contradiction|].
    rewrite Hn.
    rewrite (newest_usable_ext _ (files st) (nfiles st)) by (intros i; apply (usable_close n st i HI)).
    rewrite (newest_usable_is (files st) (nfiles st) f); auto.
    + destruct (Hc f) as (_ & _ & _ & ->). rewrite Eft. reflexivity.
    + unfold usable. rewrite Hex, Hhd, Eft. reflexivity.
    + intros i H1 H2. unfold usable.
      destruct (f_exists (files st i)) eqn:Ei; auto.
      pose proof (HN i Ei) as Hle. rewrite Hf in Hle. lia.
  - pose proof (i_desc _ _ HI f) as Hd. rewrite Eft in Hd.
    pose proof (desc_head_max d r _ Hd Hin) as Hle. simpl in Hle.
    destruct (Nat.eq_dec (d_id d) (s_cur st)) as [He|Hne].
    + left. destruct Hin as [E|Hin]; [rewrite E; simpl; auto|].
      destruct Hd as (Hd & _). specialize (Hd _ Hin). simpl in Hd. lia.
    + right. assert (Hlt : s_cur st < d_id d) by lia.
      destruct (i_orph _ _ HI f d) as (A & B); auto.
      rewrite Eft. left. reflexivity.
Qed.

(* in particular: once persistence has caught up, the reopened store serves
   exactly the footer the store last served *)
Corollary reopen_serves_last_served n st f :
  Inv n st -> Newest st -> o_file (cur st) = Some f -> dirty st = [] ->
  reopen (close_all st) = ReopenServes f {| d_id := s_cur st; d_content := o_content (cur st) |}.
Proof.
  intros HI HN Hf Hd.
  destruct (reopen_serves n st f HI HN Hf) as (d & -> & [(A & B)|(_ & _ & C)]).
  - destruct d; simpl in *; subst. reflexivity.
  - contradiction.
Qed.

Theorem reopen_serves_run o fo ks f :
  (forall j, j < length ks -> rm_stat_ok fo j) ->
  let st := reachable o fo ks in
  o_file (cur st) = Some f ->
  exists d, reopen (close_all st) = ReopenServes f d /\
            ((d_id d = s_cur st /\ d_content d = o_content (cur st)) \/
             (s_cur st < d_id d /\ d_content d = o_content (cur st) ++ dirty st /\ dirty st <> [])).
Proof.
  intros Hrm st Hf. apply (reopen_serves (length ks)); [apply Inv_reachable| |exact Hf].
  apply Newest_run; [apply Inv_init| |apply Newest_init].
  intros j _ Hj. apply Hrm. simpl in Hj. exact Hj.
Qed.

(* the directory holds exactly the served file *)
Definition Tidy (st : state) : Prop :=
  forall i, f_exists (files st i) = true -> o_file (cur st) = Some i.

Lemma Tidy_round o fo n k st :
  Inv n st -> rm_stat_ok fo n -> rm_old_stat_ok fo n ->
  o_file (cur st) <> None -> Tidy st ->
  let st' := fst (persister_round o fo n k st) in
  o_file (cur st') <> None /\ Tidy st'.
Proof.
  intros HI Hrm Hro Hsome HT.
  destruct (round_kind_eq_dec k RNoop) as [->|Hk].
  { cbv zeta. rewrite noop_indep.
    destruct (noop_state st (i_crefs _ _ HI)) as (E1 & E2 & E3 & E4 & E5 & E6 & E7).
    unfold Tidy, cur. rewrite E1, E3, E7. auto. }
  destruct (Inv_hand_over n st HI) as (HI' & Hd).
  pose proof (round_spec o fo n k st HI Hk) as (_ & _ & _ & _ & HE & HO).
  intros st'. fold st' in HE, HO.
  destruct (ro_error (snd (persister_round o fo n k st))).
  - destruct HE as (_ & [Esc Elc Ed Enf Eid Ecur Eor Eold Enew Efresh Eofresh]); auto.
    rewrite scur_hand_over, nfiles_hand_over in *.
    assert (Hcur : cur st' = cur st).
    { unfold cur at 1. rewrite Esc, Ecur, objs_hand_over. reflexivity. }
    split; [rewrite Hcur; auto|].
    intros i Hex. rewrite Hcur.
    destruct (le_lt_dec (nfiles st) i) as [Hi|Hi].
    + destruct (Enew i Hi) as (_ & _ & _ & HL). destruct (HL Hex) as [HL'|HL'].
      * unfold rm_stat_ok in Hrm. congruence.
      * rewrite cur_hand_over in HL'. contradiction.
    + destruct (Eold i Hi) as ((Ex & _) & _). rewrite files_hand_over in Ex. rewrite Ex in Hex.
      apply HT; auto.
  - destruct HO as (_ & [Ksc Klc Kd Kid Knf Kor Kfresh Kofresh
       (t & Kobj & Kt & Ktf & Kex & Khd & Knd & Krf & Kft & Ksy & Kother)]); auto.
    rewrite cur_hand_over in *.
    assert (Hcur : o_file (cur st') = Some t).
    { unfold cur. rewrite Ksc, Kobj. reflexivity. }
    split; [rewrite Hcur; discriminate|].
    intros i Hex. rewrite Hcur.
    destruct (Nat.eq_dec i t) as [->|Hi]; [reflexivity|].
    destruct (Kother i Hi) as (_ & K0 & _). destruct (K0 Hex) as (Hex0 & HL).
    rewrite files_hand_over in Hex0.
    specialize (HL (HT i Hex0)). unfold rm_old_stat_ok in Hro. congruence.
Qed.

Lemma Tidy_run o fo ks : forall n st,
  Inv n st ->
  (forall j, n <= j -> j < n + length ks -> rm_stat_ok fo j /\ rm_old_stat_ok fo j) ->
  o_file (cur st) <> None -> Tidy st ->
  let st' := fst (run o fo n ks st) in
  o_file (cur st') <> None /\ Tidy st'.
Proof.
  induction ks as [|k ks IH]; intros n st HI Hrm Hsome HT; [simpl; auto|].
  cbv zeta. rewrite run_cons. simpl fst.
  destruct (Hrm n) as (R1 & R2); [lia|simpl; lia|].
  destruct (Tidy_round o fo n k st HI R1 R2 Hsome HT) as (A & B).
  apply IH; auto.
  - apply Inv_round; auto.
  - intros j H1 H2. apply Hrm; simpl; lia.
Qed.

Lemma filter_none (p : nat -> bool) (l : list nat) :
  (forall i, In i l -> p i = false) -> filter p l = [].
Proof.
  induction l as [|a l IH]; simpl; intros H; auto.
  rewrite (H a) by auto. apply IH. intros i Hi. apply H. auto.
Qed.

Lemma filter_seq_single (p : nat -> bool) (f m : nat) :
  f < m -> p f = true -> (forall i, i <> f -> p i = false) ->
  filter p (seq 0 m) = [f].
Proof.
  intros Hf Hp Hn.
  replace m with (f + S (m - S f)) by lia.
  rewrite seq_app, filter_app. simpl. rewrite Hp.
  rewrite (filter_none p (seq 0 f)), (filter_none p (seq (S f) (m - S f))); auto.
  - intros i Hi. apply in_seq in Hi. apply Hn. lia.
  - intros i Hi. apply in_seq in Hi. apply Hn. lia.
Qed.

(* (f) with both removeFileOnClose Stats succeeding in every round, starting
   from a directory that holds just the served file: after Close the directory
   holds exactly the served file *)
Theorem close_leaves_exactly_served o fo ks n st :
  Inv n st -> o_file (cur st) <> None -> Tidy st ->
  (forall j, n <= j -> j < n + length ks -> rm_stat_ok fo j /\ rm_old_stat_ok fo j) ->
  let st' := fst (run o fo n ks st) in
  exists f, o_file (cur st') = Some f /\ dir_of (close_all st') = [f] /\
            dir_after_reopen o (close_all st') = [f].
Proof.
  intros HI Hsome HT Hrm st'.
  destruct (Tidy_run o fo ks n st HI Hrm Hsome HT) as (A & B). fold st' in A, B.
  pose proof (Inv_run o fo ks n st HI) as HI'. fold st' in HI'.
  destruct (o_file (cur st')) as [f|] eqn:Hf; [|contradiction].
  exists f. split; auto.
  destruct (served_footer_alive _ st' HI' f Hf) as (Hex & _).
  pose proof (i_served _ _ HI') as Hs. rewrite Hf in Hs. destruct Hs as (Hflt & _).
  assert (Hdir : dir_of (close_all st') = [f]).
  { rewrite (dir_of_close _ st' HI'). unfold dir_of. apply filter_seq_single; auto.
    intros i Hi. destruct (f_exists (files st' i)) eqn:Ei; auto.
    specialize (B i Ei). congruence. }
  split; auto.
  assert (HN : Newest st').
  { intros i Ei. rewrite Hf. specialize (B i Ei). assert (i = f) by congruence. lia. }
  destruct (reopen_serves _ st' f HI' HN Hf) as (d & Hr & _).
  unfold dir_after_reopen. rewrite Hr, Hdir. destruct (keepFiles o); reflexivity.
Qed.

(* nothing is lost by Close + OpenStore when the clean-up Stat never failed *)
Corollary reopen_loses_nothing o fo ks f :
  (forall j, j < length ks -> rm_stat_ok fo j) ->
  let st := reachable o fo ks in
  o_file (cur st) = Some f ->
  exists d, reopen (close_all st) = ReopenServes f d /\ incl (o_content (cur st)) (d_content d).
Proof.
  intros Hrm st Hf. destruct (reopen_serves_run o fo ks f Hrm Hf) as (d & Hr & [(_ & E)|(_ & E & _)]);
    exists d; (split; [exact Hr|]); fold st in E; rewrite E.
  - apply incl_refl.
  - apply incl_appl, incl_refl.
Qed.

(* Close never removes the served file (no hypothesis on the oracle) *)
Theorem close_keeps_served_file n st f :
  Inv n st -> o_file (cur st) = Some f ->
  In f (dir_of (close_all st)) /\
  f_footers (files (close_all st) f) = f_footers (files st f).
Proof.
  intros HI Hf. destruct (served_footer_alive n st HI f Hf) as (Hex & _).
  pose proof (i_served _ _ HI) as Hs. rewrite Hf in Hs. destruct Hs as (Hflt & _).
  split.
  - rewrite (dir_of_close n st HI). unfold dir_of. apply filter_In. split; [apply in_seq; lia|exact Hex].
  - destruct (close_all_spec n st HI) as (_ & Hc). apply (Hc f).
Qed.

(* OpenStore's clean-up: only KeepFiles keeps the other data files (store.go:627-639) *)
Lemma reopen_cleanup o sc f d :
  reopen sc = ReopenServes f d ->
  dir_after_reopen o sc = if keepFiles o then dir_of sc else [f].
Proof. intros H. unfold dir_after_reopen. rewrite H. reflexivity. Qed.

(* reachable states are closed under one more attempt *)
Lemma run_app o fo ks1 : forall ks2 n st,
  fst (run o fo n (ks1 ++ ks2) st) = fst (run o fo (n + length ks1) ks2 (fst (run o fo n ks1 st))).
Proof.
  induction ks1 as [|k ks1 IH]; intros ks2 n st.
  - simpl. rewrite Nat.add_0_r. reflexivity.
  - simpl app. rewrite !run_cons. simpl fst. rewrite IH. simpl length.
    replace (S n + length ks1) with (n + S (length ks1)) by lia. reflexivity.
Qed.

Lemma reachable_snoc o fo ks k :
  reachable o fo (ks ++ [k]) = fst (persister_round o fo (length ks) k (reachable o fo ks)).
Proof.
  unfold reachable. rewrite run_app. rewrite run_cons. reflexivity.
Qed.

(* ------------------------------------------------------------------ *)
(* What does NOT hold for the current code: computed witnesses          *)

Definition opts0 : opts :=
  {| noSync := false; compactionSync := false; midSync := false; keepFiles := false |}.
Definition opts_nosync : opts :=
  {| noSync := true; compactionSync := false; midSync := false; keepFiles := false |}.

(* fails exactly the listed (round, step) pairs *)
Definition fail_at (l : list (nat * step)) : oracle :=
  fun n s => existsb (fun p => (fst p =? n) && (step_ix (snd p) =? s)) l.

Definition quiet : oracle := fun _ _ => false.

(* F-A (data loss).  Round 0 appends into file 0.  Round 1 is a full compaction
   into the new file 1: everything succeeds up to and including the footer
   write, then the Sync after the footer fails (store_footer.go:39) - error exit
   2 of compact (store_compact.go:318-323) calls removeFileOnClose(frefCompact),
   whose own Stat fails (store.go:328-331), so no unlink callback is registered;
   the deferred frefCompact.DecRef() closes file 1, which stays in the directory
   with a COMPLETE footer {0,1}.  Persist returns the error, file 0 stays served.
   Rounds 2 (the retry of round 1's stack) and 3 append into file 0 and succeed:
   the store serves {0,1,3}.  After Close, OpenStore takes the newest file with
   a complete footer - file 1 - serves {0,1} and deletes file 0: round 3, which
   reported success, is lost. *)
Definition witness_loss_rounds := [RAppend; RFull; RAppend; RAppend].
Definition witness_loss_oracle := fail_at [(1, SSync2); (1, SRmStat)].

Theorem reopen_serves_what_was_served_refuted :
  exists o ks fo,
    let st := reachable o fo ks in
    Forall (fun oc => ro_error oc = false) (skipn 2 (snd (run o fo 0 ks init))) /\
    dirty st = [] /\ o_file (cur st) = Some 0 /\ o_content (cur st) = [0; 1; 3] /\
    reopen (close_all st) = ReopenServes 1 {| d_id := 2; d_content := [0; 1] |} /\
    dir_of (close_all st) = [0; 1] /\
    dir_after_reopen o (close_all st) = [1].
Proof.
  exists opts0, witness_loss_rounds, witness_loss_oracle.
  vm_compute. repeat split; repeat constructor.
Qed.

(* the same with mmap failing (store_footer.go:316, error exit 3 of compact,
   store_compact.go:325-331) instead of the Sync, also under NoSync *)
Theorem reopen_serves_what_was_served_refuted_mmap :
  exists ks fo,
    let st := reachable opts_nosync fo ks in
    dirty st = [] /\ o_content (cur st) = [0; 1; 3] /\
    reopen (close_all st) = ReopenServes 1 {| d_id := 2; d_content := [0; 1] |} /\
    dir_after_reopen opts_nosync (close_all st) = [1].
Proof.
  exists witness_loss_rounds, (fail_at [(1, SMmap); (1, SRmStat)]).
  vm_compute. repeat split.
Qed.

(* F-B (unopenable directory).  The very first round has to create file 0
   (startOrReuseFile -> startFileLOCKED); the segment write fails
   (segment.go:691-713); persist returns the error (store.go:144-147) and its
   deferred fref.DecRef() closes the file - nothing removes it.  The directory
   now holds a header-only file; after Close, OpenStore finds a data file but
   no footer and fails with "could not open/parse any file" (store.go:653). *)
Theorem reopen_after_failed_first_round_refuted :
  exists o ks fo,
    let st := reachable o fo ks in
    o_content (cur st) = [] /\ dir_of (close_all st) = [0] /\
    reopen (close_all st) = ReopenError.
Proof.
  exists opts0, [RAppend], (fail_at [(0, SSegWrite)]).
  vm_compute. repeat split.
Qed.

(* F-C (benign).  A round that REPORTED AN ERROR can leave a complete footer
   behind in the served file: the Sync after the footer write fails
   (store_footer.go:39), persist does footer.DecRef() and returns the error
   (store.go:156-160); the store keeps serving footer 1, but after Close the
   newest complete footer in the file is footer 2 of the failed round, and that
   is what OpenStore serves: the served content plus the stack that was still
   waiting (this is the second alternative of reopen_serves). *)
Theorem reopen_serves_last_served_footer_refuted :
  exists o ks fo,
    let st := reachable o fo ks in
    (forall j, rm_stat_ok fo j /\ rm_old_stat_ok fo j) /\
    ro_error (nth 1 (snd (run o fo 0 ks init)) (snd (persister_round o fo 0 RNoop init))) = true /\
    s_cur st = 1 /\ o_content (cur st) = [0] /\ dirty st = [1] /\
    reopen (close_all st) = ReopenServes 0 {| d_id := 2; d_content := [0; 1] |}.
Proof.
  exists opts0, [RAppend; RAppend], (fail_at [(1, SSync2)]).
  split.
  - intros j. unfold rm_stat_ok, rm_old_stat_ok, fl, fail_at. simpl.
    rewrite !Bool.andb_false_r. auto.
  - vm_compute. repeat split.
Qed.

(* the same for a partial compaction under NoSync: mmap fails after the footer
   was written (compact persists the footer BEFORE loadSegments) *)
Theorem reopen_serves_last_served_footer_refuted_partial :
  exists ks fo,
    let st := reachable opts_nosync fo ks in
    s_cur st = 1 /\ o_content (cur st) = [0] /\ dirty st = [1] /\
    reopen (close_all st) = ReopenServes 0 {| d_id := 2; d_content := [0; 1] |}.
Proof.
  exists [RAppend; RPartial], (fail_at [(1, SMmap)]).
  vm_compute. repeat split.
Qed.

(* F-D (leaked files).  "After Close the directory holds exactly the served
   file" fails in three ways. *)
(* 1. the Stat of removeFileOnClose(old file) after a successful full compaction
      fails (store.go:328 via store_compact.go:82; the error is ignored): the
      superseded file 0 is never unlinked *)
Theorem close_leaves_exactly_served_refuted_old_stat :
  exists o ks fo,
    let st := reachable o fo ks in
    Forall (fun oc => ro_error oc = false) (snd (run o fo 0 ks init)) /\
    o_file (cur st) = Some 1 /\ dir_of (close_all st) = [0; 1].
Proof.
  exists opts0, [RAppend; RFull], (fail_at [(1, SRmOldStat)]).
  vm_compute. repeat split; repeat constructor.
Qed.

(* 2. a full compaction fails while writing, and the Stat of
      removeFileOnClose(new file) fails too: the half-written file 1 stays *)
Theorem close_leaves_exactly_served_refuted_new_stat :
  exists o ks fo,
    let st := reachable o fo ks in
    o_file (cur st) = Some 0 /\ dir_of (close_all st) = [0; 1] /\
    reopen (close_all st) = ReopenServes 0 {| d_id := 1; d_content := [0] |}.
Proof.
  exists opts0, [RAppend; RFull], (fail_at [(1, SWData); (1, SRmStat)]).
  vm_compute. repeat split.
Qed.

(* 3. the first round fails after creating file 0 (no clean-up at all in
      persist); the retry creates file 1 and succeeds; file 0 stays *)
Theorem close_leaves_exactly_served_refuted_first_file :
  exists o ks fo,
    let st := reachable o fo ks in
    (forall j, rm_stat_ok fo j /\ rm_old_stat_ok fo j) /\
    o_file (cur st) = Some 1 /\ dirty st = [] /\ dir_of (close_all st) = [0; 1].
Proof.
  exists opts0, [RAppend; RAppend], (fail_at [(0, SSegWrite)]).
  split.
  - intros j. unfold rm_stat_ok, rm_old_stat_ok, fl, fail_at. simpl.
    rewrite !Bool.andb_false_r. auto.
  - vm_compute. repeat split.
Qed.

(* ------------------------------------------------------------------ *)
(* Non-vacuity of the hypotheses                                        *)

(* a state with a served file and a tidy directory is reachable *)
Example tidy_state_reachable :
  let st := reachable opts0 quiet [RAppend] in
  Inv 1 st /\ o_file (cur st) <> None /\ Tidy st /\ Newest st.
Proof.
  cbv zeta. pose proof (Inv_reachable opts0 quiet [RAppend]) as HI. simpl length in HI.
  split; [exact HI|]. split; [vm_compute; discriminate|].
  assert (HT : Tidy (reachable opts0 quiet [RAppend])).
  { intros i Hi. destruct i as [|i]; [reflexivity|].
    rewrite (i_fresh _ _ HI (S i)) in Hi; [discriminate|]. vm_compute. lia. }
  split; [exact HT|].
  intros i Hi. rewrite (HT i Hi). lia.
Qed.

(* the Stat hypotheses are satisfied by oracles that fail elsewhere, and the
   conclusion of close_leaves_exactly_served then holds with real failures *)
Example rm_stat_hyps_satisfiable :
  let fo := fail_at [(1, SSync2); (2, SWData); (3, SMmap); (4, SOpen)] in
  (forall j, rm_stat_ok fo j /\ rm_old_stat_ok fo j) /\
  map ro_error (snd (run opts0 fo 0 [RAppend; RAppend; RFull; RPartial; RFull; RFull] init)) =
    [false; true; true; true; true; false] /\
  dir_of (close_all (reachable opts0 fo [RAppend; RAppend; RFull; RPartial; RFull; RFull])) = [3].
Proof.
  cbv zeta. split.
  - intros j. unfold rm_stat_ok, rm_old_stat_ok, fl, fail_at. simpl.
    rewrite !Bool.andb_false_r. auto.
  - vm_compute. auto.
Qed.

(* rounds of every kind succeed (b is not vacuous) and fail (c is not vacuous) *)
Example success_and_error_occur :
  map (fun oc => (ro_kind oc, ro_error oc, ro_committed oc, ro_handed oc))
      (snd (run opts0 (fail_at [(2, SFragStat); (2, SHeader); (3, SFootWrite)]) 0
                [RAppend; RNoop; RPartial; RPartial; RPartial; RFull] init)) =
  [ (RAppend, false, true, [0]); (RNoop, false, false, []);
    (RFull, true, false, [2]); (RPartial, true, false, [2]);
    (RPartial, false, true, [2]); (RFull, false, true, [5]) ].
Proof. vm_compute. reflexivity. Qed.

(* ------------------------------------------------------------------ *)
(* predict, the function handed to the test harness                     *)

Lemma run_length o fo ks : forall n st, length (snd (run o fo n ks st)) = length ks.
Proof.
  induction ks as [|k ks IH]; intros n st; [reflexivity|].
  rewrite run_cons. simpl. rewrite IH. reflexivity.
Qed.

Lemma predict_eq o ks fo :
  predict o ks fo =
  (snd (run o fo 0 ks init),
   let stc := close_all (reachable o fo ks) in
   {| ds_files := file_list stc; ds_dir := dir_of stc; ds_reopen := reopen stc;
      ds_dir_reopened := dir_after_reopen o stc |}).
Proof.
  unfold predict, reachable. destruct (run o fo 0 ks init) as [st ocs]. reflexivity.
Qed.

Theorem predict_outcomes o ks fo :
  length (fst (predict o ks fo)) = length ks /\
  Forall (fun oc => ro_error oc = true -> ro_committed oc = false /\ ro_onerror oc = true)
         (fst (predict o ks fo)).
Proof.
  rewrite predict_eq. simpl fst. split; [apply run_length|].
  assert (G : forall ks n st, Inv n st ->
            Forall (fun oc => ro_error oc = true -> ro_committed oc = false /\ ro_onerror oc = true)
                   (snd (run o fo n ks st))).
  { clear ks. induction ks as [|k ks IH]; intros n st HI; [constructor|].
    rewrite run_cons. simpl snd. constructor.
    - intros He. destruct (error_keeps_served o fo n k st HI He) as (A & B & _). auto.
    - apply IH. apply Inv_round; auto. }
  apply G, Inv_init.
Qed.

Example predict_witness_loss :
  snd (predict opts0 witness_loss_rounds witness_loss_oracle) =
  {| ds_files :=
       [(0, {| f_exists := true; f_refs := 0; f_doomed := false; f_header := true;
               f_footers := [{| d_id := 4; d_content := [0; 1; 3] |};
                             {| d_id := 3; d_content := [0; 1] |};
                             {| d_id := 1; d_content := [0] |}];
               f_unsynced := [] |});
        (1, {| f_exists := true; f_refs := 0; f_doomed := false; f_header := true;
               f_footers := [{| d_id := 2; d_content := [0; 1] |}];
               f_unsynced := [2] |})];
     ds_dir := [0; 1];
     ds_reopen := ReopenServes 1 {| d_id := 2; d_content := [0; 1] |};
     ds_dir_reopened := [1] |}.
Proof. vm_compute. reflexivity. Qed.

Print Assumptions Inv_run.
Print Assumptions served_footer_alive_run.
Print Assumptions success_is_served.
Print Assumptions error_keeps_served.
Print Assumptions no_round_applied_twice_run.
Print Assumptions no_error_after_commit_run.
Print Assumptions quiet_round_succeeds.
Print Assumptions retry_after_failures_succeeds.
Print Assumptions close_all_spec.
Print Assumptions reopen_serves_run.
Print Assumptions reopen_serves_last_served.
Print Assumptions close_leaves_exactly_served.
Print Assumptions predict_outcomes.
Print Assumptions reopen_serves_what_was_served_refuted.
Print Assumptions reopen_serves_what_was_served_refuted_mmap.
Print Assumptions reopen_after_failed_first_round_refuted.
Print Assumptions reopen_serves_last_served_footer_refuted.
Print Assumptions reopen_serves_last_served_footer_refuted_partial.
Print Assumptions close_leaves_exactly_served_refuted_old_stat.
Print Assumptions close_leaves_exactly_served_refuted_new_stat.
Print Assumptions close_leaves_exactly_served_refuted_first_file.
