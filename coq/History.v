(* History.v — concurrent histories of writers (disjoint key sets) and
   snapshot readers, with real-time stamps, and the executable check that a
   recorded history satisfies C03: every snapshot shows, per writer, exactly a
   prefix of that writer's batches; a batch that had returned before a
   snapshot started is in it; successive snapshots never go back.
   Executable definitions only. *)
From Coq Require Export List Arith Bool.
Export ListNotations.

(* what one snapshot showed of one writer: `seen` = the batch number every key
   that the writer's batches overwrite carries (None when they disagree: a torn
   batch), `uniques` = the per-batch unique keys found *)
Record wview := { w_seen : option nat; w_uniques : list nat }.

Record snap_ev := {
  s_start : nat; s_end : nat;              (* real-time stamps of the Snapshot() call *)
  s_views : list wview                     (* indexed by writer *)
}.

Record batch_ev := { b_writer : nat; b_seq : nat (* 1-based *); b_start : nat; b_end : nat }.

Record history := { h_batches : list batch_ev; h_snaps : list snap_ev }.

(* the prefix a view shows, if it is one: all overwritten keys agree on p and
   the unique keys are exactly 1..p *)
Definition view_prefix (v : wview) : option nat :=
  match w_seen v with
  | None => None
  | Some p => if list_eq_dec Nat.eq_dec (w_uniques v) (seq 1 p) then Some p else None
  end.

Definition prefix_of (s : snap_ev) (w : nat) : option nat :=
  match nth_error (s_views s) w with Some v => view_prefix v | None => Some 0 end.

(* (1) atomic prefix per writer *)
Definition snap_atomic (s : snap_ev) : bool :=
  forallb (fun v => match view_prefix v with Some _ => true | None => false end) (s_views s).

(* (2) a batch that returned before the snapshot started is visible;
   (3) nothing of a batch that was invoked only after the snapshot returned *)
Definition snap_realtime (bs : list batch_ev) (s : snap_ev) : bool :=
  forallb (fun b =>
             match prefix_of s (b_writer b) with
             | Some p =>
                 (if Nat.ltb (b_end b) (s_start s) then Nat.leb (b_seq b) p else true) &&
                 (if Nat.ltb (s_end s) (b_start b) then Nat.ltb p (b_seq b) else true)
             | None => false
             end) bs.

(* (4) successive snapshots never shrink *)
Definition snaps_monotone (s1 s2 : snap_ev) : bool :=
  if Nat.ltb (s_end s1) (s_start s2) then
    forallb (fun w => match prefix_of s1 w, prefix_of s2 w with
                      | Some p1, Some p2 => Nat.leb p1 p2
                      | _, _ => false end)
            (seq 0 (Nat.max (length (s_views s1)) (length (s_views s2))))
  else true.

Definition check_hist (h : history) : bool :=
  forallb snap_atomic (h_snaps h) &&
  forallb (snap_realtime (h_batches h)) (h_snaps h) &&
  forallb (fun s1 => forallb (snaps_monotone s1) (h_snaps h)) (h_snaps h).
