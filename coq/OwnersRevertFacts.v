(* OwnersRevertFacts.v -- the four ownership statements of OwnersFacts.v for the
   system EXTENDED with SnapshotPrevious (as repaired), SnapshotRevert and
   Store.OpenCollection after a Close (OwnersRevert.v): every operation
   preserves the ownership invariant; nothing live or held references a released
   object; everything reachable from an open handle is alive; once everything is
   closed every count is zero and no descriptor or mapping is left. *)
From Coq Require Import List Arith Bool Lia.
From Moss Require Import Owners OwnersFacts OwnersRevert.
Import ListNotations.

(* ------------------------------------------------------------------ *)
(* the new primitive preserves the invariant: a renumbered footer keeps its
   kind, its rank, its count and its references *)

Lemma pres_settag o t : preserves (settag o t).
Proof.
  intros st st' I H. unfold settag in H.
  destruct (nth_error (hp st) o) as [ob|] eqn:Ho; [|discriminate]. inversion H; subst; clear H.
  unfold Inv. simpl.
  change (roots (with_hp st (upd o (set_file ob t) (hp st)) (files st) (elog st))) with (roots st).
  eapply (ginv_upd _ _ _ o ob _ I Ho); simpl; auto.
  - intros x. destruct I as [A _ _]. specialize (A x). unfold orefs at 2. simpl. fold (orefs ob).
    destruct (Nat.eqb x o) eqn:E.
    + apply Nat.eqb_eq in E. subst x. unfold cnt_of in A. rewrite Ho in A. lia.
    + lia.
  - intros Z. destruct I as [_ B _]. apply (B o ob Ho Z).
  - intros r Hin. destruct I as [_ _ C]. apply (C o ob r Ho Hin).
Qed.

Lemma pres_revert_kids cs : forall acc cont,
  (forall l, preserves (cont l)) -> preserves (revert_kids cs acc cont).
Proof.
  induction cs as [|c r IH]; intros acc cont P; simpl; [apply P|].
  pres. apply IH. exact P.
Qed.

Lemma pres_revert_footer t cont :
  (forall n, preserves (cont n)) -> preserves (revert_footer t cont).
Proof.
  intros P. unfold revert_footer. pres. apply pres_revert_kids. intro. pres. apply P.
Qed.

Ltac xpres :=
  repeat (pres_all;
          match goal with
          | |- preserves (settag _ _) => apply pres_settag
          | |- preserves (revert_footer _ _) => apply pres_revert_footer; intro
          | |- preserves (revert_kids _ _ _) => apply pres_revert_kids; intro
          end).

(* (1) every operation of the extended system preserves the ownership invariant *)
Theorem xstep_preserves x : preserves (xstep x).
Proof.
  destruct x as [o|h fd a b c|h m|].
  - exact (step_preserves o).
  - unfold xstep. apply pres_bind; [|apply pres_finish]. simpl. unfold op_prev2. xpres.
  - unfold xstep. apply pres_bind; [|apply pres_finish]. simpl. unfold op_revert. xpres.
  - unfold xstep. apply pres_bind; [|apply pres_finish]. simpl. unfold op_open_coll. xpres.
Qed.

Lemma xrun_from_inv ops : forall st st', Inv st -> xrun_from st ops = Some st' -> Inv st'.
Proof.
  induction ops as [|o r IH]; intros st st' I H; simpl in H.
  - inversion H; subst. exact I.
  - destruct (xstep o st) as [s|] eqn:E; [|discriminate].
    eapply IH; [|exact H]. eapply xstep_preserves; eauto.
Qed.

Lemma xrun_inv ops st : xrun ops = Some st -> Inv st.
Proof. intros H. exact (xrun_from_inv ops init st Inv_init H). Qed.

Theorem x_ownership_invariant : forall ops st, xrun ops = Some st ->
  forall o, cnt_of (hp st) o = cn o (roots st) + cn o (allrefs (hp st)).
Proof. intros ops st H o. pose proof (xrun_inv ops st H) as [A _ _]. apply A. Qed.

(* no function leaves a counted reference in a local *)
Lemma xstep_hand x st st' : xstep x st = Some st' -> hand st' = [].
Proof.
  unfold xstep, bind. destruct (xbody x st) as [s|]; [|discriminate].
  unfold finish. destruct (hand s) eqn:E; [|discriminate]. intros H. inversion H; subst. exact E.
Qed.
Theorem x_locals_released : forall ops st, xrun ops = Some st -> hand st = [].
Proof.
  unfold xrun. intros ops. generalize init, (eq_refl : hand init = []).
  induction ops as [|o r IH]; intros st0 H0 st H; simpl in H.
  - inversion H; subst. exact H0.
  - destruct (xstep o st0) as [s|] eqn:E; [|discriminate].
    eapply IH; [|exact H]. eapply xstep_hand; eauto.
Qed.

(* (2) no use after release *)
Lemma inv_no_dangling st : Inv st ->
  (forall o, In o (roots st) -> cnt_of (hp st) o > 0) /\
  (forall a ob r, nth_error (hp st) a = Some ob -> In r (orefs ob) ->
                  o_cnt ob > 0 /\ cnt_of (hp st) r > 0).
Proof.
  intros [A B C]. split.
  - intros o Hin. rewrite (A o). apply cn_in in Hin. lia.
  - intros a ob r Ha Hin. split.
    + destruct (o_cnt ob) eqn:E; [|lia]. rewrite (B a ob Ha E) in Hin. destruct Hin.
    + rewrite (A r). assert (In r (allrefs (hp st))) by (eapply in_allrefs; eauto).
      apply cn_in in H. lia.
Qed.

Theorem x_no_dangling_reference : forall ops st, xrun ops = Some st ->
  (forall o, In o (roots st) -> cnt_of (hp st) o > 0) /\
  (forall a ob r, nth_error (hp st) a = Some ob -> In r (orefs ob) ->
                  o_cnt ob > 0 /\ cnt_of (hp st) r > 0).
Proof. intros ops st H. apply inv_no_dangling. eapply xrun_inv; eauto. Qed.

Theorem x_released_objects_hold_nothing : forall ops st, xrun ops = Some st ->
  forall o ob, nth_error (hp st) o = Some ob -> o_cnt ob = 0 -> o_refs ob = [] /\ o_kids ob = [].
Proof.
  intros ops st H o ob Ho Z. pose proof (xrun_inv ops st H) as [_ B _].
  specialize (B o ob Ho Z). unfold orefs in B. apply app_eq_nil in B. exact B.
Qed.

(* (3) handles keep their data alive: the previous snapshot that was reverted
   to, the snapshots of the collection that was closed before the revert, the
   iterators on them - whatever the store and the new collection do since *)
Theorem x_handle_data_alive : forall ops st, xrun ops = Some st ->
  forall hd r o, In hd (handles st) -> In r (hrefs hd) -> reach (hp st) r o ->
    cnt_of (hp st) o > 0.
Proof.
  intros ops st H hd r o Hh Hr Hreach.
  destruct (x_no_dangling_reference ops st H) as [D1 D2].
  assert (L : cnt_of (hp st) r > 0).
  { apply D1. unfold roots. apply in_or_app. right. apply in_or_app. left.
    apply in_flat_map. exists hd. auto. }
  clear Hh Hr. induction Hreach as [o|a ob r o Ha Hin _ IH]; auto.
  apply IH. apply (D2 a ob r Ha Hin).
Qed.

(* ------------------------------------------------------------------ *)
(* frames for the new operations *)

Lemma settag_same o t st st' : settag o t st = Some st' ->
  regs st' = regs st /\ handles st' = handles st /\ hand st' = hand st /\
  leaked st' = leaked st /\ ct st' = ct st /\ files st' = files st /\ elog st' = elog st.
Proof.
  unfold settag. destruct (nth_error (hp st) o); intros H; inversion H; subst; simpl.
  repeat split; reflexivity.
Qed.

Section XSat.
  Variable R : state -> state -> Prop.
  Hypothesis HP : PrimOK R.

  Lemma sat_revert_kids cs : forall acc cont,
    (forall l, sat R (cont l)) -> sat R (revert_kids cs acc cont).
  Proof.
    induction cs as [|c r IH]; intros acc cont P; simpl; [apply P|].
    sat_go HP idtac. apply IH. exact P.
  Qed.
  Lemma sat_revert_footer t cont :
    (forall n, sat R (cont n)) -> sat R (revert_footer t cont).
  Proof.
    intros P. unfold revert_footer. sat_go HP idtac. apply sat_revert_kids. intro.
    sat_go HP idtac. apply P.
  Qed.
End XSat.

(* the driver of OwnersFacts.v with the new pieces: stag solves settag *)
Ltac xsat_go HP prim stag :=
  repeat (sat_go HP prim;
          match goal with
          | |- sat _ (settag _ _) => stag
          | |- sat _ (revert_footer _ _) => apply (sat_revert_footer _ HP); intro
          | |- sat _ (revert_kids _ _ _) => apply (sat_revert_kids _ HP); intro
          end).

(* nothing but the error return of startIterator loses a reference *)
Ltac leak_stag :=
  let H := fresh in
  intros ? ? H; unfold Rleak; apply settag_same in H; tauto.

Lemma xstep_keeps_leaked x : xno_ll_error x = true -> sat Rleak (xstep x).
Proof.
  destruct x as [o|h fd a b c|h m|]; intros N.
  - exact (step_keeps_leaked o N).
  - unfold xstep; simpl xbody; unfold op_prev2. xsat_go Rleak_ok leak_prim leak_stag.
  - unfold xstep; simpl xbody; unfold op_revert. xsat_go Rleak_ok leak_prim leak_stag.
  - unfold xstep; simpl xbody; unfold op_open_coll. xsat_go Rleak_ok leak_prim leak_stag.
Qed.

Theorem x_no_leak_without_error_return : forall ops st,
  forallb xno_ll_error ops = true -> xrun ops = Some st -> leaked st = [].
Proof.
  unfold xrun. intros ops. generalize init, (eq_refl : leaked init = []).
  induction ops as [|o r IH]; intros st0 H0 st F H; simpl in *.
  - inversion H; subst. exact H0.
  - apply andb_prop in F. destruct F as [F1 F2].
    destruct (xstep o st0) as [s|] eqn:E; [|discriminate].
    eapply (IH s); eauto. rewrite (xstep_keeps_leaked o F1 _ _ E). exact H0.
Qed.

Lemma xcurrent_no_ll_error x : xcurrent_code x = true -> xno_ll_error x = true.
Proof.
  destruct x as [o| | |]; simpl; auto. destruct o; simpl; auto; try discriminate.
Qed.

(* frames on the root slots and the control state *)
Ltac fr_stag :=
  let H := fresh in
  intros ? ? H; unfold Rfr; apply settag_same in H;
  destruct H as [? [? [? [? [? ?]]]]]; split; [assumption | intros; congruence].

Lemma xprev_frame h fd a b c : sat (Rfr (fun _ => false)) (xstep (XPrev h fd a b c)).
Proof.
  unfold xstep; simpl xbody; unfold op_prev2.
  xsat_go (Rfr_ok (fun _ => false)) fr_prim fr_stag.
Qed.

Lemma xrevert_frame h m : sat (Rfr (slot_eqb SFooter)) (xstep (XRevert h m)).
Proof.
  unfold xstep; simpl xbody; unfold op_revert.
  xsat_go (Rfr_ok (slot_eqb SFooter)) fr_prim fr_stag.
Qed.

(* ------------------------------------------------------------------ *)
(* the control invariant of OwnersFacts.v is kept by the new operations *)

Lemma bind_inv (a b : M) st st' : (a ;; b) st = Some st' ->
  exists s, a st = Some s /\ b s = Some st'.
Proof. unfold bind. destruct (a st) as [s|]; [eauto|discriminate]. Qed.

Lemma each_settag_ct ks e : forall st st',
  each ks (fun k => settag k e) st = Some st' -> ct st' = ct st /\ regs st' = regs st.
Proof.
  induction ks as [|k r IH]; intros st st' H; simpl in H.
  - inversion H; subst. auto.
  - apply bind_inv in H. destruct H as [s [H1 H2]]. apply settag_same in H1.
    destruct H1 as [R1 [_ [_ [_ [C1 _]]]]]. destruct (IH _ _ H2) as [C2 R2].
    split; congruence.
Qed.

Lemma open_coll_ct st st' :
  sopen (ct st) = true -> copen (ct st) = false ->
  xstep XOpenColl st = Some st' ->
  st' = st \/ (copen (ct st') = true /\ sopen (ct st') = true).
Proof.
  intros So Co H. unfold xstep in H. apply bind_inv in H. destruct H as [s [H F]].
  apply finish_same in F. subst s. simpl in H. unfold op_open_coll, guard in H.
  rewrite So, Co in H. simpl in H. unfold rd in H.
  destruct (reg SFooter st) as [f|]; simpl in H; [|inversion H; auto]. right.
  apply bind_inv in H. destruct H as [s1 [H1 H]].
  apply bind_inv in H. destruct H as [s2 [H2 H]].
  apply bind_inv in H. destruct H as [s3 [H3 H]].
  unfold set_ctl in H3. inversion H3; subst s3; clear H3.
  apply each_settag_ct in H. destruct H as [E _]. rewrite E. simpl.
  assert (F1 : Rfr (fun _ => false) st s1).
  { exact (p_addref _ (Rfr_ok (fun _ => false)) f st s1 H1). }
  assert (F2 : Rfr (slot_eqb SLL) s1 s2).
  { revert H2. generalize s1 s2.
    change (sat (Rfr (slot_eqb SLL)) (alloc_k KWrap true [f] [] 0 (fun w => put SLL w))).
    sat_go (Rfr_ok (slot_eqb SLL)) fr_prim. }
  destruct F1 as [A1 _]. destruct F2 as [A2 _]. split; [reflexivity|]. congruence.
Qed.

Lemma xstep_Cinv x st st' : Cinv st -> xstep x st = Some st' -> Cinv st'.
Proof.
  intros C H. destruct x as [o|h fd a b c|h m|].
  - exact (step_Cinv o st st' C H).
  - destruct C as [C1 C2]. destruct (xprev_frame h fd a b c st st' H) as [E1 E2].
    unfold Cinv. rewrite E1. rewrite (none_at_ext coll_slots st st'), (E2 SFooter); auto.
  - destruct (sopen (ct st)) eqn:So.
    + destruct C as [C1 C2]. destruct (xrevert_frame h m st st' H) as [E1 E2].
      unfold Cinv. rewrite E1, So. split; [|discriminate].
      rewrite (none_at_ext coll_slots st st'); auto.
      intros s Hin. apply E2. destruct s; simpl in Hin; try reflexivity.
      repeat (destruct Hin as [Hin|Hin]; try discriminate Hin). destruct Hin.
    + assert (st' = st).
      { unfold xstep in H. apply bind_inv in H. destruct H as [s [H F]].
        apply finish_same in F. subst s. simpl in H. unfold op_revert, guard in H.
        rewrite So in H. inversion H; reflexivity. }
      subst. exact C.
  - destruct (sopen (ct st) && negb (copen (ct st))) eqn:G.
    + apply andb_prop in G. destruct G as [So Co]. apply negb_true_iff in Co.
      destruct (open_coll_ct st st' So Co H) as [->|[E1 E2]]; [exact C|].
      unfold Cinv. rewrite E1, E2. split; discriminate.
    + assert (st' = st).
      { unfold xstep in H. apply bind_inv in H. destruct H as [s [H F]].
        apply finish_same in F. subst s. simpl in H. unfold op_open_coll, guard in H.
        rewrite G in H. inversion H; reflexivity. }
      subst. exact C.
Qed.

Lemma xrun_Cinv : forall ops st, xrun ops = Some st -> Cinv st.
Proof.
  unfold xrun. intros ops. generalize init, Cinv_init.
  induction ops as [|o r IH]; intros st0 C0 st H; simpl in H.
  - inversion H; subst. exact C0.
  - destruct (xstep o st0) as [s|] eqn:E; [|discriminate]. eapply IH; [|exact H].
    eapply xstep_Cinv; eauto.
Qed.

(* (4) once every handle, the collection and the store are closed, every
   count is zero: the footers written by a revert, the footers and mappings
   that SnapshotPrevious loaded, the wrapper of the collection that was opened
   after the revert - all released, every descriptor closed *)
Theorem x_all_closed_all_released : forall ops st,
  xrun ops = Some st -> all_closed st -> leaked st = [] ->
  (forall o, cnt_of (hp st) o = 0) /\ open_fds st = [] /\ mappings st = 0.
Proof.
  intros ops st H AC L.
  assert (Z : forall o, cnt_of (hp st) o = 0).
  { apply no_roots_all_zero.
    rewrite <- (all_closed_no_roots st (xrun_Cinv _ _ H) AC (x_locals_released _ _ H) L).
    exact (xrun_inv ops st H). }
  split; [exact Z|].
  assert (Zo : forall ob, In ob (hp st) -> o_cnt ob = 0).
  { intros ob Hin. apply In_nth_error in Hin. destruct Hin as [o Ho].
    specialize (Z o). unfold cnt_of in Z. rewrite Ho in Z. exact Z. }
  clear - Zo. unfold open_fds, mappings. split.
  - induction (hp st) as [|ob r IH]; simpl; auto.
    rewrite (Zo ob (or_introl eq_refl)).
    rewrite IH by (intros; apply Zo; right; auto). destruct (o_kind ob); reflexivity.
  - induction (hp st) as [|ob r IH]; simpl; auto.
    rewrite (Zo ob (or_introl eq_refl)).
    destruct (o_kind ob); simpl; apply IH; intros; apply Zo; right; auto.
Qed.

Theorem x_all_closed_all_released_current_code : forall ops st,
  forallb xcurrent_code ops = true -> xrun ops = Some st -> all_closed st ->
  (forall o, cnt_of (hp st) o = 0) /\ open_fds st = [] /\ mappings st = 0.
Proof.
  intros ops st F H AC. eapply x_all_closed_all_released; eauto.
  eapply x_no_leak_without_error_return; eauto.
  clear - F. induction ops as [|x r IH]; simpl in *; auto.
  apply andb_prop in F. destruct F as [F1 F2]. rewrite (xcurrent_no_ll_error x F1). auto.
Qed.

(* what a revert touches is alive: every mapping that revertToSnapshot AddRef()s - those
   of the footer reverted to and of its child footers - has a positive count as long as
   the handle passed to SnapshotRevert is open, whatever happened to the store, the
   collection and the other handles since the handle was taken; and so has the FileRef
   that snapshotRevert borrows from it *)
Corollary x_revert_touches_live_objects : forall ops st h t,
  xrun ops = Some st -> nth_error (handles st) h = Some (HFoot t) ->
  cnt_of (hp st) t > 0 /\
  (forall m, In m (refs_of t st) -> cnt_of (hp st) m > 0) /\
  (forall c m, In c (kids_of t st) -> In m (refs_of c st) ->
     cnt_of (hp st) c > 0 /\ cnt_of (hp st) m > 0) /\
  (forall fr, file_ref t st = Some fr -> cnt_of (hp st) fr > 0).
Proof.
  intros ops st h t H Hh.
  assert (Hin : In (HFoot t) (handles st)) by (eapply nth_error_In; eauto).
  assert (A : forall o, reach (hp st) t o -> cnt_of (hp st) o > 0).
  { intros o R. apply (x_handle_data_alive ops st H (HFoot t) t o Hin); [left; reflexivity|exact R]. }
  assert (Step : forall a r, reach (hp st) t a ->
            In r (refs_at (hp st) a ++ kids_at (hp st) a) -> reach (hp st) t r).
  { intros a r Ra Hr. unfold refs_at, kids_at in Hr.
    destruct (nth_error (hp st) a) as [ob|] eqn:Ea; [|destruct Hr].
    assert (T : forall x y, reach (hp st) x y -> forall z ob2, nth_error (hp st) y = Some ob2 ->
                In z (orefs ob2) -> reach (hp st) x z).
    { intros x y R. induction R as [o|a0 ob0 r0 o Ha0 Hin0 _ IH]; intros z ob2 E2 I2.
      - eapply reach_step; eauto. apply reach_here.
      - eapply reach_step; eauto. }
    eapply T; eauto. }
  assert (R0 : reach (hp st) t t) by apply reach_here.
  split; [apply A; exact R0|]. split; [|split].
  - intros m Hm. apply A. apply (Step t m R0). apply in_or_app. left. exact Hm.
  - intros c m Hc Hm.
    assert (Rc : reach (hp st) t c) by (apply (Step t c R0); apply in_or_app; right; exact Hc).
    split; apply A; auto. apply (Step c m Rc). apply in_or_app. left. exact Hm.
  - intros fr Hf. apply A. unfold file_ref in Hf. unfold refs_of in Hf.
    destruct (refs_at (hp st) t) as [|m0 ms] eqn:Em.
    + (* through the child footers *)
      assert (K : forall ks, (forall k, In k ks -> reach (hp st) t k) ->
                child_fref ks st = Some fr -> reach (hp st) t fr).
      { induction ks as [|k r IH]; intros Hk Hc; simpl in Hc; [discriminate|].
        unfold refs_of in Hc. destruct (refs_at (hp st) k) as [|m1 ms1] eqn:Ek.
        - apply IH; auto. intros k' Hk'. apply Hk. right. exact Hk'.
        - assert (Rk : reach (hp st) t k) by (apply Hk; left; reflexivity).
          assert (Rm : reach (hp st) t m1).
          { apply (Step k m1 Rk). rewrite Ek. left. reflexivity. }
          unfold first_ref in Hc. destruct (refs_at (hp st) m1) as [|f0 fs] eqn:Ef; [discriminate|].
          simpl in Hc. inversion Hc; subst f0. apply (Step m1 fr Rm). rewrite Ef. left. reflexivity. }
      apply (K (kids_of t st)); auto. intros k Hk. apply (Step t k R0). apply in_or_app. right. exact Hk.
    + assert (Rm : reach (hp st) t m0).
      { apply (Step t m0 R0). rewrite Em. left. reflexivity. }
      unfold first_ref in Hf. destruct (refs_at (hp st) m0) as [|f0 fs] eqn:Ef; [discriminate|].
      simpl in Hf. inversion Hf; subst f0. apply (Step m0 fr Rm). rewrite Ef. left. reflexivity.
Qed.

(* the extension is conservative: a history of old operations runs as before *)
Lemma xrun_from_xops ops : forall st, xrun_from st (xops ops) = run_from st ops.
Proof.
  induction ops as [|o r IH]; intros st; simpl; auto.
  change (xstep (XOp o) st) with (step o st). destruct (step o st); auto.
Qed.
Theorem xrun_embeds : forall ops, xrun (xops ops) = run ops.
Proof. intros ops. apply xrun_from_xops. Qed.

Print Assumptions xstep_preserves.
Print Assumptions x_ownership_invariant.
Print Assumptions x_no_dangling_reference.
Print Assumptions x_handle_data_alive.
Print Assumptions x_all_closed_all_released.
Print Assumptions x_all_closed_all_released_current_code.
Print Assumptions x_revert_touches_live_objects.
Print Assumptions xrun_embeds.
