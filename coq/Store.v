(* Store.v — the store as the collection's lower level (no child collections):
   a footer is the persisted segment stack, newest first.  Executable
   definitions only. *)
From Moss Require Export Collection.

Section WithMerge.
  Variable fm : bytes -> value -> bytes -> value.

  Definition nonempty (s : segment) : bool := negb (Nat.eqb (length s) 0).

  (* Store.persist without compaction: every non-empty segment of the
     handed-down stack is appended (persistSegments skips empty ones). *)
  Definition persist_append (higher : list segment) (f : llsnap) : llsnap :=
    filter nonempty higher ++ f.

  (* Store.compact at splice point sp (index into the footer's segment list
     counted from the OLDEST segment, as in the code): footer segments
     [sp..] and the incoming stack are merged into one segment; sp = 0 is a
     full compaction into a new file (tombstones dropped, nothing beneath),
     sp > 0 keeps tombstones and resolves Merge operands against the
     untouched prefix. *)
  Definition compact (sp : nat) (higher : list segment) (f : llsnap) : llsnap :=
    let n := length f - sp in
    let upper := higher ++ firstn n f in
    let lower := skipn n f in
    merge_range false (negb (Nat.eqb sp 0)) upper (sget fm (upper ++ lower) no_below) :: lower.

  Inductive persist_choice := PNoop | PAppend | PCompact (sp : nat).

  Definition stack_is_empty (higher : list segment) : bool := Nat.eqb (length higher) 0.

  Definition store_persist (ch : persist_choice) (higher : list segment) (f : llsnap)
    : option llsnap :=
    match ch with
    | PNoop => if stack_is_empty higher then Some f else None
    | PAppend => if stack_is_empty higher then None else Some (persist_append higher f)
    | PCompact sp =>
        if Nat.leb sp (length f) then
          (* compact() refuses when there is nothing incoming and <= 1 segment *)
          if stack_is_empty higher && Nat.leb (length f) 1 then None
          else if Nat.eqb sp 0 then Some (compact 0 higher f)
          else Some (compact sp higher f)
        else None
    end.

  (* --- calcPartialCompactionStart ---------------------------------------
     sizes: key+val bytes of the footer's segments, OLDEST first; result
     None = append, Some i = compact from index i (0 = full compaction).
     The fragmentation test compares floats in the code; here it is the
     exact rational comparison stale * pd > pn * predictedFile. *)
  Fixpoint det_exp_aux (mult seg sz : N) (lvl fuel : nat) : nat :=
    match fuel with
    | O => lvl
    | S f => if N.leb sz seg && N.ltb 0 sz
             then det_exp_aux mult seg (sz * mult) (S lvl) f else lvl
    end.
  Definition determine_exponent (mult seg cur : N) (lvl : nat) : nat :=
    det_exp_aux mult seg (cur * mult) lvl 64.

  (* the factor the code works with: CompactionLevelMultiplier below 2 is raised to 2
     (store_compact.go, repair of F40: with a factor of 1 the loop of determineExponent
     never ends - in this model: the fuel decides, det_exp_mult_one_never_stops) *)
  Definition eff_mult (m : N) : N := if N.ltb m 2 then 2%N else m.

  (* walk from the newest segment (end of list) to the oldest *)
  Fixpoint cps_loop (mult : N) (maxseg : nat) (rsizes : list N) (idx : nat)
           (size_so_far cur_level_size : N) (cur_level num_in_level : nat)
           (start : option nat) : option nat * N :=
    match rsizes with
    | [] => (start, cur_level_size)
    | seg :: r =>
        let nl := determine_exponent mult seg cur_level_size cur_level in
        if Nat.ltb cur_level nl then (start, cur_level_size)
        else
          let num := S num_in_level in
          let sofar := (size_so_far + seg)%N in
          if Nat.ltb maxseg num then
            cps_loop mult maxseg r (pred idx) sofar sofar
                     (determine_exponent mult sofar cur_level_size cur_level) 1 (Some idx)
          else cps_loop mult maxseg r (pred idx) sofar cur_level_size cur_level num start
    end.

  Definition calc_partial_start (maxseg : nat) (mult : N) (pn pd : N)
             (sizes : list N) (file_size new_data : N) : option nat :=
    if N.eqb new_data 0 then Some 0
    else if Nat.ltb (length sizes) maxseg then None
    else
      let '(start, cur_level_size) :=
        cps_loop (eff_mult mult) maxseg (rev sizes) (pred (length sizes)) new_data new_data 0 1 None in
      match start with
      | Some (S i) =>
          if N.ltb 0 pn then
            let tot := fold_right N.add 0%N sizes in
            let pdata := (tot + new_data)%N in
            let pfile := (file_size + cur_level_size)%N in
            (* stale/pfile > pn/pd, stale may be negative *)
            if N.ltb pdata pfile && N.ltb (pn * pfile) ((pfile - pdata) * pd)
            then Some 0 else Some (S i)
          else Some (S i)
      | other => other
      end.
End WithMerge.
