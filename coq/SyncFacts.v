From Coq Require Import List Arith Bool Lia.
From Moss Require Import Sync.

(* the invariant: bounded top, every call accounted for, nothing left waiting
   once closed, and writers only wait while top is full *)
Definition sy_inv (s : sy) : Prop :=
  y_top s <= y_cap s /\
  y_arrived s = y_ok s + y_closed_ret s + y_wait s /\
  (y_closed s = true -> y_wait s = 0 /\ y_syncwait s = 0 /\ y_queued s = 0) /\
  (y_wait s > 0 -> y_top s = y_cap s).

Lemma sy_inv_init cap : sy_inv (sy_init cap).
Proof. unfold sy_inv; simpl. repeat split; try lia; discriminate. Qed.

Ltac fin := unfold sy_inv; simpl; repeat split; intros; try discriminate; try congruence; try lia.

Lemma sy_step_inv s l : sy_inv s -> sy_inv (sy_step s l).
Proof.
  intros [H1 [H2 [H3 H4]]].
  destruct (y_closed s) eqn:Ec; [destruct (H3 eq_refl) as [Hw [Hs Hq]]|];
    destruct l; simpl; rewrite ?Ec; simpl;
    try (destruct (Nat.ltb (y_top s) (y_cap s)) eqn:El;
         [apply Nat.ltb_lt in El|apply Nat.ltb_ge in El]);
    try (destruct (y_asleep s) eqn:Ea); simpl;
    fin.
Qed.

Theorem sy_run_inv cap ls : sy_inv (sy_run (sy_init cap) ls).
Proof.
  unfold sy_run. generalize (sy_inv_init cap). generalize (sy_init cap).
  induction ls as [|l r IH]; intros s H; simpl; auto. apply IH. now apply sy_step_inv.
Qed.

(* C16: the number of accepted but unmerged batches never exceeds the cap,
   for any number of writers and any interleaving *)
Theorem bounded_top cap ls : y_top (sy_run (sy_init cap) ls) <= cap.
Proof.
  destruct (sy_run_inv cap ls) as [H _].
  assert (Hc : forall s l, y_cap (sy_step s l) = y_cap s).
  { intros s l. destruct l; simpl; auto;
      destruct (y_closed s); simpl; auto;
      try (destruct (Nat.ltb (y_top s) (y_cap s)); auto);
      destruct (y_asleep s); auto. }
  assert (G : forall ls s, y_cap (sy_run s ls) = y_cap s).
  { induction ls0 as [|l r IH]; intros s; simpl; auto. rewrite IH. apply Hc. }
  rewrite G in H. exact H.
Qed.

(* C16: every ExecuteBatch call is accounted for: returned nil, returned
   ErrClosed, or is blocked behind a full top *)
Theorem calls_accounted cap ls :
  let s := sy_run (sy_init cap) ls in
  y_arrived s = y_ok s + y_closed_ret s + y_wait s /\ (y_wait s > 0 -> y_top s = y_cap s).
Proof. destruct (sy_run_inv cap ls) as [_ [H2 [_ H4]]]. auto. Qed.

(* C16: Close releases every blocked writer (with ErrClosed) and every pending
   synchronous notification; afterwards nothing ever waits, and every new
   ExecuteBatch returns ErrClosed *)
Theorem close_is_final cap ls1 ls2 :
  let s := sy_run (sy_init cap) (ls1 ++ SClose :: ls2) in
  y_closed s = true /\ y_wait s = 0 /\ y_syncwait s = 0 /\ y_queued s = 0.
Proof.
  simpl. unfold sy_run. rewrite fold_left_app. simpl.
  set (s0 := sy_step (fold_left sy_step ls1 (sy_init cap)) SClose).
  assert (H0 : y_closed s0 = true) by reflexivity.
  assert (G : forall ls s, y_closed s = true -> y_closed (fold_left sy_step ls s) = true).
  { induction ls as [|l r IH]; intros s Hs; simpl; auto. apply IH.
    destruct l; simpl; rewrite ?Hs; simpl; auto. }
  pose proof (G ls2 s0 H0) as Hc.
  assert (Hinv : forall ls s, sy_inv s -> sy_inv (fold_left sy_step ls s)).
  { induction ls as [|l r IH]; intros s Hs; simpl; auto. apply IH. now apply sy_step_inv. }
  assert (Hi : sy_inv (fold_left sy_step ls2 s0)).
  { apply Hinv. apply sy_step_inv. apply (sy_run_inv cap ls1). }
  destruct Hi as [_ [_ [H3 _]]]. destruct (H3 Hc) as [? [? ?]]. auto.
Qed.

Theorem after_close_execute_batch_fails s :
  y_closed s = true ->
  y_closed_ret (sy_step s SArrive) = S (y_closed_ret s) /\ y_ok (sy_step s SArrive) = y_ok s /\
  y_top (sy_step s SArrive) = y_top s.
Proof. intros H. simpl. rewrite H. simpl. auto. Qed.

(* C16, progress: while not closed, a merger ingest is always possible and
   strictly reduces the number of blocked writers (cap > 0); so after at most
   ceil(wait/cap) merger cycles every blocked writer has returned *)
Theorem ingest_makes_progress s :
  y_closed s = false -> y_asleep s = false -> y_cap s > 0 -> y_wait s > 0 ->
  y_wait (sy_step s SIngest) < y_wait s /\
  y_ok (sy_step s SIngest) = y_ok s + Nat.min (y_wait s) (y_cap s).
Proof.
  intros Hc Ha Hcap Hw. simpl. rewrite Hc, Ha. simpl. split; auto.
  destruct (Nat.min_spec (y_wait s) (y_cap s)) as [[_ ->]|[_ ->]]; lia.
Qed.

Fixpoint ingests (n : nat) : list sl := match n with O => [] | S k => SIngest :: ingests k end.

Lemma ingest_state s :
  y_closed s = false -> y_asleep s = false ->
  y_closed (sy_step s SIngest) = false /\ y_asleep (sy_step s SIngest) = false /\
  y_cap (sy_step s SIngest) = y_cap s /\
  y_wait (sy_step s SIngest) = y_wait s - Nat.min (y_wait s) (y_cap s).
Proof. intros H Ha. simpl. rewrite H, Ha. simpl. auto. Qed.

(* a writer only ever waits behind a full top, and a non-empty top means the
   merger has been woken: it is not asleep *)
Theorem blocked_writers_drain s :
  y_closed s = false -> y_asleep s = false -> y_cap s > 0 ->
  y_wait (sy_run s (ingests (y_wait s))) = 0.
Proof.
  intros Hc Ha Hcap.
  assert (G : forall n s, y_closed s = false -> y_asleep s = false -> y_cap s > 0 -> y_wait s <= n ->
                          y_wait (sy_run s (ingests n)) = 0).
  { induction n as [|n IH]; intros s0 Hc0 Ha0 Hcap0 Hle.
    - unfold sy_run; simpl. lia.
    - change (ingests (S n)) with (SIngest :: ingests n).
      change (sy_run s0 (SIngest :: ingests n)) with (sy_run (sy_step s0 SIngest) (ingests n)).
      destruct (ingest_state s0 Hc0 Ha0) as [E1 [E0 [E2 E3]]].
      apply IH.
      + exact E1.
      + exact E0.
      + rewrite E2. exact Hcap0.
      + rewrite E3. destruct (Nat.min_spec (y_wait s0) (y_cap s0)) as [[Hlt Hm]|[Hge Hm]]; rewrite Hm; lia. }
  apply G; auto.
Qed.
