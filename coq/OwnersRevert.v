(* OwnersRevert.v -- the ownership model of Owners.v EXTENDED with the history
   operations of a store and what follows them:

     XPrev      Store.SnapshotPrevious as it is after repair 8f6c423 (the data
                file is reached through the child footers when the top-level
                collection has no persisted segment)      store_previous.go:15-70
     XRevert    Store.SnapshotRevert / revertToSnapshot    store_revert.go:15-105
     XOpenColl  Store.OpenCollection on an open store whose collection was
                closed (openCollection, restoreCollection, NewCollection)
                                       store.go:659-704, 717-763, api.go:652

   on the SAME state, heap and primitives; every operation of Owners.v is
   embedded by XOp.  One new primitive: settag (restoreCollection renumbers the
   incarnation of the child footers of the store's footer IN PLACE).
   Definitions only; the proofs are in OwnersRevertFacts.v. *)
From Coq Require Import List Arith Bool Lia.
From Moss Require Import Owners.
Import ListNotations.

(* ------------------------------------------------------------------ *)
(* the new primitive *)

Definition set_file (ob : obj) (t : nat) : obj :=
  mkObj (o_kind ob) (o_top ob) (o_cnt ob) (o_refs ob) (o_kids ob) t (o_rm ob).

(* childFooter.incarNum = coll.highestIncarNum (store.go:748-749): a plain
   field update of a Footer that others may hold too *)
Definition settag (o : oid) (t : nat) : M := fun st =>
  match nth_error (hp st) o with
  | Some ob => Some (with_hp st (upd o (set_file ob t) (hp st)) (files st) (elog st))
  | None => None
  end.

(* ------------------------------------------------------------------ *)
(* Footer.fileRef (store_footer.go:494): the FileRef of the first persisted
   segment of the footer or, when it has none, of its child footers *)
Definition file_ref (f : oid) (st : state) : option oid :=
  match refs_of f st with
  | m :: _ => first_ref m st
  | [] => child_fref (kids_of f st) st
  end.

(* the data file a footer is in, when one of its segments tells *)
Definition footer_file (f : oid) (st : state) : option nat :=
  match file_ref f st with Some fr => Some (tag_of fr st) | None => None end.

Definition is_top (f : oid) (st : state) : bool :=
  match nth_error (hp st) f with
  | Some ob => match o_kind ob with KFooter => o_top ob | _ => false end
  | None => false
  end.

(* ------------------------------------------------------------------ *)
(* Store.snapshotPrevious (store_previous.go:15-70): footer.segmentLocs() [+1];
   fref := slocs[0].mref.fref or footer.childFileRef() (BORROWED: no AddRef);
   ScanFooter -> Footer{refs:1}, initChildRefs (child footers {refs:1}, a plain
   field update), loadSegments (child footers first; per segment location
   fref.AddRef() and a new mmapRef{refs:1}); deferred footer.DecRef() *)
Definition op_prev2 (h : nat) (found : bool) (ntop nk nper : nat) : M :=
  rd (fun st => nth_error (handles st) h) (fun oh =>
    match oh with
    | Some (HFoot f) =>
        addref f ;;
        rd (file_ref f) (fun ofr =>
             match ofr with
             | Some fr =>
                 if found
                 then load_kids (repeat 0 nk) 0 None false nper fr [] (fun ks =>
                      load_footer true [] ntop fr ks 0 (fun p => pushh (HFoot p) ;; decref f))
                 else decref f
             | None => decref f
             end)
    | _ => ret
    end).

(* ------------------------------------------------------------------ *)
(* Store.revertToSnapshot (store_revert.go:71-105): slocs := copy of
   revertToFooter.SegmentLocs; slocs.AddRef() (every mref, in order);
   Footer{refs:1, SegmentLocs: slocs, ss: revertToFooter.ss (the segmentStack
   of a Footer is not counted), incarNum}; per child footer the same,
   recursively: NEW child footers, each owned once by the new footer *)
Fixpoint revert_kids (cs : list oid) (acc : list oid) (cont : list oid -> M) : M :=
  match cs with
  | [] => cont acc
  | c :: r =>
      rd (refs_of c) (fun ms => rd (tag_of c) (fun t =>
        each ms addref ;;
        alloc_k KFooter false ms [] t (fun n => revert_kids r (acc ++ [n]) cont)))
  end.

Definition revert_footer (t : oid) (cont : oid -> M) : M :=
  rd (refs_of t) (fun ms =>
    each ms addref ;;
    rd (kids_of t) (fun cs =>
    revert_kids cs [] (fun ks => alloc_k KFooter true ms ks 0 cont))).

Inductive rmode :=
  | RvDone        (* the footer is written and becomes the store's footer *)
  | RvRefused     (* an error return before anything is counted: not a footer, file name
                     of another file ("snapshot too old"), no persisted segment anywhere *)
  | RvWriteFail.  (* persistFooter fails: footer.DecRef() (store_revert.go:55-59) *)

(* what the checks of snapshotRevert (store_revert.go:19-40) let through: a
   top-level footer (a child footer has no file name) that is in the current
   file - decided when a segment tells the file, else left to the caller - and
   a FileRef found through the target or through the current footer *)
Definition revert_legal (t : oid) (st : state) : bool :=
  is_top t st &&
  match footer_file t st with
  | Some fl => match cur (ct st) with Some c => Nat.eqb fl c | None => false end
  | None => true
  end &&
  (is_some (file_ref t st) ||
   match reg SFooter st with Some f => is_some (file_ref f st) | None => false end).

(* Store.snapshotRevert (store_revert.go:15-69): fref BORROWED from the target
   (or the current footer); revertToSnapshot; persistFooter; footerPrev :=
   s.footer; s.footer = footer ("owns the footer ref-count"); footerPrev.DecRef() *)
Definition op_revert (h : nat) (m : rmode) : M :=
  guard (fun st => sopen (ct st))
    (rd (fun st => nth_error (handles st) h) (fun oh =>
      match oh with
      | Some (HFoot t) =>
          rd (revert_legal t) (fun ok =>
            if ok then
              match m with
              | RvRefused => ret
              | RvDone =>
                  revert_footer t (fun n =>
                    rd (reg SFooter) (fun prev => take SFooter ;; put SFooter n ;; odecref prev))
              | RvWriteFail => revert_footer t (fun n => decref n)
              end
            else ret)
      | _ => ret
      end)).

(* ------------------------------------------------------------------ *)
(* Store.openCollection (store.go:659-704) on an open store without a
   collection: s.Snapshot() [+1]; restoreCollection: a new collection, one child
   collection per child footer of the store's footer, the child footers
   RENUMBERED in place to the incarnations of the new child collections;
   NewCollection: lowerLevelSnapshot = NewSnapshotWrapper(LowerLevelInit)
   (api.go:652) *)
Definition c_reopen (n : nat) (c : ctl) : ctl :=
  mkCtl n (mph c) (pph c) (pbase c) true (sopen c) (cur c) (nextfile c) (S (inc c)).

Definition op_open_coll : M :=
  guard (fun st => sopen (ct st) && negb (copen (ct st)))
    (rd (reg SFooter) (fun of => whenS of (fun f =>
       addref f ;;
       alloc_k KWrap true [f] [] 0 (fun w => put SLL w) ;;
       rd (kids_of f) (fun ks =>
         set_ctl (c_reopen (length ks)) ;;
         rd cur_inc (fun e => each ks (fun k => settag k e)))))).

(* ------------------------------------------------------------------ *)
(* the extended system *)

Inductive xop :=
  | XOp (o : op)
  | XPrev (h : nat) (found : bool) (ntop nk nper : nat)
  | XRevert (h : nat) (m : rmode)
  | XOpenColl.

Definition xbody (x : xop) : M :=
  match x with
  | XOp o => body o
  | XPrev h fd a b c => op_prev2 h fd a b c
  | XRevert h m => op_revert h m
  | XOpenColl => op_open_coll
  end.

Definition xstep (x : xop) : M := xbody x ;; finish.

Fixpoint xrun_from (st : state) (ops : list xop) : option state :=
  match ops with
  | [] => Some st
  | o :: r => match xstep o st with Some st' => xrun_from st' r | None => None end
  end.

Definition xrun (ops : list xop) : option state := xrun_from init ops.

Definition xrun_events (ops : list xop) : option (list (kind * oid * nat)) :=
  option_map (fun st => map (fun e => (match nth_error (hp st) (fst e) with
                                       | Some ob => o_kind ob | None => KFile end,
                                       fst e, snd e)) (elog st)) (xrun ops).
Definition xrun_nfiles (ops : list xop) : option nat :=
  option_map (fun st => length (files st)) (xrun ops).
Definition xrun_ops (ops : list xop) : option (list (kind * nat)) := option_map counts (xrun ops).

Definition xcurrent_code (x : xop) : bool :=
  match x with
  | XOp (OpPrev _ _ _ _ _) => false     (* superseded by XPrev (repair 8f6c423) *)
  | XOp o => current_code o
  | _ => true
  end.

Definition xno_ll_error (x : xop) : bool :=
  match x with XOp o => no_ll_error o | _ => true end.

Definition xops (l : list op) : list xop := map XOp l.
