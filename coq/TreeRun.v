(* TreeRun.v — executable glue between harness traces (with child
   collections) and the tree model: label translation, the store's footer,
   observations, canonicalisation of incarnation numbers, comparison with the
   model and with the reference tree.  Computation only. *)
From Moss Require Export TreeColl FlatRun.

Inductive thlabel :=
| THBatch (b : tbatch)
| THIngest
| THSwap (t : lvltree)
| THHandover
| THPBegin (ch : persist_choice)
| THPBeginFail
| THPPublish
| THNotify
| THSnap (id : nat)
| THSnapClose (id : nat)
| THClose (ch : option persist_choice)
| THReopen.

(* reads of one snapshot node through the public API *)
Inductive rnode := RN (gets iter : list (bytes * value)) (rnkids : list (cname * option rnode)).

Record tobs := {
  to_coll : cnode;
  to_top : option sstack; to_mid : option sstack; to_base : option sstack; to_clean : option sstack;
  to_ll : option fnode;
  to_cached : bool;
  to_reads : rnode;
  to_cget : list (bytes * value);
  to_dirty_ops : nat; to_dirty_segs : nat;
  to_held : list (nat * rnode);
  to_store : option fnode
}.

Record trs := {
  ts : tstate;
  tconf : cfg;
  tpend : option fnode;
  tstore : fnode;                    (* the store's current footer *)
  tall : list tbatch;                (* batches since the beginning not known to be lost *)
  tsince : nat;                      (* how many of them were executed before the last (re)open *)
  treopen_ok : bool;
  theld : list (nat * sstack);
  topen : bool
}.

Definition fnode_empty : fnode := FN [] 0 [].

Definition trinit (c : cfg) : trs :=
  {| ts := tinit (CN 0 0 []) (if has_ll c then Some fnode_empty else None);
     tconf := c; tpend := None; tstore := fnode_empty; tall := []; tsince := 0;
     treopen_ok := true; theld := []; topen := true |}.

Definition set_ts (r : trs) (s : tstate) : trs :=
  {| ts := s; tconf := tconf r; tpend := tpend r; tstore := tstore r; tall := tall r;
     tsince := tsince r; treopen_ok := treopen_ok r; theld := theld r; topen := topen r |}.

Definition tlift (r : trs) (o : option tstate) : option trs :=
  match o with Some s => Some (set_ts r s) | None => None end.

Definition do_tree_update (r : trs) (ch : persist_choice) : option fnode :=
  match t_base (ts r) with
  | Some b => tree_persist fm0 ch b (tstore r)
  | None => None
  end.

(* ---- the reference tree and the reopen oracle ------------------------------ *)
Definition ref_tree (bs : list tbatch) : rtree := fold_left rt_apply bs (RT [] []).

Section SortKids.
  Context {A : Type}.
  Fixpoint kinsert_kid (e : cname * A) (l : list (cname * A)) : list (cname * A) :=
    match l with
    | [] => [e]
    | a :: r => match bcmp (fst e) (fst a) with
                | Gt => a :: kinsert_kid e r
                | _ => e :: l
                end
    end.
  Definition sort_kids (l : list (cname * A)) : list (cname * A) := fold_right kinsert_kid [] l.
End SortKids.

(* persisted tree reads as the reference tree *)
Fixpoint fn_equiv_ref (fuel : nat) (f : fnode) (t : rtree) : bool :=
  match fuel with
  | O => false
  | S fu =>
      forallb (fun k => value_eqb (sget fm0 (fn_segs f) no_below k) (rt_get fm0 t k))
              (all_keys (fn_segs f ++ rt_hist t))
      && list_eqb beqb (map fst (sort_kids (fn_kids f))) (map fst (sort_kids (rt_kids t)))
      && forallb (fun nk => match assoc (fst nk) (rt_kids t) with
                            | Some rt => fn_equiv_ref fu (snd nk) rt
                            | None => false end) (fn_kids f)
  end.

Fixpoint tprefix_search (all : list tbatch) (f : fnode) (n : nat) : option nat :=
  if fn_equiv_ref 8 f (ref_tree (firstn n all)) then Some n
  else match n with O => None | S m => tprefix_search all f m end.

(* ---- stepping ---------------------------------------------------------------- *)
Definition trstep (r : trs) (l : thlabel) : option trs :=
  let c := tconf r in
  match l with
  | THBatch b =>
      match tstep fm0 c (ts r) (TBatch b) with
      | Some s => Some {| ts := s; tconf := c; tpend := tpend r; tstore := tstore r;
                          tall := tall r ++ [b]; tsince := tsince r; treopen_ok := treopen_ok r;
                          theld := theld r; topen := true |}
      | None => None
      end
  | THIngest => tlift r (tstep fm0 c (ts r) TIngest)
  | THSwap t => tlift r (tstep fm0 c (ts r) (TSwap t))
  | THHandover => tlift r (tstep fm0 c (ts r) THandover)
  | THPBegin ch =>
      match tstep fm0 c (ts r) TPBegin, do_tree_update r ch with
      | Some s, Some f' =>
          Some {| ts := s; tconf := c; tpend := Some f'; tstore := f'; tall := tall r;
                  tsince := tsince r; treopen_ok := treopen_ok r; theld := theld r; topen := true |}
      | _, _ => None
      end
  | THPBeginFail =>
      match tstep fm0 c (ts r) TPBegin with
      | Some s => tlift r (tstep fm0 c s TPFail)
      | None => None
      end
  | THPPublish =>
      match tpend r with
      | Some f' =>
          match tstep fm0 c (ts r) (TPPublish f') with
          | Some s => Some {| ts := s; tconf := c; tpend := None; tstore := tstore r; tall := tall r;
                              tsince := tsince r; treopen_ok := treopen_ok r; theld := theld r;
                              topen := true |}
          | None => None
          end
      | None => None
      end
  | THNotify => Some r
  | THSnap id =>
      match tstep fm0 c (ts r) TSnap with
      | Some s => Some {| ts := s; tconf := c; tpend := tpend r; tstore := tstore r; tall := tall r;
                          tsince := tsince r; treopen_ok := treopen_ok r;
                          theld := (id, t_cur_snapshot (ts r)) :: theld r; topen := true |}
      | None => None
      end
  | THSnapClose id =>
      Some {| ts := ts r; tconf := c; tpend := tpend r; tstore := tstore r; tall := tall r;
              tsince := tsince r; treopen_ok := treopen_ok r;
              theld := filter (fun p => negb (Nat.eqb (fst p) id)) (theld r); topen := topen r |}
  | THClose ch =>
      let sf := match ch with
                | Some c' => do_tree_update r c'
                | None => Some (tstore r)
                end in
      match sf, tstep fm0 c (ts r) TClose with
      | Some f', Some s =>
          Some {| ts := s; tconf := c; tpend := None; tstore := f'; tall := tall r;
                  tsince := tsince r; treopen_ok := treopen_ok r; theld := theld r; topen := false |}
      | _, _ => None
      end
  | THReopen =>
      if topen r then None else
      let n := tprefix_search (tall r) (tstore r) (length (tall r)) in
      let '(coll, f') := restore 0 (tstore r) in
      Some {| ts := tinit coll (Some f'); tconf := c; tpend := None; tstore := f';
              tall := match n with Some i => firstn i (tall r) | None => tall r end;
              tsince := match n with Some i => i | None => length (tall r) end;
              treopen_ok := match n with Some _ => true | None => false end;
              theld := theld r; topen := true |}
  end.

(* ---- reads predicted by the model ------------------------------------------- *)

(* what an iterator over (segs, lower entries) yields: every key whose newest
   op is not a deletion, with its resolved value (possibly nil) *)
Definition iter_list (segs : list segment) (below : list (bytes * value)) (getf : bytes -> value)
  : list (bytes * value) :=
  fold_right (fun k acc =>
                match newest segs k with
                | Some ODel => acc
                | Some _ => (k, getf k) :: acc
                | None => match List.find (fun e => beqb (fst e) k) below with
                          | Some e => e :: acc
                          | None => acc end
                end) [] (kunion (all_keys segs) (kunion (map fst below) [])).

Definition fn_iter (f : option fnode) : list (bytes * value) :=
  match f with
  | Some n => iter_list (fn_segs n) [] (sget fm0 (fn_segs n) no_below)
  | None => []
  end.

Fixpoint reads_of (univ : list bytes) (s : sstack) : rnode :=
  match s with
  | SS a _ ll kids =>
      RN (gets_of (ss_get fm0 s) univ)
         (iter_list a (fn_iter ll) (ss_get fm0 s))
         (sort_kids ((fix go (l : list (cname * sstack)) : list (cname * option rnode) :=
                        match l with
                        | [] => []
                        | (n, c) :: r => (n, Some (reads_of univ c)) :: go r
                        end) kids))
  end.

(* reads predicted by the specification *)
Fixpoint ref_reads (univ : list bytes) (t : rtree) : rnode :=
  match t with
  | RT h kids =>
      RN (gets_of (rt_get fm0 t) univ)
         (fold_right (fun k acc => match rt_get fm0 t k with
                                   | Some v => (k, Some v) :: acc
                                   | None => acc end) [] (all_keys h))
         (sort_kids ((fix go (l : list (cname * rtree)) : list (cname * option rnode) :=
                        match l with
                        | [] => []
                        | (n, c) :: r => (n, Some (ref_reads univ c)) :: go r
                        end) kids))
  end.

Fixpoint rnode_eqb (a b : rnode) {struct a} : bool :=
  match a, b with
  | RN g1 i1 k1, RN g2 i2 k2 =>
      list_eqb kv_eqb g1 g2 && list_eqb kv_eqb i1 i2 &&
      (fix go (l1 : list (cname * option rnode)) (l2 : list (cname * option rnode)) : bool :=
         match l1, l2 with
         | [], [] => true
         | (n1, o1) :: r1, (n2, o2) :: r2 =>
             beqb n1 n2 &&
             match o1, o2 with
             | Some x, Some y => rnode_eqb x y
             | None, None => true
             | _, _ => false
             end && go r1 r2
         | _, _ => false
         end) k1 k2
  end.

(* ---- canonical form of the structural dump ---------------------------------- *)

Fixpoint sortk_ss (s : sstack) : sstack :=
  match s with
  | SS a i ll kids =>
      SS a i (match ll with Some _ => Some fnode_empty | None => None end)
         (sort_kids ((fix go (l : list (cname * sstack)) : list (cname * sstack) :=
                        match l with [] => [] | (n, c) :: r => (n, sortk_ss c) :: go r end) kids))
  end.
Fixpoint sortk_fn (f : fnode) : fnode :=
  match f with
  | FN a i kids =>
      FN a i (sort_kids ((fix go (l : list (cname * fnode)) : list (cname * fnode) :=
                            match l with [] => [] | (n, c) :: r => (n, sortk_fn c) :: go r end) kids))
  end.
Fixpoint sortk_cn (c : cnode) : cnode :=
  match c with
  | CN i h kids =>
      CN i h (sort_kids ((fix go (l : list (cname * cnode)) : list (cname * cnode) :=
                            match l with [] => [] | (n, x) :: r => (n, sortk_cn x) :: go r end) kids))
  end.

(* incarnation numbers are only ever compared between nodes of the SAME path
   (same child name under the same parent), so they are canonicalised per
   path: renamed by first occurrence among the nodes of that path, visiting
   coll, top, mid, base, clean, lower level in that order. *)
Definition path := list cname.
Definition path_eqb : path -> path -> bool := list_eqb beqb.

Fixpoint collect_ss (p : path) (s : sstack) : list (path * N) :=
  match s with
  | SS _ i _ kids =>
      (p, i) :: (fix go (l : list (cname * sstack)) : list (path * N) :=
              match l with [] => [] | (n, c) :: r => collect_ss (p ++ [n]) c ++ go r end) kids
  end.
Fixpoint collect_fn (p : path) (f : fnode) : list (path * N) :=
  match f with
  | FN _ i kids =>
      (p, i) :: (fix go (l : list (cname * fnode)) : list (path * N) :=
              match l with [] => [] | (n, c) :: r => collect_fn (p ++ [n]) c ++ go r end) kids
  end.
Fixpoint collect_cn (p : path) (c : cnode) : list (path * N) :=
  match c with
  | CN i _ kids =>
      (p, i) :: (fix go (l : list (cname * cnode)) : list (path * N) :=
              match l with [] => [] | (n, x) :: r => collect_cn (p ++ [n]) x ++ go r end) kids
  end.

(* index of (p, x) among the distinct numbers seen at path p *)
Fixpoint index_at (p : path) (x : N) (l : list (path * N)) (seen : list N) : N :=
  match l with
  | [] => N.of_nat (length seen)
  | (q, y) :: r =>
      if path_eqb p q then
        if N.eqb x y then
          (if existsb (N.eqb y) seen then N.of_nat (length (filter (fun z => negb (N.eqb z y)) seen)) else N.of_nat (length seen))
        else if existsb (N.eqb y) seen then index_at p x r seen else index_at p x r (seen ++ [y])
      else index_at p x r seen
  end.
(* position of x in the order of first occurrence at path p *)
Fixpoint first_occ (p : path) (l : list (path * N)) (seen : list N) : list N :=
  match l with
  | [] => seen
  | (q, y) :: r =>
      if path_eqb p q && negb (existsb (N.eqb y) seen) then first_occ p r (seen ++ [y])
      else first_occ p r seen
  end.
Fixpoint pos_in (x : N) (l : list N) (i : N) : N :=
  match l with [] => i | y :: r => if N.eqb x y then i else pos_in x r (i + 1) end.
Definition ren (o : list (path * N)) (p : path) (x : N) : N := pos_in x (first_occ p o []) 0.

Fixpoint ren_ss (o : list (path * N)) (p : path) (s : sstack) : sstack :=
  match s with
  | SS a i ll kids =>
      SS a (ren o p i) ll
         ((fix go (l : list (cname * sstack)) : list (cname * sstack) :=
             match l with [] => [] | (n, c) :: r => (n, ren_ss o (p ++ [n]) c) :: go r end) kids)
  end.
Fixpoint ren_fn (o : list (path * N)) (p : path) (f : fnode) : fnode :=
  match f with
  | FN a i kids =>
      FN a (ren o p i)
         ((fix go (l : list (cname * fnode)) : list (cname * fnode) :=
             match l with [] => [] | (n, c) :: r => (n, ren_fn o (p ++ [n]) c) :: go r end) kids)
  end.
(* the collection's counters: incarnations renamed; `highest` only matters
   relative to the children's numbers, so it is dropped from the comparison *)
Fixpoint ren_cn (o : list (path * N)) (p : path) (c : cnode) : cnode :=
  match c with
  | CN i _ kids =>
      CN (ren o p i) 0
         ((fix go (l : list (cname * cnode)) : list (cname * cnode) :=
             match l with [] => [] | (n, x) :: r => (n, ren_cn o (p ++ [n]) x) :: go r end) kids)
  end.

Record canon := {
  k_coll : cnode; k_top : option sstack; k_mid : option sstack; k_base : option sstack;
  k_clean : option sstack; k_ll : option fnode
}.

Definition canonical (coll : cnode) (top mid base clean : option sstack) (ll : option fnode) : canon :=
  let coll := sortk_cn coll in
  let top := option_map sortk_ss top in
  let mid := option_map sortk_ss mid in
  let base := option_map sortk_ss base in
  let clean := option_map sortk_ss clean in
  let ll := option_map sortk_fn ll in
  let oc {A} (f : path -> A -> list (path * N)) (o : option A) := match o with Some x => f [] x | None => [] end in
  let order := collect_cn [] coll ++ oc collect_ss top ++ oc collect_ss mid ++ oc collect_ss base
               ++ oc collect_ss clean ++ oc collect_fn ll in
  {| k_coll := ren_cn order [] coll; k_top := option_map (ren_ss order []) top;
     k_mid := option_map (ren_ss order []) mid; k_base := option_map (ren_ss order []) base;
     k_clean := option_map (ren_ss order []) clean; k_ll := option_map (ren_fn order []) ll |}.

(* an empty top is nil in the implementation after ingest *)
Definition nil_if_none (o : option sstack) : option sstack := o.

Definition model_canon (s : tstate) : canon :=
  canonical (t_coll s) (t_top s) (t_mid s) (t_base s) (t_clean s) (t_ll s).

Definition store_canon (f : fnode) : canon :=
  canonical (CN 0 0 []) None None None None (Some f).

(* gauges: the segments of the section and of all its child stacks *)
Fixpoint ss_count_segs (s : sstack) : nat :=
  match s with
  | SS a _ _ kids =>
      length a + (fix go (l : list (cname * sstack)) : nat :=
                    match l with [] => 0 | (_, c) :: r => ss_count_segs c + go r end) kids
  end.
Fixpoint ss_count_ops (s : sstack) : nat :=
  match s with
  | SS a _ _ kids =>
      length (concat a) + (fix go (l : list (cname * sstack)) : nat :=
                    match l with [] => 0 | (_, c) :: r => ss_count_ops c + go r end) kids
  end.
Definition t_dirty_segments (s : tstate) : nat :=
  let n o := match o with Some x => ss_count_segs x | None => 0 end in
  n (t_top s) + n (t_mid s) + n (t_base s).
Definition t_dirty_ops (s : tstate) : nat :=
  let n o := match o with Some x => ss_count_ops x | None => 0 end in
  n (t_top s) + n (t_mid s) + n (t_base s).

(* Collection.Get (root) *)
Definition t_coll_get (s : tstate) : bytes -> value := ss_get fm0 (t_mk_snapshot s).

Definition tref_now (r : trs) : rtree := ref_tree (tall r).

(* forces the observation record into the extraction *)
Definition tobs_id (o : tobs) : tobs := o.

(* C20 oracle: with zero dirty gauges the store's own snapshot must read as the reference tree *)
Definition zero_gauges_ok (dirty_ops dirty_segs : nat) (store : fnode) (r : trs) : bool :=
  negb (Nat.eqb dirty_ops 0 && Nat.eqb dirty_segs 0) || fn_equiv_ref 8 store (tref_now r).

(* the same comparison, blind to the mere existence of child collections: a
   child only the reference has must be empty there; a child only the store
   has is ignored (its deletion is pending) *)
Fixpoint rt_is_empty (fuel : nat) (t : rtree) : bool :=
  match fuel with
  | O => false
  | S fu => forallb (fun k => value_eqb (rt_get fm0 t k) None) (all_keys (rt_hist t))
            && forallb (fun nk => rt_is_empty fu (snd nk)) (rt_kids t)
  end.
Fixpoint fn_equiv_mod_existence (fuel : nat) (f : fnode) (t : rtree) : bool :=
  match fuel with
  | O => false
  | S fu =>
      forallb (fun k => value_eqb (sget fm0 (fn_segs f) no_below k) (rt_get fm0 t k))
              (all_keys (fn_segs f ++ rt_hist t))
      && forallb (fun nk => match assoc (fst nk) (fn_kids f) with
                            | Some cf => fn_equiv_mod_existence fu cf (snd nk)
                            | None => rt_is_empty fu (snd nk) end) (rt_kids t)
  end.
(* a batch without a single key operation at any depth: it only creates
   (empty) or deletes child collections *)
Fixpoint tb_opless (fuel : nat) (b : tbatch) : bool :=
  match fuel with
  | O => false
  | S fu => match b with
            | TB ops kids =>
                Nat.eqb (length ops) 0 &&
                forallb (fun nk => match snd nk with None => true | Some c => tb_opless fu c end) kids
            end
  end.
(* known finding F10b, identified by its cause: everything the store does not
   reflect yet is a suffix of operation-less batches (the store reads as the
   reference after the first n batches, existence of empty children aside) *)
Fixpoint pending_opless_search (all : list tbatch) (store : fnode) (n : nat) : bool :=
  (forallb (tb_opless 8) (skipn n all) && fn_equiv_mod_existence 8 store (ref_tree (firstn n all)))
  || match n with O => false | S m => pending_opless_search all store m end.
Definition zero_gauges_existence_only (dirty_ops dirty_segs : nat) (store : fnode) (r : trs) : bool :=
  pending_opless_search (tall r) store (length (tall r)).

(* C07: what a full compaction must leave in every collection of the footer
   tree: at most one segment, keys strictly ascending, no deletion marker *)
Fixpoint fnode_full_shape_ok (f : fnode) : bool :=
  match f with
  | FN segs _ kids =>
      Nat.leb (length segs) 1 &&
      forallb (fun s => sortedb s && forallb (fun e => match snd e with ODel => false | _ => true end) s) segs &&
      (fix go (l : list (cname * fnode)) : bool :=
         match l with [] => true | (_, c) :: r => fnode_full_shape_ok c && go r end) kids
  end.
