From Coq Require Import List NArith Bool Lia.
From Moss Require Import Bytes BytesFacts Segment.

Lemma find_none_iff s k : find s k = None <-> ~ In k (keys s).
Proof.
  induction s as [|[k' o] s IH]; simpl; [tauto|].
  destruct (beqb k' k) eqn:E.
  - apply beqb_true in E. split; [discriminate|]. intros H; exfalso; apply H; auto.
  - apply beqb_false in E. rewrite IH. tauto.
Qed.

Lemma find_some_in s k o : find s k = Some o -> In (k, o) s.
Proof.
  induction s as [|[k' o'] s IH]; simpl; [discriminate|].
  destruct (beqb k' k) eqn:E.
  - apply beqb_true in E; subst. intros [= ->]; auto.
  - auto.
Qed.

Lemma find_some_key s k o : find s k = Some o -> In k (keys s).
Proof. intros H. apply find_some_in in H. apply (in_map fst) in H. exact H. Qed.

Lemma in_keys_find s k : In k (keys s) -> exists o, find s k = Some o.
Proof.
  intros H. destruct (find s k) eqn:E; eauto. apply find_none_iff in E. tauto.
Qed.

(* --- strictly ascending key lists ---------------------------------- *)

Inductive asc : list bytes -> Prop :=
| asc_nil : asc []
| asc_one a : asc [a]
| asc_cons a b r : blt a b -> asc (b :: r) -> asc (a :: b :: r).

Lemma sorted_keys_asc l : sorted_keys l = true <-> asc l.
Proof.
  induction l as [|a [|b r] IH]; simpl.
  - split; constructor.
  - split; constructor.
  - rewrite andb_true_iff, bltb_true. split.
    + intros [H1 H2]. constructor; auto. apply IH; auto.
    + intros H; inversion H; subst. split; auto. apply IH; auto.
Qed.

Lemma asc_tail a l : asc (a :: l) -> asc l.
Proof. intros H; inversion H; subst; auto; constructor. Qed.

Lemma asc_head_lt a l : asc (a :: l) -> forall x, In x l -> blt a x.
Proof.
  revert a; induction l as [|b l IH]; intros a H x Hx; [destruct Hx|].
  inversion H; subst. destruct Hx as [->|Hx]; auto.
  eapply bcmp_trans; [eassumption|]. apply IH; auto.
Qed.

Lemma asc_NoDup l : asc l -> NoDup l.
Proof.
  induction l as [|a l IH]; intros H; constructor.
  - intros Hin. eapply asc_head_lt in Hin; eauto. unfold blt in Hin. rewrite bcmp_refl in Hin. discriminate.
  - apply IH. eapply asc_tail; eauto.
Qed.

Lemma asc_cons_intro a l : asc l -> (forall x, In x l -> blt a x) -> asc (a :: l).
Proof. destruct l as [|b l]; intros H1 H2; constructor; auto. apply H2; simpl; auto. Qed.

Lemma kinsert_in k l x : In x (kinsert k l) <-> x = k \/ In x l.
Proof.
  induction l as [|a l IH]; simpl; [intuition|].
  destruct (bcmp k a) eqn:E; simpl.
  - apply bcmp_eq in E; subst. intuition.
  - intuition.
  - rewrite IH. intuition.
Qed.

Lemma kinsert_asc k l : asc l -> asc (kinsert k l).
Proof.
  induction l as [|a l IH]; simpl; intros H; [constructor|].
  destruct (bcmp k a) eqn:E; auto.
  - constructor; auto.
  - apply asc_cons_intro.
    + apply IH. eapply asc_tail; eauto.
    + intros x Hx. apply kinsert_in in Hx. destruct Hx as [->|Hx].
      * apply bcmp_gt_lt; auto.
      * eapply asc_head_lt; eauto.
Qed.

Lemma kunion_in a b x : In x (kunion a b) <-> In x a \/ In x b.
Proof.
  unfold kunion. induction a as [|y a IH]; simpl; [tauto|].
  rewrite kinsert_in, IH. intuition.
Qed.

Lemma kunion_asc a b : asc b -> asc (kunion a b).
Proof. unfold kunion. induction a; simpl; auto. intros; apply kinsert_asc; auto. Qed.

(* --- sorting a batch ------------------------------------------------- *)

Lemma einsert_in e s x : In x (einsert e s) <-> x = e \/ In x s.
Proof.
  induction s as [|a s IH]; simpl; [intuition|].
  destruct (bcmp (fst e) (fst a)); simpl; try rewrite IH; intuition.
Qed.

Lemma sort_seg_in s x : In x (sort_seg s) <-> In x s.
Proof.
  unfold sort_seg. induction s as [|a s IH]; simpl; [tauto|].
  rewrite einsert_in, IH. intuition.
Qed.

Lemma einsert_keys_asc e s :
  asc (keys s) -> ~ In (fst e) (keys s) -> asc (keys (einsert e s)).
Proof.
  induction s as [|a s IH]; simpl; intros H Hn; [constructor|].
  destruct (bcmp (fst e) (fst a)) eqn:E; simpl.
  - apply bcmp_eq in E. exfalso; apply Hn; auto.
  - constructor; auto.
  - apply asc_cons_intro.
    + apply IH; [eapply asc_tail; eauto | tauto].
    + intros x Hx. unfold keys in Hx. apply in_map_iff in Hx. destruct Hx as [y [<- Hy]].
      apply einsert_in in Hy. destruct Hy as [->|Hy].
      * apply bcmp_gt_lt; auto.
      * eapply asc_head_lt; eauto. apply in_map; auto.
Qed.

Lemma uniq_keys_NoDup l : uniq_keys l = true <-> NoDup l.
Proof.
  induction l as [|a l IH]; simpl; [split; constructor|].
  rewrite andb_true_iff, negb_true_iff, IH. split.
  - intros [H1 H2]. constructor; auto. intros Hin.
    assert (existsb (beqb a) l = true) by (apply existsb_exists; exists a; split; auto; apply beqb_refl).
    congruence.
  - intros H; inversion H; subst. split; auto.
    destruct (existsb (beqb a) l) eqn:E; auto. apply existsb_exists in E.
    destruct E as [x [Hx E]]. apply beqb_true in E; subst. tauto.
Qed.

Lemma sort_seg_keys_in s k : In k (keys (sort_seg s)) <-> In k (keys s).
Proof.
  unfold keys. rewrite !in_map_iff. split; intros [x [<- H]]; exists x; split; auto;
  apply sort_seg_in; auto.
Qed.

Lemma sort_seg_asc s : NoDup (keys s) -> asc (keys (sort_seg s)).
Proof.
  induction s as [|a s IH]; simpl; intros H; [constructor|].
  inversion H; subst. apply einsert_keys_asc; auto.
  rewrite sort_seg_keys_in. auto.
Qed.

(* find is insensitive to order when keys are unique *)
Lemma find_NoDup_in s k o : NoDup (keys s) -> In (k, o) s -> find s k = Some o.
Proof.
  induction s as [|[k' o'] s IH]; simpl; intros Hn Hin; [destruct Hin|].
  inversion Hn; subst. destruct Hin as [[= -> ->]|Hin].
  - now rewrite beqb_refl.
  - destruct (beqb k' k) eqn:E; auto. apply beqb_true in E; subst.
    exfalso. apply H1. apply (in_map fst) in Hin. exact Hin.
Qed.

Lemma find_sort_seg s k : NoDup (keys s) -> find (sort_seg s) k = find s k.
Proof.
  intros Hn. destruct (find s k) eqn:E.
  - apply find_NoDup_in.
    + apply asc_NoDup, sort_seg_asc; auto.
    + apply sort_seg_in. apply find_some_in; auto.
  - apply find_none_iff. rewrite sort_seg_keys_in. apply find_none_iff; auto.
Qed.

(* list helpers missing from the 8.16 standard library *)
Lemma In_firstn_in {A} n (l : list A) x : In x (firstn n l) -> In x l.
Proof.
  revert l; induction n as [|n IH]; intros [|a l]; simpl; auto; try tauto.
  intros [H|H]; auto.
Qed.

Lemma In_skipn_in {A} n (l : list A) x : In x (skipn n l) -> In x l.
Proof.
  revert l; induction n as [|n IH]; intros [|a l]; simpl; auto.
Qed.
