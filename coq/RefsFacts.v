From Coq Require Import List ZArith Bool Lia.
From Moss Require Import Refs.
Open Scope Z_scope.

(* the counts of one object along a trace *)
Definition counts_of (o : nat) (tr : list rev) : list Z :=
  map r_after (filter (fun e => Nat.eqb (r_obj e) o) tr).

(* declarative reading: the history of one object is well-formed when
   consecutive counts differ by one and nothing follows a count <= 0 *)
Fixpoint wf_counts (l : list Z) : Prop :=
  match l with
  | [] => True
  | c :: r => match r with
              | [] => True
              | c' :: _ => 0 < c /\ (c' = c + 1 \/ c' = c - 1) /\ wf_counts r
              end
  end.

Lemma rlookup_rset_same o c st : rlookup o (rset o c st) = Some c.
Proof.
  induction st as [|[o' c'] r IH]; simpl.
  - now rewrite Nat.eqb_refl.
  - destruct (Nat.eqb o' o) eqn:E; simpl; [now rewrite Nat.eqb_refl|]. rewrite E. exact IH.
Qed.

Lemma rlookup_rset_other o o2 c st : o <> o2 -> rlookup o2 (rset o c st) = rlookup o2 st.
Proof.
  intros Hn. induction st as [|[o' c'] r IH]; simpl.
  - destruct (Nat.eqb o o2) eqn:E; auto. apply Nat.eqb_eq in E. congruence.
  - destruct (Nat.eqb o' o) eqn:E; simpl.
    + apply Nat.eqb_eq in E. subst o'.
      destruct (Nat.eqb o o2) eqn:E2; auto. apply Nat.eqb_eq in E2. congruence.
    + destruct (Nat.eqb o' o2); auto.
Qed.

(* soundness: if the monitor accepts a trace then every object's history is
   well-formed: no jump, nothing after a release *)
Lemma rrun_sound : forall tr st st',
  rrun st tr = inl st' ->
  forall o, match rlookup o st with
            | Some c => wf_counts (c :: counts_of o tr)
            | None => wf_counts (counts_of o tr)
            end.
Proof.
  induction tr as [|e r IH]; intros st st' Hr o; simpl in *.
  - destruct (rlookup o st); simpl; auto.
  - unfold rstep in Hr. unfold counts_of; simpl.
    destruct (rlookup (r_obj e) st) as [c|] eqn:El.
    + destruct (Z.leb c 0) eqn:Ec; [discriminate|].
      destruct (Z.eqb (r_after e) (c + 1) || Z.eqb (r_after e) (c - 1)) eqn:Ej; [|discriminate].
      specialize (IH _ _ Hr o).
      destruct (Nat.eqb (r_obj e) o) eqn:Eo.
      * apply Nat.eqb_eq in Eo. subst o. rewrite El. rewrite rlookup_rset_same in IH.
        simpl. fold (counts_of (r_obj e) r).
        apply Z.leb_gt in Ec. apply orb_true_iff in Ej.
        split; [lia|]. split; [|exact IH].
        destruct Ej as [Ej|Ej]; apply Z.eqb_eq in Ej; auto.
      * apply Nat.eqb_neq in Eo. rewrite rlookup_rset_other in IH by auto. exact IH.
    + specialize (IH _ _ Hr o).
      destruct (Nat.eqb (r_obj e) o) eqn:Eo.
      * apply Nat.eqb_eq in Eo. subst o. rewrite El. rewrite rlookup_rset_same in IH. exact IH.
      * apply Nat.eqb_neq in Eo. rewrite rlookup_rset_other in IH by auto. exact IH.
Qed.

Theorem refs_check_no_use_after_release all_closed tr :
  refs_check all_closed tr = ROK -> forall o, wf_counts (counts_of o tr).
Proof.
  unfold refs_check. destruct (rrun [] tr) as [st|v] eqn:E.
  - intros _ o. apply (rrun_sound tr [] st E o).
  - destruct v; discriminate.
Qed.

(* and when everything is closed, no object is left with a positive count *)
Lemma first_leak_ok st : first_leak st = ROK -> forall o c, In (o, c) st -> c <= 0.
Proof.
  unfold first_leak. intros H o c Hin.
  destruct (find (fun p => 0 <? snd p) st) as [p|] eqn:F; [discriminate|].
  pose proof (find_none _ _ F (o, c) Hin) as Hn. simpl in Hn. apply Z.ltb_ge in Hn. exact Hn.
Qed.

Theorem refs_check_no_leak tr :
  refs_check true tr = ROK ->
  exists st, rrun [] tr = inl st /\ forall o c, In (o, c) st -> c <= 0.
Proof.
  unfold refs_check. destruct (rrun [] tr) as [st|v] eqn:E.
  - intros H. exists st. split; auto. now apply first_leak_ok.
  - destruct v; discriminate.
Qed.
