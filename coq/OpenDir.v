(* OpenDir.v — openStore over a directory: which file is chosen, what is
   removed, with which flags files are opened; Store.persist under ReadOnly.
   Files are abstract: what matters to openStore is whether the header page
   checks and whether a valid footer can be found.  Executable definitions. *)
From Coq Require Export List NArith Bool.
Export ListNotations.

Inductive fstate :=
| FValid (footer_id : N)      (* header ok, ReadFooter finds a footer *)
| FNoFooter                   (* header ok, no valid footer *)
| FBadHeader                  (* header page incomplete or wrong *)
| FUnopenable.                (* OpenFile fails *)

(* data files, already filtered by prefix/suffix, sorted ascending by name *)
Definition dirstate := list (N * fstate).   (* (sequence number, state) *)

Inductive effect :=
| EOpen (seq : N) (readonly : bool)
| ERemove (seq : N)
| ECreate (seq : N)
| EWrite (seq : N).

Inductive open_result :=
| OpenedEmpty                         (* no data file: empty store *)
| Opened (seq : N) (footer_id : N)
| OpenFailed.

Record opts := { o_readonly : bool; o_keepfiles : bool }.

(* the newest-first loop of openStore; `others` = all sequence numbers *)
Fixpoint open_loop (o : opts) (all : list N) (newest_first : list (N * fstate))
  : open_result * list effect :=
  match newest_first with
  | [] => (OpenFailed, [])
  | (seq, st) :: rest =>
      match st with
      | FUnopenable => let '(r, e) := open_loop o all rest in (r, EOpen seq (o_readonly o) :: e)
      | FBadHeader =>
          (* a newer file whose header page is incomplete is skipped *)
          let '(r, e) := open_loop o all rest in (r, EOpen seq (o_readonly o) :: e)
      | FNoFooter => let '(r, e) := open_loop o all rest in (r, EOpen seq (o_readonly o) :: e)
      | FValid fid =>
          (Opened seq fid,
           EOpen seq (o_readonly o) ::
           (if o_keepfiles o || o_readonly o then []
            else map ERemove (filter (fun s => negb (N.eqb s seq)) all)))
      end
  end.

Definition open_store (o : opts) (d : dirstate) : open_result * list effect :=
  match d with
  | [] => (OpenedEmpty, [])
  | _ => open_loop o (map fst d) (rev d)
  end.

(* Store.persist / compactMaybe: what they may do to the directory *)
Definition persist_effects (o : opts) (cur : N) (has_data compacts : bool) : list effect :=
  if o_readonly o then []
  else if compacts then [ECreate (cur + 1); EWrite (cur + 1)]
  else if has_data then [EWrite cur] else [].

Definition mutating (e : effect) : bool :=
  match e with
  | EOpen _ ro => negb ro
  | _ => true
  end.
