(* TreeInvFacts.v — the end-to-end theorems for the tree model (collections
   with child collections over a store), for an arbitrary merge operator:
   whatever the schedule of batches, merger rounds and persistence rounds
   (append, compaction at any splice point, no-op, failed), the current
   snapshot of the combined system "collection + store" (TreeInv.cstep) reads
   as the reference tree at every path of child names
   (tree_snapshot_reads_reference), and the store's footer tree reads as the
   reference tree after a prefix of the executed batches
   (tree_store_reads_prefix, tree_drained_store_is_reference).
   Organisation: A association lists; B induction principles for the rose
   trees; C the local loops of Tree.v as top-level functions and their
   specifications; D the pending stack holds live nodes only; E one level of
   each tree operation; F the invariant NodeInv of the tree of live nodes;
   H merger steps; I publication; J ExecuteBatch; K the invariant of the
   combined system and its preservation; K1/K2 liveness of stacks/footers and
   the history ghost (a <= b <= d as in Prefix.v); L the theorems. *)
From Coq Require Import List NArith Bool Lia Arith.
From Moss Require Import Bytes BytesFacts Segment SegmentFacts Stack StackFacts
     Collection CollectionFacts Store StoreFacts Tree TreeColl TreeFacts TreeInv.
Import ListNotations.

(* ======================================================================= *)
(* A. association lists                                                     *)
(* ======================================================================= *)
Section AssocFacts.
  Context {A : Type}.
  Implicit Types (l : list (cname * A)) (n : cname) (a : A).

  Lemma assoc_none_iff n l : assoc n l = None <-> ~ In n (map fst l).
  Proof.
    induction l as [|[n' a'] r IH]; simpl; [tauto|].
    destruct (beqb n' n) eqn:E.
    - apply beqb_true in E. subst. split; [discriminate|]. intros H. exfalso. apply H. auto.
    - apply beqb_false in E. rewrite IH. split.
      + intros H [H1|H1]; auto.
      + intros H H1. apply H. auto.
  Qed.

  Lemma assoc_some_in n l a : assoc n l = Some a -> In (n, a) l.
  Proof.
    induction l as [|[n' a'] r IH]; simpl; [discriminate|].
    destruct (beqb n' n) eqn:E.
    - apply beqb_true in E. subst. intros [= ->]. auto.
    - auto.
  Qed.

  Lemma assoc_some_name n l a : assoc n l = Some a -> In n (map fst l).
  Proof. intros H. apply assoc_some_in in H. apply in_map_iff. exists (n, a). auto. Qed.

  Lemma in_assoc_nodup n l a : NoDup (map fst l) -> In (n, a) l -> assoc n l = Some a.
  Proof.
    induction l as [|[n' a'] r IH]; simpl; intros Hn Hin; [destruct Hin|].
    inversion Hn as [|x y Hni Hnd']; subst. destruct Hin as [[= -> ->]|Hin].
    - now rewrite beqb_refl.
    - destruct (beqb n' n) eqn:E; auto.
      apply beqb_true in E. subst. exfalso. apply Hni. apply in_map_iff. exists (n, a). auto.
  Qed.

  Lemma in_names_assoc n l : In n (map fst l) -> exists a, assoc n l = Some a.
  Proof.
    intros H. destruct (assoc n l) eqn:E; eauto.
    apply assoc_none_iff in E. tauto.
  Qed.

  Lemma assoc_aset_same n a l : assoc n (aset n a l) = Some a.
  Proof.
    induction l as [|[n' a'] r IH]; simpl.
    - now rewrite beqb_refl.
    - destruct (beqb n' n) eqn:E; simpl.
      + now rewrite beqb_refl.
      + now rewrite E.
  Qed.

  Lemma assoc_aset_other n n' a l : n <> n' -> assoc n' (aset n a l) = assoc n' l.
  Proof.
    intros Hne. induction l as [|[m a'] r IH]; simpl.
    - assert (beqb n n' = false) as -> by (apply beqb_false; auto). reflexivity.
    - destruct (beqb m n) eqn:E; simpl.
      + apply beqb_true in E. subst.
        assert (beqb n n' = false) as -> by (apply beqb_false; auto). reflexivity.
      + destruct (beqb m n'); auto.
  Qed.

  Lemma assoc_aremove_same n l : assoc n (aremove n l) = None.
  Proof.
    induction l as [|[m a'] r IH]; simpl; auto.
    destruct (beqb m n) eqn:E; simpl; auto. now rewrite E.
  Qed.

  Lemma assoc_aremove_other n n' l : n <> n' -> assoc n' (aremove n l) = assoc n' l.
  Proof.
    intros Hne. induction l as [|[m a'] r IH]; simpl; auto.
    destruct (beqb m n) eqn:E; simpl.
    - apply beqb_true in E. subst.
      assert (beqb n n' = false) as -> by (apply beqb_false; auto). auto.
    - destruct (beqb m n'); auto.
  Qed.

  Lemma aset_names_in n a l x : In x (map fst (aset n a l)) <-> x = n \/ In x (map fst l).
  Proof.
    induction l as [|[m a'] r IH]; simpl.
    - split; [intros [->|[]]; auto | intros [->|[]]; auto].
    - destruct (beqb m n) eqn:E; simpl.
      + apply beqb_true in E. subst. split; [intros [->|H1]; auto | intros [->|[->|H1]]; auto].
      + rewrite IH. split; [intros [->|[->|H1]]; auto | intros [->|[->|H1]]; auto].
  Qed.

  Lemma aset_nodup n a l : NoDup (map fst l) -> NoDup (map fst (aset n a l)).
  Proof.
    induction l as [|[m a'] r IH]; simpl; intros H.
    - constructor; auto.
    - inversion H as [|x y Hni Hnd']; subst. destruct (beqb m n) eqn:E; simpl.
      + apply beqb_true in E. subst. constructor; auto.
      + apply beqb_false in E. constructor; auto.
        rewrite aset_names_in. intros [->|Hin]; auto.
  Qed.

  Lemma aremove_names_in n l x : In x (map fst (aremove n l)) -> In x (map fst l).
  Proof.
    induction l as [|[m a'] r IH]; simpl; auto.
    destruct (beqb m n); simpl; intuition.
  Qed.

  Lemma aremove_nodup n l : NoDup (map fst l) -> NoDup (map fst (aremove n l)).
  Proof.
    induction l as [|[m a'] r IH]; simpl; intros H; auto.
    inversion H as [|x y Hni Hnd']; subst. destruct (beqb m n); simpl; auto.
    constructor; auto. intros Hin. apply aremove_names_in in Hin. auto.
  Qed.
End AssocFacts.

Lemma beqb_dec (a b : bytes) : {a = b} + {a <> b}.
Proof.
  destruct (beqb a b) eqn:E.
  - left. now apply beqb_true.
  - right. now apply beqb_false.
Qed.

(* ======================================================================= *)
(* B. induction principles for the rose trees                               *)
(* ======================================================================= *)
Section TbInd.
  Variable P : tbatch -> Prop.
  Hypothesis H : forall ops bkids,
      (forall n cb, In (n, Some cb) bkids -> P cb) -> P (TB ops bkids).
  Lemma tbatch_ind' : forall b, P b.
  Proof.
    fix IH 1. intros [ops bkids]. apply H.
    induction bkids as [|[n' o] r IHr]; intros n cb Hin.
    - destruct Hin.
    - destruct o as [cb'|].
      + destruct Hin as [E|Hin].
        * assert (E' : cb' = cb) by congruence. rewrite <- E'. apply IH.
        * eapply IHr; eauto.
      + destruct Hin as [E|Hin]; [discriminate|]. eapply IHr; eauto.
  Qed.
End TbInd.

Section SsInd.
  Variable P : sstack -> Prop.
  Hypothesis H : forall a i l kids,
      (forall n c, In (n, c) kids -> P c) -> P (SS a i l kids).
  Lemma sstack_ind' : forall s, P s.
  Proof.
    fix IH 1. intros [a i l kids]. apply H.
    induction kids as [|[n' c'] r IHr]; intros n c Hin.
    - destruct Hin.
    - destruct Hin as [E|Hin].
      + assert (E' : c' = c) by congruence. rewrite <- E'. apply IH.
      + eapply IHr; eauto.
  Qed.
End SsInd.

(* ======================================================================= *)
(* C. the local loops of Tree.v, as top-level functions                     *)
(* ======================================================================= *)
Section BtGo.
  Variable rec : cnode -> tbatch -> option sstack -> cnode * sstack.
  Variable ck : list (cname * sstack).
  Fixpoint bt_go (l : list (cname * option tbatch))
           (acc : N * list (cname * cnode) * list (cname * sstack))
    : N * list (cname * cnode) * list (cname * sstack) :=
    match l with
    | [] => acc
    | (n, None) :: r =>
        let '(hi, mk, rv) := acc in bt_go r (hi, aremove n mk, rv)
    | (n, Some cb) :: r =>
        let '(hi, mk, rv) := acc in
        let '(child, hi') :=
          match assoc n mk with
          | Some c => (c, hi)
          | None => (CN (hi + 1) (hi + 1) [], (hi + 1)%N)
          end in
        let '(child', cst) := rec child cb (assoc n ck) in
        bt_go r (hi', aset n child' mk, aset n cst rv)
    end.
End BtGo.

Section BtCp.
  Variable mk : list (cname * cnode).
  Fixpoint bt_cp (l : list (cname * sstack)) (rv : list (cname * sstack)) : list (cname * sstack) :=
    match l with
    | [] => rv
    | (n, c) :: r =>
        match assoc n rv with
        | Some _ => bt_cp r rv
        | None =>
            match assoc n mk with
            | Some cm => if N.eqb (cn_incar cm) (ss_incar c)
                         then bt_cp r (aset n (prune cm c) rv) else bt_cp r rv
            | None => bt_cp r rv
            end
        end
    end.
End BtCp.

Lemma build_top_unfold m ops bkids cur :
  build_top m (TB ops bkids) cur =
  let cur_kids := match cur with Some s => ss_kids s | None => [] end in
  let cur_segs := match cur with Some s => ss_segs s | None => [] end in
  let '(hi, mkids, rvkids) := bt_go build_top cur_kids bkids (cn_highest m, cn_kids m, []) in
  (CN (cn_incar m) hi mkids,
   SS (batch_segs ops ++ cur_segs) (cn_incar m) None (bt_cp mkids cur_kids rvkids)).
Proof. reflexivity. Qed.

Section RaGo.
  Variable rec : rtree -> tbatch -> rtree.
  Fixpoint ra_go (l : list (cname * option tbatch)) (ks : list (cname * rtree))
    : list (cname * rtree) :=
    match l with
    | [] => ks
    | (n, None) :: r => ra_go r (aremove n ks)
    | (n, Some cb) :: r =>
        let cur := match assoc n ks with Some x => x | None => RT [] [] end in
        ra_go r (aset n (rec cur cb) ks)
    end.
End RaGo.

Lemma rt_apply_unfold t ops bkids :
  rt_apply t (TB ops bkids) = RT (rt_hist t ++ [ops]) (ra_go rt_apply bkids (rt_kids t)).
Proof. reflexivity. Qed.

Section BtGoSpec.
  Variable rec : cnode -> tbatch -> option sstack -> cnode * sstack.
  Variable ck : list (cname * sstack).

  Lemma bt_go_spec l :
    NoDup (map fst l) -> forall hi mk rv hi' mk' rv',
    bt_go rec ck l (hi, mk, rv) = (hi', mk', rv') ->
    (hi <= hi')%N /\
    (NoDup (map fst mk) -> NoDup (map fst mk')) /\
    (NoDup (map fst rv) -> NoDup (map fst rv')) /\
    forall n,
      match assoc n l with
      | None => assoc n mk' = assoc n mk /\ assoc n rv' = assoc n rv
      | Some None => assoc n mk' = None /\ assoc n rv' = assoc n rv
      | Some (Some cb) =>
          exists child,
            (assoc n mk = Some child \/
             (assoc n mk = None /\ exists f, (hi < f <= hi')%N /\ child = CN f f [])) /\
            assoc n mk' = Some (fst (rec child cb (assoc n ck))) /\
            assoc n rv' = Some (snd (rec child cb (assoc n ck)))
      end.
  Proof.
    induction l as [|[n0 o0] r IH]; intros Hnd hi mk rv hi' mk' rv' E.
    - simpl in E. injection E as <- <- <-. repeat split; auto. lia.
    - simpl in Hnd. inversion Hnd as [|x y Hni Hnd']; subst.
      assert (Hr0 : assoc n0 r = None) by (apply assoc_none_iff; auto).
      destruct o0 as [cb|].
      + cbn [bt_go] in E.
        destruct (assoc n0 mk) as [c|] eqn:Ea.
        * destruct (rec c cb (assoc n0 ck)) as [child' cst] eqn:Er.
          apply IH in E; auto. destruct E as (Hh & Hm & Hr & Hs).
          split; [auto|]. split; [intros; apply Hm, aset_nodup; auto|].
          split; [intros; apply Hr, aset_nodup; auto|].
          intros n. cbn [assoc]. destruct (beqb n0 n) eqn:En.
          -- apply beqb_true in En. subst n. specialize (Hs n0). rewrite Hr0 in Hs.
             rewrite !assoc_aset_same in Hs. destruct Hs as [Hs1 Hs2].
             exists c. rewrite Er. simpl. auto.
          -- apply beqb_false in En. specialize (Hs n).
             rewrite !assoc_aset_other in Hs by auto. exact Hs.
        * destruct (rec (CN (hi + 1) (hi + 1) []) cb (assoc n0 ck)) as [child' cst] eqn:Er.
          apply IH in E; auto. destruct E as (Hh & Hm & Hr & Hs).
          split; [lia|]. split; [intros; apply Hm, aset_nodup; auto|].
          split; [intros; apply Hr, aset_nodup; auto|].
          intros n. cbn [assoc]. destruct (beqb n0 n) eqn:En.
          -- apply beqb_true in En. subst n. specialize (Hs n0). rewrite Hr0 in Hs.
             rewrite !assoc_aset_same in Hs. destruct Hs as [Hs1 Hs2].
             exists (CN (hi + 1) (hi + 1) []). rewrite Er. simpl.
             split; auto. right. split; auto. exists (hi + 1)%N. split; auto. lia.
          -- apply beqb_false in En. specialize (Hs n).
             rewrite !assoc_aset_other in Hs by auto.
             destruct (assoc n r) as [[cb'|]|]; auto.
             destruct Hs as (child & Hc & Hs1 & Hs2). exists child. split; auto.
             destruct Hc as [Hc|[Hc (f & Hf & ->)]]; [left; auto|].
             right. split; auto. exists f. split; auto. lia.
      + cbn [bt_go] in E. apply IH in E; auto. destruct E as (Hh & Hm & Hr & Hs).
        split; [auto|]. split; [intros; apply Hm, aremove_nodup; auto|]. split; [auto|].
        intros n. cbn [assoc]. destruct (beqb n0 n) eqn:En.
        * apply beqb_true in En. subst n. specialize (Hs n0). rewrite Hr0 in Hs.
          rewrite assoc_aremove_same in Hs. exact Hs.
        * apply beqb_false in En. specialize (Hs n).
          rewrite assoc_aremove_other in Hs by auto. exact Hs.
  Qed.
End BtGoSpec.

Section RaGoSpec.
  Variable rec : rtree -> tbatch -> rtree.
  Lemma ra_go_spec l :
    NoDup (map fst l) -> forall ks n,
      match assoc n l with
      | None => assoc n (ra_go rec l ks) = assoc n ks
      | Some None => assoc n (ra_go rec l ks) = None
      | Some (Some cb) =>
          assoc n (ra_go rec l ks)
          = Some (rec (match assoc n ks with Some x => x | None => RT [] [] end) cb)
      end.
  Proof.
    induction l as [|[n0 o0] r IH]; intros Hnd ks n.
    - reflexivity.
    - simpl in Hnd. inversion Hnd as [|x y Hni Hnd']; subst.
      assert (Hr0 : assoc n0 r = None) by (apply assoc_none_iff; auto).
      cbn [assoc]. destruct (beqb n0 n) eqn:En.
      + apply beqb_true in En. subst n. destruct o0 as [cb|]; cbn [ra_go].
        * specialize (IH Hnd' (aset n0 (rec (match assoc n0 ks with Some x => x | None => RT [] [] end) cb) ks) n0).
          rewrite Hr0 in IH. rewrite IH. apply assoc_aset_same.
        * specialize (IH Hnd' (aremove n0 ks) n0). rewrite Hr0 in IH. rewrite IH.
          apply assoc_aremove_same.
      + apply beqb_false in En. destruct o0 as [cb|]; cbn [ra_go].
        * specialize (IH Hnd' (aset n0 (rec (match assoc n0 ks with Some x => x | None => RT [] [] end) cb) ks) n).
          rewrite !assoc_aset_other in IH by auto. exact IH.
        * specialize (IH Hnd' (aremove n0 ks) n).
          rewrite !assoc_aremove_other in IH by auto. exact IH.
  Qed.
End RaGoSpec.

Lemma bt_cp_nodup mk l : forall rv, NoDup (map fst rv) -> NoDup (map fst (bt_cp mk l rv)).
Proof.
  induction l as [|[n0 c0] r IH]; intros rv H; cbn [bt_cp]; auto.
  destruct (assoc n0 rv); auto.
  destruct (assoc n0 mk) as [cm|]; auto.
  destruct (N.eqb (cn_incar cm) (ss_incar c0)); auto.
  apply IH, aset_nodup; auto.
Qed.

Lemma bt_cp_assoc mk l n :
  (forall cm c, assoc n mk = Some cm -> In (n, c) l -> ss_incar c = cn_incar cm) ->
  forall rv,
    assoc n (bt_cp mk l rv) =
    match assoc n rv with
    | Some x => Some x
    | None => match assoc n mk with
              | Some cm => option_map (prune cm) (assoc n l)
              | None => None
              end
    end.
Proof.
  induction l as [|[n0 c0] r IH]; intros Hm rv; cbn [bt_cp].
  - destruct (assoc n rv); auto. destruct (assoc n mk); auto.
  - assert (Hm' : forall cm c, assoc n mk = Some cm -> In (n, c) r -> ss_incar c = cn_incar cm)
      by (intros; eapply Hm; eauto; right; auto).
    cbn [assoc]. destruct (beqb n0 n) eqn:En.
    + apply beqb_true in En. subst n0.
      destruct (assoc n rv) as [x|] eqn:Erv.
      * rewrite IH by auto. now rewrite Erv.
      * destruct (assoc n mk) as [cm|] eqn:Emk.
        -- rewrite (Hm cm c0 eq_refl (or_introl eq_refl)), N.eqb_refl.
           rewrite IH by auto. now rewrite assoc_aset_same.
        -- rewrite IH by auto. now rewrite Erv.
    + apply beqb_false in En.
      destruct (assoc n0 rv) as [x|] eqn:Erv0; [apply IH; auto|].
      destruct (assoc n0 mk) as [cm0|] eqn:Emk0; [|apply IH; auto].
      destruct (N.eqb (cn_incar cm0) (ss_incar c0)); [|apply IH; auto].
      rewrite IH by auto. now rewrite assoc_aset_other by auto.
Qed.

(* ======================================================================= *)
(* D. the pending stack is made of live nodes only                          *)
(* ======================================================================= *)
Inductive TopOk : cnode -> sstack -> Prop :=
| TO m s :
    ss_incar s = cn_incar m ->
    NoDup (map fst (ss_kids s)) ->
    (forall n c, In (n, c) (ss_kids s) -> assoc n (cn_kids m) <> None) ->
    (forall n c cm, In (n, c) (ss_kids s) -> assoc n (cn_kids m) = Some cm -> TopOk cm c) ->
    TopOk m s.

Lemma TopOk_incar m s : TopOk m s -> ss_incar s = cn_incar m.
Proof. now inversion 1. Qed.

Lemma prune_id m s : TopOk m s -> prune m s = s.
Proof.
  induction 1 as [m s Hi Hnd Hex Hrec IH].
  destruct s as [a i ll kids]. cbn [prune]. simpl in *. subst i. f_equal.
  clear Hnd. induction kids as [|[n c] r IHr]; auto.
  destruct (assoc n (cn_kids m)) as [cm|] eqn:E.
  - pose proof (Hrec n c cm (or_introl eq_refl) E) as Ht.
    rewrite (TopOk_incar _ _ Ht), N.eqb_refl.
    rewrite (IH n c cm (or_introl eq_refl) E). f_equal.
    apply IHr; intros; eauto using in_cons.
  - exfalso. apply (Hex n c); auto. left; auto.
Qed.

(* ======================================================================= *)
(* E. one level of each tree operation                                      *)
(* ======================================================================= *)
Lemma sel_some n i o c : sel n i o = Some c -> ss_incar c = i /\ assoc n (okids o) = Some c.
Proof.
  destruct o as [s|]; simpl; [|discriminate].
  destruct (assoc n (ss_kids s)) as [c'|]; [|discriminate].
  destruct (N.eqb (ss_incar c') i) eqn:E; [|discriminate].
  intros [= <-]. apply N.eqb_eq in E. auto.
Qed.

Lemma sel_assoc n o c : assoc n (okids o) = Some c -> sel n (ss_incar c) o = Some c.
Proof.
  destruct o as [s|]; simpl; [|discriminate]. intros ->. now rewrite N.eqb_refl.
Qed.

Lemma fsel_some n i o y : fsel n i o = Some y -> fn_incar y = i.
Proof.
  destruct o as [f|]; simpl; [|discriminate].
  destruct (assoc n (fn_kids f)) as [y'|]; [|discriminate].
  destruct (N.eqb (fn_incar y') i) eqn:E; [|discriminate].
  intros [= <-]. now apply N.eqb_eq in E.
Qed.

Lemma csecs_osecs n i os :
  fold_right (fun s acc => match assoc n (ss_kids s) with
                           | Some c => if N.eqb (ss_incar c) i then c :: acc else acc
                           | None => acc end) [] (osecs os)
  = osecs (map (sel n i) os).
Proof.
  unfold osecs. induction os as [|o os IH]; [reflexivity|].
  destruct o as [s|]; simpl; auto.
  rewrite IH. destruct (assoc n (ss_kids s)) as [c|]; auto.
  destruct (N.eqb (ss_incar c) i); auto.
Qed.

Lemma mentioned_osecs n i os :
  existsb (fun s => match assoc n (ss_kids s) with
                    | Some c => N.eqb (ss_incar c) i
                    | None => false end) (osecs os)
  = existsb has_some (map (sel n i) os).
Proof.
  unfold osecs. induction os as [|o os IH]; [reflexivity|].
  destruct o as [s|]; simpl; auto.
  rewrite IH. destruct (assoc n (ss_kids s)) as [c|]; auto.
  destruct (N.eqb (ss_incar c) i); auto.
Qed.

Lemma assemble_segs m secs ll lr : ss_segs (assemble m secs ll lr) = concat (map ss_segs secs).
Proof. destruct m; reflexivity. Qed.
Lemma assemble_incar m secs ll lr : ss_incar (assemble m secs ll lr) = cn_incar m.
Proof. destruct m; reflexivity. Qed.
Lemma assemble_llcap m secs ll lr : ss_llcap (assemble m secs ll lr) = ll.
Proof. destruct m; reflexivity. Qed.

Lemma assemble_kid m os ll lr n :
  NoDup (map fst (cn_kids m)) ->
  assoc n (ss_kids (assemble m (osecs os) ll lr)) =
  match assoc n (cn_kids m) with
  | Some cm =>
      if lr || existsb has_some (map (sel n (cn_incar cm)) os)
      then Some (assemble cm (osecs (map (sel n (cn_incar cm)) os)) (fsel n (cn_incar cm) ll) lr)
      else None
  | None => None
  end.
Proof.
  destruct m as [inc hi mkids]. cbn [assemble ss_kids cn_kids].
  induction mkids as [|[n' cm] r IH]; intros Hnd; [reflexivity|].
  simpl in Hnd. inversion Hnd as [|x y Hni Hnd']; subst.
  cbn [assoc]. rewrite csecs_osecs, mentioned_osecs.
  destruct (beqb n' n) eqn:En.
  - apply beqb_true in En. subst n'.
    destruct (lr || existsb has_some (map (sel n (cn_incar cm)) os)).
    + cbn [assoc]. rewrite beqb_refl. f_equal.
    + rewrite IH by auto.
      assert (assoc n r = None) as -> by (apply assoc_none_iff; auto). reflexivity.
  - destruct (lr || existsb has_some (map (sel n' (cn_incar cm)) os)).
    + cbn [assoc]. rewrite En. apply IH; auto.
    + apply IH; auto.
Qed.

Section OneLevel.
  Variable fm : bytes -> value -> bytes -> value.
  Notation sget := (sget fm).

  Lemma merge_node_segs t s base :
    exists lvl, ss_segs (merge_node fm t s base) = merge_stack fm lvl (ss_segs s) (node_below fm s base).
  Proof.
    destruct s as [a inc ll kids]. cbn [merge_node ss_segs].
    eexists. unfold node_below. cbn [ss_llcap]. reflexivity.
  Qed.

  Lemma merge_node_incar t s base : ss_incar (merge_node fm t s base) = ss_incar s.
  Proof. destruct s; reflexivity. Qed.

  Lemma merge_node_llcap t s base : ss_llcap (merge_node fm t s base) = ss_llcap s.
  Proof. destruct s; reflexivity. Qed.

  Lemma merge_node_kid t s base n :
    assoc n (ss_kids (merge_node fm t s base)) =
    match assoc n (ss_kids s) with
    | Some c => Some (merge_node fm (match assoc n (lt_kids t) with Some x => x | None => LT 0 [] end) c
                                 (sel n (ss_incar c) base))
    | None => None
    end.
  Proof.
    destruct s as [a inc ll kids]. cbn [merge_node ss_kids].
    induction kids as [|[n' c'] r IH]; [reflexivity|].
    cbn [assoc]. destruct (beqb n' n) eqn:E; auto.
    apply beqb_true in E. subst n'. f_equal.
  Qed.

  Lemma sel_merge_node t s base n i :
    sel n i (Some (merge_node fm t s base)) =
    match sel n i (Some s) with
    | Some c => Some (merge_node fm (match assoc n (lt_kids t) with Some x => x | None => LT 0 [] end) c
                                 (sel n i base))
    | None => None
    end.
  Proof.
    cbn [sel]. rewrite merge_node_kid.
    destruct (assoc n (ss_kids s)) as [c|]; auto.
    rewrite merge_node_incar. destruct (N.eqb (ss_incar c) i) eqn:E; auto.
    apply N.eqb_eq in E. now subst i.
  Qed.

  Lemma set_llcap_segs s l : ss_segs (set_llcap s l) = ss_segs s.
  Proof. destruct s; reflexivity. Qed.
  Lemma set_llcap_kids s l : ss_kids (set_llcap s l) = ss_kids s.
  Proof. destruct s; reflexivity. Qed.
  Lemma set_llcap_llcap s l : ss_llcap (set_llcap s l) = l.
  Proof. destruct s; reflexivity. Qed.

  Lemma append_footer_incar f s : fn_incar (append_footer f s) = ss_incar s.
  Proof. destruct s; reflexivity. Qed.

  Lemma append_footer_kid f s n :
    assoc n (fn_kids (append_footer f s)) =
    match assoc n (ss_kids s) with
    | Some c => Some (append_footer (fsel n (ss_incar c) f) c)
    | None => None
    end.
  Proof.
    destruct s as [a inc ll kids]. cbn [append_footer fn_kids ss_kids].
    induction kids as [|[n' c'] r IH]; [reflexivity|].
    cbn [assoc]. destruct (beqb n' n) eqn:E; auto.
    apply beqb_true in E. subst n'. f_equal.
    all: try f_equal. all: try (destruct f as [x|]; reflexivity).
  Qed.

  Lemma fsel_append_footer f s n i :
    fsel n i (Some (append_footer f s)) =
    match sel n i (Some s) with
    | Some c => Some (append_footer (fsel n i f) c)
    | None => None
    end.
  Proof.
    cbn [fsel sel]. rewrite append_footer_kid.
    destruct (assoc n (ss_kids s)) as [c|]; auto.
    rewrite append_footer_incar. destruct (N.eqb (ss_incar c) i) eqn:E; auto.
    apply N.eqb_eq in E. now subst i.
  Qed.

  Lemma compact_node_incar sp incl f s : fn_incar (compact_node fm sp incl f s) = ss_incar s.
  Proof. destruct s; reflexivity. Qed.

  Lemma compact_node_kid sp incl f s n :
    assoc n (fn_kids (compact_node fm sp incl f s)) =
    match assoc n (ss_kids s) with
    | Some c => Some (compact_node fm 0 incl (fsel n (ss_incar c) f) c)
    | None => None
    end.
  Proof.
    destruct s as [a inc ll kids]. cbn [compact_node fn_kids ss_kids].
    induction kids as [|[n' c'] r IH]; [reflexivity|].
    cbn [assoc]. destruct (beqb n' n) eqn:E; auto.
    apply beqb_true in E. subst n'. f_equal.
    all: try f_equal. all: try (destruct f as [x|]; reflexivity).
  Qed.

  Lemma fsel_compact_node sp incl f s n i :
    fsel n i (Some (compact_node fm sp incl f s)) =
    match sel n i (Some s) with
    | Some c => Some (compact_node fm 0 incl (fsel n i f) c)
    | None => None
    end.
  Proof.
    cbn [fsel sel]. rewrite compact_node_kid.
    destruct (assoc n (ss_kids s)) as [c|]; auto.
    rewrite compact_node_incar. destruct (N.eqb (ss_incar c) i) eqn:E; auto.
    apply N.eqb_eq in E. now subst i.
  Qed.

  (* compaction of a node keeps what it reads: at the root's splice point, and
     for the children (full range, the root's deletion flag) *)
  Lemma compact_node_view_gen sp incl f s k :
    incl = negb (Nat.eqb sp 0) \/ sp = 0 ->
    sget (fn_segs (compact_node fm sp incl f s)) no_below k = sget (ss_segs s) (fn_get fm f) k.
  Proof.
    intros [->| ->]; [apply compact_node_view|].
    destruct incl; [|apply (compact_node_view fm 0)].
    destruct s as [a inc ll kids]. cbn [compact_node fn_segs ss_segs].
    set (fs := match f with Some x => fn_segs x | None => [] end).
    rewrite Nat.sub_0_r, firstn_all, skipn_all.
    rewrite (merge_preserves_view fm _ (a ++ fs) [] no_below (merge_range_ok fm false (a ++ fs) [] no_below)).
    rewrite app_nil_r, sget_app. apply sget_ext. destruct f; reflexivity.
  Qed.
End OneLevel.

Lemma assoc_in_iff {A} n (l : list (cname * A)) : In n (map fst l) <-> assoc n l <> None.
Proof.
  split.
  - intros H E. apply assoc_none_iff in E. auto.
  - intros H. destruct (in_dec beqb_dec n (map fst l)); auto.
    exfalso. apply H. now apply assoc_none_iff.
Qed.

Lemma segs_osecs os : concat (map ss_segs (osecs os)) = concat (map osegs os).
Proof.
  unfold osecs. induction os as [|o os IH]; [reflexivity|].
  destruct o as [s|]; simpl; now rewrite IH.
Qed.

Lemma not_none_has_some {A} (o : option A) : o <> None <-> has_some o = true.
Proof. destruct o; simpl; split; congruence. Qed.

(* ---- refreshing the lower-level snapshots at hand-over --------------------- *)
Lemma refresh_llcap_segs m s ll : ss_segs (refresh_llcap m s ll) = ss_segs s.
Proof. destruct s; reflexivity. Qed.
Lemma refresh_llcap_incar m s ll : ss_incar (refresh_llcap m s ll) = ss_incar s.
Proof. destruct s; reflexivity. Qed.
Lemma refresh_llcap_llcap m s ll : ss_llcap (refresh_llcap m s ll) = ll.
Proof. destruct s; reflexivity. Qed.

Lemma refresh_llcap_kid m s ll n :
  assoc n (ss_kids (refresh_llcap m s ll)) =
  match assoc n (ss_kids s) with
  | Some ch => Some (match assoc n (cn_kids m) with
                     | Some cm => if N.eqb (cn_incar cm) (ss_incar ch)
                                  then refresh_llcap cm ch (child_ll ll n (cn_incar cm))
                                  else ch
                     | None => ch
                     end)
  | None => None
  end.
Proof.
  destruct s as [a inc l0 kids]. cbn [refresh_llcap ss_kids].
  induction kids as [|[n' c'] r IH]; [reflexivity|].
  cbn [assoc]. destruct (beqb n' n) eqn:E; auto.
  apply beqb_true in E. subst n'. reflexivity.
Qed.

Lemma sel_refresh m s ll n cm :
  assoc n (cn_kids m) = Some cm ->
  sel n (cn_incar cm) (Some (refresh_llcap m s ll)) =
  match sel n (cn_incar cm) (Some s) with
  | Some ch => Some (refresh_llcap cm ch (fsel n (cn_incar cm) ll))
  | None => None
  end.
Proof.
  intros Ea. cbn [sel]. rewrite refresh_llcap_kid, Ea.
  destruct (assoc n (ss_kids s)) as [ch|]; auto.
  rewrite (N.eqb_sym (cn_incar cm) (ss_incar ch)).
  destruct (N.eqb (ss_incar ch) (cn_incar cm)) eqn:E.
  - now rewrite refresh_llcap_incar, E.
  - now rewrite E.
Qed.

(* two stacks that differ in the captured lower-level snapshots only *)
Inductive LlEq : sstack -> sstack -> Prop :=
| LE s s' :
    ss_segs s = ss_segs s' -> ss_incar s = ss_incar s' ->
    (forall n, assoc n (ss_kids s) = None <-> assoc n (ss_kids s') = None) ->
    (forall n c c', assoc n (ss_kids s) = Some c -> assoc n (ss_kids s') = Some c' -> LlEq c c') ->
    LlEq s s'.

Definition LlEqO (o o' : option sstack) : Prop :=
  match o, o' with
  | None, None => True
  | Some s, Some s' => LlEq s s'
  | _, _ => False
  end.

Lemma LlEq_refl s : LlEq s s.
Proof.
  induction s as [a i l kids IH] using sstack_ind'.
  constructor; auto; try tauto.
  intros n c c' H1 H2. cbn [ss_kids] in *. rewrite H1 in H2. injection H2 as <-.
  apply assoc_some_in in H1. eauto.
Qed.

Lemma refresh_lleq s : forall m ll, LlEq s (refresh_llcap m s ll).
Proof.
  induction s as [a i l kids IH] using sstack_ind'. intros m ll.
  constructor.
  - now rewrite refresh_llcap_segs.
  - now rewrite refresh_llcap_incar.
  - intros n. rewrite refresh_llcap_kid. destruct (assoc n (ss_kids (SS a i l kids))); split; congruence.
  - intros n c c' H1 H2. rewrite refresh_llcap_kid, H1 in H2. injection H2 as <-.
    cbn [ss_kids] in H1. apply assoc_some_in in H1.
    destruct (assoc n (cn_kids m)) as [cm|]; [|apply LlEq_refl].
    destruct (N.eqb (cn_incar cm) (ss_incar c)); [|apply LlEq_refl].
    eapply IH; eauto.
Qed.

Lemma LlEqO_segs o o' : LlEqO o o' -> osegs o' = osegs o.
Proof.
  destruct o as [s|], o' as [s'|]; cbn; try tauto. inversion 1; subst; auto.
Qed.

Lemma LlEqO_none o o' : LlEqO o o' -> (o' = None <-> o = None).
Proof. destruct o, o'; cbn; intros H; split; try congruence; tauto. Qed.

Lemma LlEqO_sel o o' n i : LlEqO o o' -> LlEqO (sel n i o) (sel n i o').
Proof.
  destruct o as [s|], o' as [s'|]; cbn [LlEqO]; try tauto.
  intros H. inversion H as [s0 s0' Hs Hi Hn Hk]; subst. cbn [sel].
  specialize (Hn n). specialize (Hk n).
  destruct (assoc n (ss_kids s)) as [c|], (assoc n (ss_kids s')) as [c'|].
  - pose proof (Hk c c' eq_refl eq_refl) as Hc. inversion Hc as [c0 c0' _ Hi' _ _]; subst.
    rewrite <- Hi'. destruct (N.eqb (ss_incar c) i); cbn; auto.
  - destruct Hn as [_ Hn]. discriminate (Hn eq_refl).
  - destruct Hn as [Hn _]. discriminate (Hn eq_refl).
  - exact I.
Qed.

(* merge-freeness of a whole stack tree, one level *)
Lemma ss_has_merge_inv b :
  ss_has_merge b = false ->
  existsb seg_has_merge (ss_segs b) = false /\
  forall n c, assoc n (ss_kids b) = Some c -> ss_has_merge c = false.
Proof.
  destruct b as [a i ll kids]. cbn [ss_has_merge ss_segs ss_kids].
  intros H. apply orb_false_iff in H. destruct H as [H1 H2]. split; auto.
  clear H1. induction kids as [|[n' c'] r IH]; intros n c; cbn [assoc]; [discriminate|].
  apply orb_false_iff in H2. destruct H2 as [H2 H3].
  destruct (beqb n' n); [intros [= <-]; auto|]. apply IH; auto.
Qed.

(* ======================================================================= *)
(* F. the invariant of one live node, and of the tree of live nodes         *)
(* ======================================================================= *)
Section Inv.
  Variable fm : bytes -> value -> bytes -> value.
  Notation sget := (sget fm).
  Notation fn_get := (fn_get fm).
  Notation rt_get := (rt_get fm).

  (* lr:  the collection has a lower level;
     w:   the lower-level snapshots carried by base are known to be current;
     cap: the base stack the merger captured at ingest, while it is merging *)
  Record NodeLocal (lr w : bool) (cap : option (option sstack)) (m : cnode)
         (T M B C : option sstack) (L : option fnode) (r : rtree) : Prop := {
    nl_view : forall k, sget (osegs T ++ osegs M ++ osegs B) (fn_get L) k = rt_get r k;
    nl_clean : forall k, sget (osegs C) (fn_get L) k = fn_get L k;
    nl_cap : forall K ms, cap = Some K -> M = Some ms ->
                          forall k, node_below fm ms K k = sget (osegs B) (fn_get L) k;
    nl_bll : w = true -> forall b, B = Some b -> ss_llcap b = L;
    nl_nodup : NoDup (map fst (cn_kids m));
    nl_names : forall n, assoc n (cn_kids m) = None <-> assoc n (rt_kids r) = None;
    nl_kbound : forall n cm, assoc n (cn_kids m) = Some cm -> (cn_incar cm <= cn_highest m)%N;
    nl_bound : forall n i, (cn_highest m < i)%N ->
                           sel n i M = None /\ sel n i B = None /\ sel n i C = None /\ fsel n i L = None;
    nl_pa : B <> None -> forall n cm, assoc n (cn_kids m) = Some cm ->
                                      fsel n (cn_incar cm) L <> None -> sel n (cn_incar cm) B <> None;
    nl_pb : M <> None -> forall n cm, assoc n (cn_kids m) = Some cm ->
                                      sel n (cn_incar cm) B <> None \/ fsel n (cn_incar cm) L <> None ->
                                      sel n (cn_incar cm) M <> None;
    nl_nolr : lr = false -> B = None /\ C = None /\ L = None;
    nl_ment : lr = false -> forall n cm, assoc n (cn_kids m) = Some cm ->
                                         sel n (cn_incar cm) T <> None \/ sel n (cn_incar cm) M <> None
  }.

  Inductive NodeInv (lr : bool) : bool -> option (option sstack) -> cnode ->
                                  option sstack -> option sstack -> option sstack ->
                                  option sstack -> option fnode -> rtree -> Prop :=
  | NI w cap m T M B C L r :
      NodeLocal lr w cap m T M B C L r ->
      (forall n cm cr, assoc n (cn_kids m) = Some cm -> assoc n (rt_kids r) = Some cr ->
                       NodeInv lr w (option_map (sel n (cn_incar cm)) cap) cm
                               (sel n (cn_incar cm) T) (sel n (cn_incar cm) M)
                               (sel n (cn_incar cm) B) (sel n (cn_incar cm) C)
                               (fsel n (cn_incar cm) L) cr) ->
      NodeInv lr w cap m T M B C L r.

  Lemma NodeInv_local lr w cap m T M B C L r :
    NodeInv lr w cap m T M B C L r -> NodeLocal lr w cap m T M B C L r.
  Proof. now inversion 1. Qed.

  Lemma NodeInv_kid lr w cap m T M B C L r n cm cr :
    NodeInv lr w cap m T M B C L r ->
    assoc n (cn_kids m) = Some cm -> assoc n (rt_kids r) = Some cr ->
    NodeInv lr w (option_map (sel n (cn_incar cm)) cap) cm
            (sel n (cn_incar cm) T) (sel n (cn_incar cm) M)
            (sel n (cn_incar cm) B) (sel n (cn_incar cm) C) (fsel n (cn_incar cm) L) cr.
  Proof. inversion 1; subst; auto. Qed.

  (* what snapshot() assembles from a live node reads as the reference node *)
  Lemma snapshot_view lr w cap m T M B C L r :
    NodeLocal lr w cap m T M B C L r ->
    forall k, sget (osegs T ++ osegs M ++ osegs B ++ osegs C) (fn_get L) k = rt_get r k.
  Proof.
    intros HL k. rewrite <- (nl_view _ _ _ _ _ _ _ _ _ _ HL k).
    rewrite !app_assoc. rewrite sget_app. rewrite <- !app_assoc.
    apply sget_ext. apply (nl_clean _ _ _ _ _ _ _ _ _ _ HL).
  Qed.

  Lemma assemble_reads_as lr w cap m T M B C L r :
    NodeInv lr w cap m T M B C L r ->
    reads_as fm (assemble m (osecs [T; M; B; C]) L lr) r.
  Proof.
    induction 1 as [w cap m T M B C L r HL Hk IH].
    assert (Hkid : forall n, assoc n (ss_kids (assemble m (osecs [T; M; B; C]) L lr)) =
                             match assoc n (cn_kids m) with
                             | Some cm => Some (assemble cm (osecs [sel n (cn_incar cm) T; sel n (cn_incar cm) M;
                                                                    sel n (cn_incar cm) B; sel n (cn_incar cm) C])
                                                         (fsel n (cn_incar cm) L) lr)
                             | None => None end).
    { intros n. rewrite assemble_kid by apply (nl_nodup _ _ _ _ _ _ _ _ _ _ HL).
      destruct (assoc n (cn_kids m)) as [cm|] eqn:E; auto.
      assert (Hc : lr || existsb has_some (map (sel n (cn_incar cm)) [T; M; B; C]) = true).
      { destruct lr; auto. cbn [orb map existsb].
        destruct (nl_ment _ _ _ _ _ _ _ _ _ _ HL eq_refl n cm E) as [H1|H1];
          apply not_none_has_some in H1; rewrite H1; auto. apply orb_true_r. }
      rewrite Hc. reflexivity. }
    constructor.
    - intros k. unfold ss_get. rewrite assemble_segs, assemble_llcap, segs_osecs.
      cbn [map concat]. rewrite app_nil_r. apply (snapshot_view _ _ _ _ _ _ _ _ _ _ HL).
    - intros n. rewrite !assoc_in_iff. rewrite Hkid.
      pose proof (nl_names _ _ _ _ _ _ _ _ _ _ HL n) as Hn.
      destruct (assoc n (cn_kids m)); split; intros H1 H2; try congruence.
      + apply Hn in H2. discriminate.
      + apply H1. now apply Hn.
    - intros n cs cr Hs Hr. rewrite Hkid in Hs.
      destruct (assoc n (cn_kids m)) as [cm|] eqn:E; [|discriminate].
      injection Hs as <-. eapply IH; eauto.
  Qed.

  (* forgetting what is tracked *)
  Lemma weaken_inv lr w cap m T M B C L r :
    NodeInv lr w cap m T M B C L r -> NodeInv lr false cap m T M B None L r.
  Proof.
    induction 1 as [w cap m T M B C L r HL Hk IH].
    constructor.
    - destruct HL as [Hv Hc Hcap Hbll Hnd' Hnm Hkb Hb Hpa Hpb Hno Hme].
      constructor; auto; try discriminate.
      + intros n i Hi. destruct (Hb n i Hi) as (H1 & H2 & H3 & H4). auto.
      + intros Hlr. destruct (Hno Hlr) as (H1 & H2 & H3). auto.
    - intros n cm cr Ea Er. apply (IH n cm cr Ea Er).
  Qed.

  Lemma drop_cap lr w cap m T M B C L r :
    NodeInv lr w cap m T M B C L r -> NodeInv lr w None m T M B C L r.
  Proof.
    induction 1 as [w cap m T M B C L r HL Hk IH].
    constructor.
    - destruct HL as [Hv Hc Hcap Hbll Hnd' Hnm Hkb Hb Hpa Hpb Hno Hme].
      constructor; auto; discriminate.
    - intros n cm cr Ea Er. apply (IH n cm cr Ea Er).
  Qed.
End Inv.

(* ======================================================================= *)
(* H. the merger's steps                                                    *)
(* ======================================================================= *)
Lemma sel_assemble m os L lr n cm :
  NoDup (map fst (cn_kids m)) -> assoc n (cn_kids m) = Some cm ->
  sel n (cn_incar cm) (Some (assemble m (osecs os) L lr)) =
  if lr || existsb has_some (map (sel n (cn_incar cm)) os)
  then Some (assemble cm (osecs (map (sel n (cn_incar cm)) os)) (fsel n (cn_incar cm) L) lr)
  else None.
Proof.
  intros Hnd E. cbn [sel]. rewrite assemble_kid by auto. rewrite E.
  destruct (lr || existsb has_some (map (sel n (cn_incar cm)) os)); auto.
  now rewrite assemble_incar, N.eqb_refl.
Qed.

Lemma sel_assemble_incar m os L lr n i c :
  NoDup (map fst (cn_kids m)) ->
  sel n i (Some (assemble m (osecs os) L lr)) = Some c ->
  exists cm, assoc n (cn_kids m) = Some cm /\ i = cn_incar cm.
Proof.
  intros Hnd H. apply sel_some in H. destruct H as [Hi Ha]. cbn [okids] in Ha.
  rewrite assemble_kid in Ha by auto.
  destruct (assoc n (cn_kids m)) as [cm|]; [|discriminate].
  exists cm. split; auto.
  destruct (lr || _); [|discriminate]. injection Ha as <-.
  now rewrite assemble_incar in Hi.
Qed.

Section MergerSteps.
  Variable fm : bytes -> value -> bytes -> value.
  Notation sget := (sget fm).
  Notation fn_get := (fn_get fm).
  Notation NodeInv := (NodeInv fm).
  Notation NodeLocal := (NodeLocal fm).

  (* with nothing in mid, what the merger captured does not matter *)
  Lemma recap_none lr w cap m T M B C L r :
    NodeInv lr w cap m T M B C L r -> M = None -> forall cap', NodeInv lr w cap' m T None B C L r.
  Proof.
    induction 1 as [w cap m T M B C L r HL Hk IH]. intros -> cap'.
    constructor.
    - destruct HL as [Hv Hc Hcap Hbll Hnd' Hnm Hkb Hb Hpa Hpb Hno Hme].
      constructor; auto; discriminate.
    - intros n cm cr Ea Er. apply (IH n cm cr Ea Er). reflexivity.
  Qed.

  (* ---- ingest ------------------------------------------------------------ *)
  Definition ing_rel (lr : bool) (m : cnode) (T M : option sstack) (L : option fnode)
             (M' : option sstack) : Prop :=
    M' = Some (assemble m (osecs [T; M]) L lr) \/ (M' = None /\ T = None /\ M = None).

  Lemma ingest_inv lr w cap m T M B C L r :
    NodeInv lr w cap m T M B C L r -> w = true ->
    forall M', ing_rel lr m T M L M' -> NodeInv lr true (Some B) m None M' B C L r.
  Proof.
    induction 1 as [w cap m T M B C L r HL Hk IH]. intros -> M' [->|(-> & -> & ->)].
    2:{ apply (recap_none lr true cap m None None B C L r); auto. constructor; auto. }
    pose proof (nl_nodup _ _ _ _ _ _ _ _ _ _ _ HL) as Hnd.
    assert (Hsegs : osegs (Some (assemble m (osecs [T; M]) L lr)) = osegs T ++ osegs M).
    { cbn [osegs]. rewrite assemble_segs, segs_osecs. cbn [map concat]. now rewrite app_nil_r. }
    constructor.
    - destruct HL as [Hv Hc Hcap Hbll Hnd' Hnm Hkb Hb Hpa Hpb Hno Hme].
      constructor; auto.
      + intros k. rewrite Hsegs. cbn [osegs app]. rewrite <- app_assoc. apply Hv.
      + intros K ms [= <-] [= <-] k. unfold node_below.
        destruct B as [b|].
        * cbn [osegs]. now rewrite (Hbll eq_refl b eq_refl).
        * now rewrite assemble_llcap.
      + intros n i Hi. destruct (Hb n i Hi) as (H1 & H2 & H3 & H4). repeat split; auto.
        destruct (sel n i (Some (assemble m (osecs [T; M]) L lr))) as [c|] eqn:Es; auto.
        apply sel_assemble_incar in Es; auto. destruct Es as (cm & Ea & ->).
        pose proof (Hkb n cm Ea). lia.
      + intros _ n cm Ea Hor. rewrite sel_assemble by auto.
        destruct lr; [discriminate|]. destruct (Hno eq_refl) as (-> & _ & ->).
        destruct Hor as [Hor|Hor]; exfalso; apply Hor; reflexivity.
      + intros Hlr n cm Ea. right. rewrite sel_assemble by auto. subst lr. cbn [orb map existsb].
        destruct (Hme eq_refl n cm Ea) as [H1|H1]; apply not_none_has_some in H1; rewrite H1;
          cbn [orb]; try rewrite orb_true_r; discriminate.
    - intros n cm cr Ea Er. cbn [option_map]. apply (IH n cm cr Ea Er); auto.
      rewrite sel_assemble by auto. cbn [map].
      destruct (lr || existsb has_some [sel n (cn_incar cm) T; sel n (cn_incar cm) M]) eqn:Ec.
      + left. reflexivity.
      + right. apply orb_false_iff in Ec. destruct Ec as [_ Ec]. cbn [existsb] in Ec.
        apply orb_false_iff in Ec. destruct Ec as [E1 Ec]. apply orb_false_iff in Ec.
        destruct Ec as [E2 _].
        destruct (sel n (cn_incar cm) T); [discriminate|].
        destruct (sel n (cn_incar cm) M); [discriminate|]. auto.
  Qed.

  (* ---- swap ---------------------------------------------------------------- *)
  Definition mrel (M M' K : option sstack) : Prop :=
    (M = None /\ M' = None) \/
    exists ms t, M = Some ms /\ M' = Some (merge_node fm t ms K).

  Lemma merge_node_view_over t ms bc below :
    (forall k, node_below fm ms bc k = below k) ->
    forall k, sget (ss_segs (merge_node fm t ms bc)) below k = sget (ss_segs ms) below k.
  Proof.
    intros H k. destruct (merge_node_segs fm t ms bc) as [lvl ->].
    rewrite (merge_stack_ext fm lvl _ _ below H). apply merge_stack_view.
  Qed.

  Lemma swap_inv lr w cap m T M B C L r :
    NodeInv lr w cap m T M B C L r ->
    forall K M', cap = Some K -> mrel M M' K -> NodeInv lr w None m T M' B C L r.
  Proof.
    induction 1 as [w cap m T M B C L r HL Hk IH].
    intros K M' -> [(-> & ->)|(ms & t & -> & ->)].
    { apply (recap_none lr w (Some K) m T None B C L r); auto. constructor; auto. }
    constructor.
    - destruct HL as [Hv Hc Hcap Hbll Hnd' Hnm Hkb Hb Hpa Hpb Hno Hme].
      assert (Hsel : forall n i, sel n i (Some ms) = None <->
                                 sel n i (Some (merge_node fm t ms K)) = None).
      { intros n i. rewrite sel_merge_node. destruct (sel n i (Some ms)); split; congruence. }
      constructor; auto; try discriminate.
      + intros k. rewrite <- (Hv k). rewrite !(sget_app fm (osegs T)). apply sget_ext.
        rewrite !sget_app. cbn [osegs]. apply merge_node_view_over.
        intros k'. apply (Hcap K ms eq_refl eq_refl).
      + intros n i Hi. destruct (Hb n i Hi) as (H1 & H2 & H3 & H4). repeat split; auto.
        now apply Hsel.
      + intros _ n cm Ea Hor. intros Hn. apply Hsel in Hn. revert Hn.
        apply Hpb; auto. discriminate.
      + intros Hlr n cm Ea. destruct (Hme Hlr n cm Ea) as [H1|H1]; auto.
        right. intros Hn. apply Hsel in Hn. auto.
    - intros n cm cr Ea Er. cbn [option_map].
      apply (IH n cm cr Ea Er (sel n (cn_incar cm) K)); [reflexivity|].
      rewrite sel_merge_node.
      destruct (sel n (cn_incar cm) (Some ms)) as [c|]; [|left; auto].
      right. do 2 eexists. split; reflexivity.
  Qed.

  (* ---- hand-over ----------------------------------------------------------- *)
  Lemma handover_inv lr w m T M B C L r :
    NodeInv lr w None m T M B C L r -> B = None -> lr = true ->
    forall B', LlEqO M B' -> NodeInv lr false None m T None B' C L r.
  Proof.
    remember (@None (option sstack)) as cap eqn:Ecap.
    induction 1 as [w cap m T M B C L r HL Hk IH]. intros -> Hlr B' Hh. subst cap.
    constructor.
    - destruct HL as [Hv Hc Hcap Hbll Hnd' Hnm Hkb Hb Hpa Hpb Hno Hme].
      assert (Hsel : forall n i, sel n i B' = None <-> sel n i M = None).
      { intros n i. apply LlEqO_none. now apply LlEqO_sel. }
      constructor; auto; try discriminate; try congruence.
      + intros k. rewrite <- (Hv k). rewrite (LlEqO_segs _ _ Hh). cbn [osegs].
        now rewrite !app_nil_r.
      + intros n i Hi. destruct (Hb n i Hi) as (H1 & H2 & H3 & H4). repeat split; auto.
        now apply Hsel.
      + intros Hn n cm Ea Hf. intros Hs. apply Hsel in Hs. revert Hs.
        apply Hpb; auto. intros HM. apply Hn. now apply (LlEqO_none _ _ Hh).
    - intros n cm cr Ea Er. cbn [option_map]. apply (IH n cm cr Ea Er); auto.
      now apply LlEqO_sel.
  Qed.

  Lemma bll_upgrade lr w cap m T M B C L r :
    NodeInv lr w cap m T M B C L r ->
    (B = None \/ exists b, B = Some (refresh_llcap m b L)) ->
    NodeInv lr true cap m T M B C L r.
  Proof.
    induction 1 as [w cap m T M B C L r HL Hk IH]. intros HB.
    constructor.
    - destruct HL as [Hv Hc Hcap Hbll Hnd' Hnm Hkb Hb Hpa Hpb Hno Hme].
      constructor; auto.
      intros _ b Eb. destruct HB as [->|(b0 & ->)]; [discriminate|].
      injection Eb as <-. apply refresh_llcap_llcap.
    - intros n cm cr Ea Er. apply (IH n cm cr Ea Er).
      destruct HB as [->|(b0 & ->)]; [left; reflexivity|].
      rewrite (sel_refresh m b0 L n cm Ea).
      destruct (sel n (cn_incar cm) (Some b0)) as [ch|]; [right; eauto|left; auto].
  Qed.
End MergerSteps.

(* ======================================================================= *)
(* I. the persister's publication                                           *)
(* ======================================================================= *)
Lemma ss_is_empty_inv b :
  ss_is_empty b = true ->
  ss_segs b = [] /\ forall n c, assoc n (ss_kids b) = Some c -> ss_is_empty c = true.
Proof.
  destruct b as [a i ll kids]. cbn [ss_is_empty ss_segs ss_kids].
  intros H. apply andb_true_iff in H. destruct H as [H1 H2]. split.
  - apply Nat.eqb_eq in H1. now destruct a.
  - clear H1. induction kids as [|[n' c'] r IH]; intros n c; cbn [assoc]; [discriminate|].
    apply andb_true_iff in H2. destruct H2 as [H2 H3].
    destruct (beqb n' n); [intros [= <-]; auto|]. apply IH; auto.
Qed.

Definition hered_empty (B : option sstack) : Prop :=
  match B with Some b => ss_is_empty b = true | None => True end.
Definition hered_mf (B : option sstack) : Prop :=
  match B with Some b => ss_has_merge b = false | None => True end.

Lemma hered_empty_sel B n i : hered_empty B -> hered_empty (sel n i B).
Proof.
  destruct B as [b|]; [|intros _; exact I]. intros He.
  destruct (sel n i (Some b)) as [c|] eqn:Es; [|exact I].
  apply sel_some in Es. destruct Es as [_ Es].
  apply ss_is_empty_inv in He. destruct He as [_ He]. eapply He; eauto.
Qed.
Lemma hered_mf_sel B n i : hered_mf B -> hered_mf (sel n i B).
Proof.
  destruct B as [b|]; [|intros _; exact I]. intros He.
  destruct (sel n i (Some b)) as [c|] eqn:Es; [|exact I].
  apply sel_some in Es. destruct Es as [_ Es].
  apply ss_has_merge_inv in He. destruct He as [_ He]. eapply He; eauto.
Qed.
Lemma hered_empty_segs B : hered_empty B -> osegs B = [].
Proof. destruct B as [b|]; auto. intros He. apply ss_is_empty_inv in He. apply He. Qed.
Lemma hered_mf_segs B : hered_mf B -> mf_stack (osegs B).
Proof.
  destruct B as [b|]; [|intros _ s []]. intros He. apply ss_has_merge_inv in He.
  apply mf_stack_existsb. apply He.
Qed.

Section Publish.
  Variable fm : bytes -> value -> bytes -> value.
  Notation sget := (sget fm).
  Notation fn_get := (fn_get fm).
  Notation NodeInv := (NodeInv fm).
  Notation NodeLocal := (NodeLocal fm).

  (* the new lower level reads, node by node, as the handed-down stack over the
     old lower level, and has exactly the stack's children *)
  Inductive PubRel : option sstack -> option fnode -> option fnode -> Prop :=
  | PR_none : PubRel None None None
  | PR_some b L L' :
      (forall k, fn_get L' k = sget (ss_segs b) (fn_get L) k) ->
      (forall n i, sel n i (Some b) = None -> fsel n i L' = None) ->
      (forall n i c, sel n i (Some b) = Some c -> PubRel (Some c) (fsel n i L) (fsel n i L')) ->
      PubRel (Some b) L L'.

  Lemma pubrel_append b : forall L, PubRel (Some b) L (Some (append_footer L b)).
  Proof.
    induction b as [a i ll kids IH] using sstack_ind'. intros L.
    constructor.
    - intros k. cbn [Tree.fn_get]. apply append_footer_view.
    - intros n j H. rewrite fsel_append_footer. now rewrite H.
    - intros n j c H. rewrite fsel_append_footer, H.
      apply sel_some in H. destruct H as [_ H]. cbn [okids ss_kids] in H.
      apply assoc_some_in in H. eapply IH; eauto.
  Qed.

  Lemma pubrel_compact b : forall sp incl L,
      incl = negb (Nat.eqb sp 0) \/ sp = 0 ->
      PubRel (Some b) L (Some (compact_node fm sp incl L b)).
  Proof.
    induction b as [a i ll kids IH] using sstack_ind'. intros sp incl L Hsp.
    constructor.
    - intros k. cbn [Tree.fn_get]. now apply compact_node_view_gen.
    - intros n j H. rewrite fsel_compact_node. now rewrite H.
    - intros n j c H. rewrite fsel_compact_node, H.
      apply sel_some in H. destruct H as [_ H]. cbn [okids ss_kids] in H.
      apply assoc_some_in in H. eapply IH; eauto.
  Qed.

  Lemma pubrel_view B L L' : PubRel B L L' -> forall k, fn_get L' k = sget (osegs B) (fn_get L) k.
  Proof. inversion 1; subst; auto. Qed.

  Lemma publish_inv lr w cap m T M B C L r :
    NodeInv lr w cap m T M B C L r ->
    forall L' (keep : bool),
      PubRel B L L' -> (keep = true -> hered_mf B) ->
      NodeInv lr w cap m T M None (if keep then B else None) L' r.
  Proof.
    induction 1 as [w cap m T M B C L r HL Hk IH]. intros L' keep HP Hkeep.
    pose proof (pubrel_view _ _ _ HP) as Hp.
    assert (Hsel : forall n cm, assoc n (cn_kids m) = Some cm ->
                     PubRel (sel n (cn_incar cm) B) (fsel n (cn_incar cm) L) (fsel n (cn_incar cm) L')).
    { intros n cm Ea. inversion HP as [|b L0 L0' _ Hnone Hsome]; subst; [constructor|].
      destruct (sel n (cn_incar cm) (Some b)) as [c|] eqn:Es; [eapply Hsome; eauto|].
      rewrite (Hnone _ _ Es).
      destruct (fsel n (cn_incar cm) L) eqn:Ef; [|constructor].
      exfalso. apply (nl_pa _ _ _ _ _ _ _ _ _ _ _ HL) with (n := n) (cm := cm); auto; congruence. }
    assert (Hnone' : forall n i, sel n i B = None -> fsel n i L = None -> fsel n i L' = None).
    { intros n i H1 H2. inversion HP as [|b L0 L0' _ Hnone Hsome]; subst; auto. }
    constructor.
    - destruct HL as [Hv Hc Hcap Hbll Hnd' Hnm Hkb Hb Hpa Hpb Hno Hme].
      constructor; auto; try discriminate.
      + intros k. rewrite <- (Hv k). cbn [osegs]. rewrite app_nil_r.
        rewrite (app_assoc (osegs T)). rewrite (sget_app fm (osegs T ++ osegs M) (osegs B)).
        apply sget_ext. apply Hp.
      + intros k. destruct keep; [|reflexivity].
        rewrite (sget_ext fm (osegs B) (fn_get L') (sget (osegs B) (fn_get L)) k (Hp k)).
        rewrite Hp. apply sget_idem_mf. apply hered_mf_segs; auto.
      + intros K ms EK EM k. rewrite (Hcap K ms EK EM k). cbn [osegs]. symmetry. apply Hp.
      + intros n i Hi. destruct (Hb n i Hi) as (H1 & H2 & H3 & H4). repeat split; auto.
        destruct keep; auto.
      + intros HM n cm Ea [Hor|Hor]; [exfalso; apply Hor; reflexivity|].
        apply Hpb; auto.
        destruct (sel n (cn_incar cm) B) eqn:Es; [left; discriminate|].
        destruct (fsel n (cn_incar cm) L) eqn:Ef; [right; discriminate|].
        exfalso. apply Hor. apply Hnone'; auto.
      + intros Hlr. destruct (Hno Hlr) as (-> & _ & ->).
        inversion HP; subst. destruct keep; auto.
    - intros n cm cr Ea Er. specialize (IH n cm cr Ea Er (fsel n (cn_incar cm) L') keep).
      assert (E : (if keep then sel n (cn_incar cm) B else None)
                  = sel n (cn_incar cm) (if keep then B else None)) by (destruct keep; auto).
      rewrite <- E. apply IH; auto.
      intros Hkp. apply hered_mf_sel; auto.
  Qed.

  Lemma noop_inv lr w cap m T M B C L r :
    NodeInv lr w cap m T M B C L r -> hered_empty B ->
    forall keep : bool, NodeInv lr w cap m T M None (if keep then B else None) L r.
  Proof.
    induction 1 as [w cap m T M B C L r HL Hk IH]. intros He keep.
    pose proof (hered_empty_segs _ He) as Hs.
    constructor.
    - destruct HL as [Hv Hc Hcap Hbll Hnd' Hnm Hkb Hb Hpa Hpb Hno Hme].
      constructor; auto; try discriminate.
      + intros k. rewrite <- (Hv k). rewrite Hs. reflexivity.
      + intros k. destruct keep; [rewrite Hs|]; reflexivity.
      + intros K ms EK EM k. rewrite (Hcap K ms EK EM k). now rewrite Hs.
      + intros n i Hi. destruct (Hb n i Hi) as (H1 & H2 & H3 & H4). repeat split; auto.
        destruct keep; auto.
      + intros HM n cm Ea [Hor|Hor]; [exfalso; apply Hor; reflexivity|].
        apply Hpb; auto.
      + intros Hlr. destruct (Hno Hlr) as (-> & _ & ->). destruct keep; auto.
    - intros n cm cr Ea Er.
      assert (E : (if keep then sel n (cn_incar cm) B else None)
                  = sel n (cn_incar cm) (if keep then B else None)) by (destruct keep; auto).
      rewrite <- E. apply (IH n cm cr Ea Er). now apply hered_empty_sel.
  Qed.
End Publish.

(* ======================================================================= *)
(* J. ExecuteBatch                                                          *)
(* ======================================================================= *)
Definition batch_hyp (b : tbatch) : Prop := tb_ok b = true /\ tb_distinct b = true.

Lemma tb_ok_inv ops bkids :
  tb_ok (TB ops bkids) = true ->
  NoDup (keys ops) /\ forall n cb, In (n, Some cb) bkids -> tb_ok cb = true.
Proof.
  cbn [tb_ok]. intros H. apply andb_true_iff in H. destruct H as [H1 H2].
  split; [now apply uniq_keys_NoDup|].
  induction bkids as [|[n' o] r IH]; intros n cb Hin; [destruct Hin|].
  destruct o as [c|].
  - apply andb_true_iff in H2. destruct H2 as [H2 H3].
    destruct Hin as [E|Hin]; [congruence|eauto].
  - destruct Hin as [E|Hin]; [discriminate|eauto].
Qed.

Lemma tb_distinct_inv ops bkids :
  tb_distinct (TB ops bkids) = true ->
  NoDup (map fst bkids) /\ forall n cb, In (n, Some cb) bkids -> tb_distinct cb = true.
Proof.
  cbn [tb_distinct]. intros H. apply andb_true_iff in H. destruct H as [H1 H2].
  split; [now apply uniq_keys_NoDup|].
  induction bkids as [|[n' o] r IH]; intros n cb Hin; [destruct Hin|].
  simpl in H1. apply andb_true_iff in H1. destruct H1 as [_ H1].
  destruct o as [c|].
  - apply andb_true_iff in H2. destruct H2 as [H2 H3].
    destruct Hin as [E|Hin]; [congruence|eauto].
  - destruct Hin as [E|Hin]; [discriminate|eauto].
Qed.

Lemma batch_hyp_inv ops bkids :
  batch_hyp (TB ops bkids) ->
  NoDup (keys ops) /\ NoDup (map fst bkids) /\
  forall n cb, In (n, Some cb) bkids -> batch_hyp cb.
Proof.
  intros (H1 & H2).
  apply tb_ok_inv in H1. destruct H1 as [H1 H1'].
  apply tb_distinct_inv in H2. destruct H2 as [H2 H2'].
  repeat split; eauto.
Qed.

Lemma build_top_unfold' m ops bkids T :
  build_top m (TB ops bkids) T =
  let '(hi, mkids, rvkids) := bt_go build_top (okids T) bkids (cn_highest m, cn_kids m, []) in
  (CN (cn_incar m) hi mkids,
   SS (batch_segs ops ++ osegs T) (cn_incar m) None (bt_cp mkids (okids T) rvkids)).
Proof. reflexivity. Qed.

Lemma build_top_incar m b T :
  cn_incar (fst (build_top m b T)) = cn_incar m /\ ss_incar (snd (build_top m b T)) = cn_incar m.
Proof.
  destruct b as [ops bkids]. rewrite build_top_unfold'.
  destruct (bt_go build_top (okids T) bkids (cn_highest m, cn_kids m, [])) as [[hi mk] rv].
  split; reflexivity.
Qed.

Lemma top_kid m t n c :
  TopOk m t -> assoc n (ss_kids t) = Some c ->
  exists cm, assoc n (cn_kids m) = Some cm /\ TopOk cm c.
Proof.
  intros Ht Ha. inversion Ht as [m0 s0 Hi Hnd Hex Hrec]; subst.
  apply assoc_some_in in Ha.
  destruct (assoc n (cn_kids m)) as [cm|] eqn:E.
  - exists cm. split; auto. eapply Hrec; eauto.
  - exfalso. eapply Hex; eauto.
Qed.

Lemma sel_top m T n cm :
  (forall t, T = Some t -> TopOk m t) -> assoc n (cn_kids m) = Some cm ->
  sel n (cn_incar cm) T = assoc n (okids T).
Proof.
  intros Ht Ea. destruct T as [t|]; [|reflexivity]. cbn [sel okids].
  destruct (assoc n (ss_kids t)) as [c|] eqn:E; auto.
  destruct (top_kid m t n c (Ht t eq_refl) E) as (cm' & Ea' & Hc).
  assert (cm' = cm) by congruence. subst cm'.
  now rewrite (TopOk_incar _ _ Hc), N.eqb_refl.
Qed.

Lemma top_none m T n :
  (forall t, T = Some t -> TopOk m t) -> assoc n (cn_kids m) = None -> assoc n (okids T) = None.
Proof.
  intros Ht Ea. destruct T as [t|]; [|reflexivity]. cbn [okids].
  destruct (assoc n (ss_kids t)) as [c|] eqn:E; auto.
  destruct (top_kid m t n c (Ht t eq_refl) E) as (cm' & Ea' & Hc). congruence.
Qed.

Section BatchMain.
  Variable fm : bytes -> value -> bytes -> value.
  Notation sget := (sget fm).
  Notation fn_get := (fn_get fm).
  Notation NodeInv := (NodeInv fm).
  Notation NodeLocal := (NodeLocal fm).

  Lemma NodeInv_empty lr w cap f :
    NodeInv lr w cap (CN f f []) None None None None None (RT [] []).
  Proof.
    constructor.
    - constructor; cbn; auto; try tauto; try (intros; discriminate).
      constructor.
    - intros; discriminate.
  Qed.

  Lemma sget_batch_segs ops st below k :
    NoDup (keys ops) ->
    sget (batch_segs ops ++ st) below k =
    match find ops k with Some o => apply_op fm k (sget st below k) o | None => sget st below k end.
  Proof.
    intros H. destruct ops as [|e r]; [reflexivity|].
    cbn [batch_segs app Stack.sget]. now rewrite find_sort_seg by auto.
  Qed.

  Definition kid_src (m : cnode) (hi' : N) (n : cname) (child : cnode) : Prop :=
    assoc n (cn_kids m) = Some child \/
    (assoc n (cn_kids m) = None /\ exists f, (cn_highest m < f <= hi')%N /\ child = CN f f []).

  Lemma batch_inv b : forall lr w cap m T M B C L r,
      batch_hyp b -> NodeInv lr w cap m T M B C L r -> (forall t, T = Some t -> TopOk m t) ->
      NodeInv lr w cap (fst (build_top m b T)) (Some (snd (build_top m b T))) M B C L (rt_apply r b) /\
      TopOk (fst (build_top m b T)) (snd (build_top m b T)).
  Proof.
    induction b as [ops bkids IH] using tbatch_ind'. intros lr w cap m T M B C L r Hb HN HT.
    destruct (batch_hyp_inv _ _ Hb) as (Hops & Hnd & Hkids).
    pose proof (NodeInv_local _ _ _ _ _ _ _ _ _ _ _ HN) as HL.
    destruct HL as [Hv Hc Hcap Hbll Hndm Hnm Hkb Hbd Hpa Hpb Hno Hme].
    rewrite build_top_unfold', rt_apply_unfold.
    destruct (bt_go build_top (okids T) bkids (cn_highest m, cn_kids m, [])) as [[hi' mk'] rv] eqn:Ego.
    cbn [fst snd].
    destruct (bt_go_spec build_top (okids T) bkids Hnd _ _ _ _ _ _ Ego) as (Hhi & Hmknd & Hrvnd & Hspec).
    specialize (Hmknd Hndm). specialize (Hrvnd (NoDup_nil _)).
    pose proof (ra_go_spec rt_apply bkids Hnd (rt_kids r)) as Hra.
    set (rk' := ra_go rt_apply bkids (rt_kids r)) in *.
    set (rv' := bt_cp mk' (okids T) rv).
    assert (Hchild : forall n cb child, In (n, Some cb) bkids -> kid_src m hi' n child ->
      NodeInv lr w (option_map (sel n (cn_incar child)) cap)
              (fst (build_top child cb (assoc n (okids T))))
              (Some (snd (build_top child cb (assoc n (okids T)))))
              (sel n (cn_incar child) M) (sel n (cn_incar child) B) (sel n (cn_incar child) C)
              (fsel n (cn_incar child) L)
              (rt_apply (match assoc n (rt_kids r) with Some x => x | None => RT [] [] end) cb) /\
      TopOk (fst (build_top child cb (assoc n (okids T)))) (snd (build_top child cb (assoc n (okids T))))).
    { intros n cb child Hin Hch. apply (IH n cb Hin); [apply (Hkids n cb Hin)| |].
      - destruct Hch as [Hch|(Hch & f & Hf & ->)].
        + destruct (assoc n (rt_kids r)) as [cr|] eqn:Er; [|apply Hnm in Er; congruence].
          rewrite <- (sel_top m T n child HT Hch). eapply NodeInv_kid; eauto.
        + assert (assoc n (rt_kids r) = None) as -> by (now apply Hnm).
          rewrite (top_none m T n HT Hch). cbn [cn_incar].
          assert (Hf' : (cn_highest m < f)%N) by lia.
          destruct (Hbd n f Hf') as (-> & -> & -> & ->). apply NodeInv_empty.
      - intros t Et. destruct Hch as [Hch|(Hch & f & Hf & ->)].
        + destruct T as [t0|]; [|discriminate]. cbn [okids] in Et.
          destruct (top_kid m t0 n t (HT t0 eq_refl) Et) as (cm' & E1 & E2). congruence.
        + rewrite (top_none m T n HT Hch) in Et. discriminate. }
    assert (Hcase : forall n,
      (assoc n bkids = None /\ assoc n mk' = assoc n (cn_kids m) /\ assoc n rv = None /\
       assoc n rk' = assoc n (rt_kids r)) \/
      (assoc n bkids = Some None /\ assoc n mk' = None /\ assoc n rv = None /\ assoc n rk' = None) \/
      (exists cb child, In (n, Some cb) bkids /\ kid_src m hi' n child /\
         assoc n mk' = Some (fst (build_top child cb (assoc n (okids T)))) /\
         assoc n rv = Some (snd (build_top child cb (assoc n (okids T)))) /\
         assoc n rk' = Some (rt_apply (match assoc n (rt_kids r) with Some x => x | None => RT [] [] end) cb))).
    { intros n. specialize (Hspec n). specialize (Hra n).
      destruct (assoc n bkids) as [[cb|]|] eqn:Eb.
      - right; right. destruct Hspec as (child & Hch & H1 & H2). exists cb, child.
        split; [apply assoc_some_in; auto|]. split; [exact Hch|]. auto.
      - right; left. destruct Hspec as [H1 H2]. cbn [assoc] in H2. auto.
      - left. destruct Hspec as [H1 H2]. cbn [assoc] in H2. auto. }
    assert (Hincar : forall child cb X, cn_incar (fst (build_top child cb X)) = cn_incar child /\
                                        ss_incar (snd (build_top child cb X)) = cn_incar child)
      by (intros; apply build_top_incar).
    assert (Hrv' : forall n, assoc n rv' =
                             match assoc n rv with
                             | Some x => Some x
                             | None => match assoc n mk' with
                                       | Some cm => option_map (prune cm) (assoc n (okids T))
                                       | None => None end
                             end).
    { intros n. apply bt_cp_assoc. intros cm c Ea Hin.
      destruct T as [t|]; [|destruct Hin]. cbn [okids] in Hin.
      pose proof (HT t eq_refl) as Ht. inversion Ht as [m0 s0 Hi0 Hnd0 Hex0 Hrec0]; subst.
      pose proof (in_assoc_nodup _ _ _ Hnd0 Hin) as Hc0.
      destruct (top_kid m t n c Ht Hc0) as (cm0 & E0 & Hc1).
      rewrite (TopOk_incar _ _ Hc1).
      destruct (Hcase n) as [(_ & H1 & _)|[(_ & H1 & _)|(cb & child & _ & Hsrc & H1 & _)]].
      - congruence.
      - congruence.
      - destruct Hsrc as [Hsrc|(Hsrc & _)]; [|congruence].
        assert (child = cm0) by congruence. subst child.
        rewrite H1 in Ea. injection Ea as <-. symmetry. apply Hincar. }
    set (t' := SS (batch_segs ops ++ osegs T) (cn_incar m) None rv').
    assert (HselT1 : forall n cm, assoc n bkids = None -> assoc n (cn_kids m) = Some cm ->
                                  sel n (cn_incar cm) (Some t') = sel n (cn_incar cm) T).
    { intros n cm Eb Ea. rewrite (sel_top m T n cm HT Ea).
      cbn [sel t' ss_kids]. rewrite Hrv'.
      destruct (Hcase n) as [(_ & H1 & H2 & _)|[(H0 & _)|(cb & child & Hin & _)]].
      - rewrite H2, H1, Ea.
        destruct (assoc n (okids T)) as [c|] eqn:Ec; [|reflexivity]. cbn [option_map].
        destruct T as [t|]; [|discriminate]. cbn [okids] in Ec.
        destruct (top_kid m t n c (HT t eq_refl) Ec) as (cm0 & E0 & Hc1).
        assert (cm0 = cm) by congruence. subst cm0.
        rewrite (prune_id _ _ Hc1). now rewrite (TopOk_incar _ _ Hc1), N.eqb_refl.
      - congruence.
      - apply (in_assoc_nodup _ _ _ Hnd) in Hin. congruence. }
    assert (HselT3 : forall n cb child, In (n, Some cb) bkids ->
                assoc n rv = Some (snd (build_top child cb (assoc n (okids T)))) ->
                sel n (cn_incar child) (Some t') = Some (snd (build_top child cb (assoc n (okids T))))).
    { intros n cb child Hin H2. cbn [sel t' ss_kids]. rewrite Hrv', H2.
      destruct (Hincar child cb (assoc n (okids T))) as [_ ->]. now rewrite N.eqb_refl. }
    split.
    - constructor.
      + constructor.
        * intros k. cbn [osegs t' ss_segs]. unfold rt_get. cbn [rt_hist].
          rewrite ref_from_snoc. rewrite <- app_assoc. rewrite sget_batch_segs by auto.
          rewrite (Hv k). reflexivity.
        * exact Hc.
        * exact Hcap.
        * exact Hbll.
        * exact Hmknd.
        * intros n. cbn [cn_kids rt_kids].
          destruct (Hcase n) as [(_ & H1 & _ & H3)|[(_ & H1 & _ & H3)|(cb & child & _ & _ & H1 & _ & H3)]];
            rewrite H1, H3; auto; try tauto. split; discriminate.
        * intros n cm'. cbn [cn_kids cn_highest]. intros Ea.
          destruct (Hcase n) as [(_ & H1 & _)|[(_ & H1 & _)|(cb & child & _ & Hsrc & H1 & _)]].
          -- rewrite H1 in Ea. pose proof (Hkb n cm' Ea). lia.
          -- congruence.
          -- rewrite H1 in Ea. injection Ea as <-.
             destruct (Hincar child cb (assoc n (okids T))) as [-> _].
             destruct Hsrc as [Hsrc|(_ & f & Hf & ->)]; [pose proof (Hkb n child Hsrc); lia|].
             cbn [cn_incar]. lia.
        * intros n i Hi. cbn [cn_highest] in Hi. apply Hbd. lia.
        * intros HB n cm'. cbn [cn_kids]. intros Ea Hf.
          destruct (Hcase n) as [(_ & H1 & _)|[(_ & H1 & _)|(cb & child & _ & Hsrc & H1 & _)]].
          -- rewrite H1 in Ea. eapply Hpa; eauto.
          -- congruence.
          -- rewrite H1 in Ea. injection Ea as <-.
             destruct (Hincar child cb (assoc n (okids T))) as [Hi _]. rewrite Hi in *.
             destruct Hsrc as [Hsrc|(_ & f & Hf' & ->)]; [eapply Hpa; eauto|].
             cbn [cn_incar] in *. assert (Hf'' : (cn_highest m < f)%N) by lia.
             destruct (Hbd n f Hf'') as (_ & _ & _ & H4). congruence.
        * intros HM n cm'. cbn [cn_kids]. intros Ea Hf.
          destruct (Hcase n) as [(_ & H1 & _)|[(_ & H1 & _)|(cb & child & _ & Hsrc & H1 & _)]].
          -- rewrite H1 in Ea. eapply Hpb; eauto.
          -- congruence.
          -- rewrite H1 in Ea. injection Ea as <-.
             destruct (Hincar child cb (assoc n (okids T))) as [Hi _]. rewrite Hi in *.
             destruct Hsrc as [Hsrc|(_ & f & Hf' & ->)]; [eapply Hpb; eauto|].
             cbn [cn_incar] in *. assert (Hf'' : (cn_highest m < f)%N) by lia.
             destruct (Hbd n f Hf'') as (_ & H2 & _ & H4). destruct Hf; congruence.
        * exact Hno.
        * intros Hlr n cm'. cbn [cn_kids]. intros Ea.
          destruct (Hcase n) as [(H0 & H1 & _)|[(_ & H1 & _)|(cb & child & Hin & Hsrc & H1 & H2 & _)]].
          -- rewrite H1 in Ea. rewrite (HselT1 n cm' H0 Ea). eapply Hme; eauto.
          -- congruence.
          -- rewrite H1 in Ea. injection Ea as <-. left.
             destruct (Hincar child cb (assoc n (okids T))) as [Hi _]. rewrite Hi.
             rewrite (HselT3 n cb child Hin H2). discriminate.
      + intros n cm' cr'. cbn [cn_kids rt_kids]. intros Ea Er.
        destruct (Hcase n) as [(H0 & H1 & _ & H3)|[(_ & H1 & _)|(cb & child & Hin & Hsrc & H1 & H2 & H3)]].
        * rewrite H1 in Ea. rewrite H3 in Er. rewrite (HselT1 n cm' H0 Ea).
          eapply NodeInv_kid; eauto.
        * congruence.
        * rewrite H1 in Ea. injection Ea as <-. rewrite H3 in Er. injection Er as <-.
          destruct (Hincar child cb (assoc n (okids T))) as [Hi _]. rewrite Hi.
          rewrite (HselT3 n cb child Hin H2).
          apply (Hchild n cb child Hin Hsrc).
    - constructor.
      + reflexivity.
      + cbn [t' ss_kids]. apply bt_cp_nodup. exact Hrvnd.
      + intros n c Hin. cbn [t' ss_kids cn_kids] in *.
        assert (Hnd' : NoDup (map fst rv')) by (apply bt_cp_nodup; exact Hrvnd).
        apply (in_assoc_nodup _ _ _ Hnd') in Hin. rewrite Hrv' in Hin.
        destruct (Hcase n) as [(_ & H1 & H2 & _)|[(_ & H1 & H2 & _)|(cb & child & _ & _ & H1 & _)]].
        -- rewrite H2 in Hin. destruct (assoc n mk'); [discriminate|discriminate].
        -- rewrite H2, H1 in Hin. discriminate.
        -- rewrite H1. discriminate.
      + intros n c cm' Hin. cbn [t' ss_kids cn_kids] in *. intros Ea.
        assert (Hnd' : NoDup (map fst rv')) by (apply bt_cp_nodup; exact Hrvnd).
        apply (in_assoc_nodup _ _ _ Hnd') in Hin. rewrite Hrv' in Hin.
        destruct (Hcase n) as [(_ & H1 & H2 & _)|[(_ & H1 & H2 & _)|(cb & child & Hin' & Hsrc & H1 & H2 & _)]].
        -- rewrite H2, Ea in Hin. rewrite H1 in Ea.
           destruct (assoc n (okids T)) as [c0|] eqn:Ec; [|discriminate]. cbn [option_map] in Hin.
           injection Hin as <-.
           destruct T as [t|]; [|discriminate]. cbn [okids] in Ec.
           destruct (top_kid m t n c0 (HT t eq_refl) Ec) as (cm0 & E0 & Hc1).
           assert (cm0 = cm') by congruence. subst cm0.
           now rewrite (prune_id _ _ Hc1).
        -- congruence.
        -- rewrite H2 in Hin. injection Hin as <-. rewrite H1 in Ea. injection Ea as <-.
           apply (Hchild n cb child Hin' Hsrc).
  Qed.
End BatchMain.

(* ======================================================================= *)
(* K. the invariant of the combined system                                  *)
(* ======================================================================= *)
Definition clabel_batches (l : clabel) : list tbatch :=
  match l with CBatch b => [b] | _ => [] end.

Lemma cbatches_cons l ls : cbatches (l :: ls) = clabel_batches l ++ cbatches ls.
Proof. destruct l; reflexivity. Qed.

Lemma ref_tree_snoc bs b : ref_tree (bs ++ [b]) = rt_apply (ref_tree bs) b.
Proof. unfold ref_tree. now rewrite fold_left_app. Qed.

Definition cap_of (mp : tmpc) : option (option sstack) :=
  match mp with TMIngested mb => Some mb | _ => None end.

Section StateInv.
  Variable fm : bytes -> value -> bytes -> value.
  Notation sget := (sget fm).
  Notation fn_get := (fn_get fm).
  Notation NodeInv := (NodeInv fm).

  Record SInv (c : cfg) (bs : list tbatch) (cs : cst) : Prop := {
    si_open : t_closed (c_t cs) = false;
    si_ll : has_some (t_ll (c_t cs)) = has_ll c;
    si_node : NodeInv (has_ll c) true (cap_of (t_merger (c_t cs)))
                      (t_coll (c_t cs)) (t_top (c_t cs)) (t_mid (c_t cs))
                      (t_base (c_t cs)) (t_clean (c_t cs)) (t_ll (c_t cs)) (ref_tree bs);
    si_top : forall t, t_top (c_t cs) = Some t -> TopOk (t_coll (c_t cs)) t;
    si_pers : match t_persister (c_t cs) with
              | PIdle => has_ll c = true -> t_ll (c_t cs) = Some (c_store cs)
              | PUpdating =>
                  exists b f ch, t_base (c_t cs) = Some b /\ t_ll (c_t cs) = Some f /\
                                 tree_persist fm ch b f = Some (c_store cs) /\
                                 c_pend cs = Some (c_store cs)
              end;
    si_cached : forall sn, t_cached (c_t cs) = Some sn -> reads_as fm sn (ref_tree bs)
  }.

  Lemma sinv_init c : SInv c [] (cinit c).
  Proof.
    constructor; cbn; auto; try discriminate.
    - destruct (has_ll c); reflexivity.
    - constructor.
      + constructor; cbn; auto; try tauto; try (intros; discriminate).
        * intros k. destruct (has_ll c); reflexivity.
        * constructor.
        * intros n i _. repeat split; auto. destruct (has_ll c); reflexivity.
        * intros ->. auto.
      + intros; discriminate.
    - intros H. now rewrite H.
  Qed.
End StateInv.

Section StepInv.
  Variable fm : bytes -> value -> bytes -> value.
  Notation sget := (sget fm).
  Notation fn_get := (fn_get fm).
  Notation NodeInv := (NodeInv fm).
  Notation SInv := (SInv fm).

  Lemma tstep_batch_inv c bs cs b s' :
    SInv c bs cs -> tb_good b = true ->
    tstep fm c (c_t cs) (TBatch b) = Some s' ->
    SInv c (bs ++ [b]) {| c_t := s'; c_pend := c_pend cs; c_store := c_store cs |}.
  Proof.
    intros [Ho Hll Hn Ht Hp Hc] Hg Hs.
    unfold tstep in Hs. rewrite Ho in Hs.
    destruct (tb_ok b && tb_nonempty b) eqn:G; [|discriminate].
    apply andb_true_iff in G. destruct G as [Gok _].
    assert (Hh : batch_hyp b) by (split; auto).
    destruct (batch_inv fm b _ _ _ _ _ _ _ _ _ _ Hh Hn Ht) as [HN HT].
    destruct (build_top (t_coll (c_t cs)) b (t_top (c_t cs))) as [coll' top'] eqn:Eb.
    injection Hs as <-. cbn [fst snd] in *.
    constructor; cbn; auto.
    - rewrite ref_tree_snoc. exact HN.
    - intros t [= <-]. exact HT.
    - discriminate.
  Qed.

  Lemma tstep_ingest_inv c bs cs s' :
    SInv c bs cs -> tstep fm c (c_t cs) TIngest = Some s' ->
    SInv c bs {| c_t := s'; c_pend := c_pend cs; c_store := c_store cs |}.
  Proof.
    intros [Ho Hll Hn Ht Hp Hc] Hs.
    unfold tstep in Hs. rewrite Ho in Hs.
    destruct (t_merger (c_t cs)) eqn:Em; try discriminate.
    injection Hs as <-.
    constructor; cbn; auto.
    - unfold t_assemble. rewrite Hll.
      apply (ingest_inv fm _ _ _ _ _ _ _ _ _ _ Hn eq_refl). left. reflexivity.
    - discriminate.
    - discriminate.
  Qed.

  Lemma tstep_swap_inv c bs cs t s' :
    SInv c bs cs -> tstep fm c (c_t cs) (TSwap t) = Some s' ->
    SInv c bs {| c_t := s'; c_pend := c_pend cs; c_store := c_store cs |}.
  Proof.
    intros [Ho Hll Hn Ht Hp Hc] Hs.
    unfold tstep in Hs. rewrite Ho in Hs.
    destruct (t_merger (c_t cs)) as [|mb|] eqn:Em; try discriminate.
    destruct (t_mid (c_t cs)) as [ms|] eqn:Emid; try discriminate.
    injection Hs as <-. cbn [cap_of] in Hn.
    constructor; cbn; auto.
    - destruct (ss_is_empty ms); [apply (drop_cap fm _ _ _ _ _ _ _ _ _ _ Hn)|].
      apply (swap_inv fm _ _ _ _ _ _ _ _ _ _ Hn mb); [reflexivity|]. right.
      exists ms, t. auto.
    - destruct (ss_is_empty ms); [exact Hc|discriminate].
  Qed.

  Lemma tstep_handover_inv c bs cs s' :
    SInv c bs cs -> tstep fm c (c_t cs) THandover = Some s' ->
    SInv c bs {| c_t := s'; c_pend := c_pend cs; c_store := c_store cs |}.
  Proof.
    intros [Ho Hll Hn Ht Hp Hc] Hs.
    unfold tstep in Hs. rewrite Ho in Hs.
    destruct (t_merger (c_t cs)) as [|mb|] eqn:Em; try discriminate. cbn [cap_of] in Hn.
    destruct (t_base (c_t cs)) as [b|] eqn:Eb.
    { injection Hs as <-. constructor; cbn; auto. }
    destruct (t_mid (c_t cs)) as [ms|] eqn:Emid.
    2:{ injection Hs as <-. constructor; cbn; auto. }
    destruct (has_ll c) eqn:Ec.
    2:{ injection Hs as <-. constructor; cbn; rewrite ?Ec; auto. }
    injection Hs as <-.
    destruct (t_ll (c_t cs)) as [f|] eqn:Ell; [|discriminate].
    constructor; cbn; rewrite ?Ec, ?Ell; auto.
    - apply (bll_upgrade fm true false); [|right; eauto].
      apply (handover_inv fm _ _ _ _ _ _ _ _ _ Hn eq_refl eq_refl).
      cbn. apply refresh_lleq.
    - destruct (t_persister (c_t cs)); auto.
      destruct Hp as (b' & f' & ch & H1 & _). discriminate.
  Qed.

  Lemma tstep_snap_inv c bs cs s' :
    SInv c bs cs -> tstep fm c (c_t cs) TSnap = Some s' ->
    SInv c bs {| c_t := s'; c_pend := c_pend cs; c_store := c_store cs |}.
  Proof.
    intros [Ho Hll Hn Ht Hp Hc] Hs.
    unfold tstep in Hs. rewrite Ho in Hs. injection Hs as <-.
    constructor; cbn; auto.
    intros sn [= <-]. unfold t_cur_snapshot.
    destruct (t_cached (c_t cs)) as [sn|] eqn:Eca; [auto|].
    unfold t_mk_snapshot, t_assemble. rewrite Hll.
    apply (assemble_reads_as fm _ _ _ _ _ _ _ _ _ _ Hn).
  Qed.

  Lemma cstep_pbegin_inv c bs cs ch cs' :
    SInv c bs cs -> cstep fm c cs (CPBegin ch) = Some cs' -> SInv c bs cs'.
  Proof.
    intros [Ho Hll Hn Ht Hp Hc] Hs.
    cbn [cstep] in Hs. unfold tstep in Hs. rewrite Ho in Hs.
    destruct (t_persister (c_t cs)) eqn:Ep; try discriminate.
    destruct (t_base (c_t cs)) as [b|] eqn:Eb; try discriminate.
    destruct (has_ll c) eqn:Ec; try discriminate.
    unfold c_update in Hs. rewrite Eb in Hs.
    destruct (tree_persist fm ch b (c_store cs)) as [f'|] eqn:Et; [|discriminate].
    injection Hs as <-.
    constructor; cbn; rewrite ?Ec; auto.
    exists b, (c_store cs), ch. auto.
  Qed.

  Lemma cstep_pbeginfail_inv c bs cs cs' :
    SInv c bs cs -> cstep fm c cs CPBeginFail = Some cs' -> SInv c bs cs'.
  Proof.
    intros [Ho Hll Hn Ht Hp Hc] Hs.
    cbn [cstep] in Hs. unfold tstep in Hs. rewrite Ho in Hs.
    destruct (t_persister (c_t cs)) eqn:Ep; try discriminate.
    destruct (t_base (c_t cs)) as [b|] eqn:Eb; try discriminate.
    destruct (has_ll c) eqn:Ec; try discriminate.
    cbn in Hs. injection Hs as <-.
    constructor; cbn; rewrite ?Ec; auto.
  Qed.

  (* what a persistence round turns a node invariant into *)
  Lemma persist_inv lr w cap m T M b C f r ch f' (keep : bool) :
    NodeInv lr w cap m T M (Some b) C (Some f) r ->
    tree_persist fm ch b f = Some f' ->
    (keep = true -> ss_has_merge b = false) ->
    NodeInv lr w cap m T M None (if keep then Some b else None) (Some f') r.
  Proof.
    intros HN Etp Hkeep. destruct ch as [| |sp]; cbn [tree_persist] in Etp.
    - destruct (nothing_to_persist b f) eqn:En; [|discriminate]. injection Etp as <-.
      unfold nothing_to_persist in En. apply andb_true_iff in En. destruct En as [En _].
      apply (noop_inv fm _ _ _ _ _ _ _ _ _ _ HN En keep).
    - destruct (nothing_to_persist b f); [discriminate|]. injection Etp as <-.
      apply (publish_inv fm _ _ _ _ _ _ _ _ _ _ HN _ keep (pubrel_append fm b (Some f)) Hkeep).
    - destruct (Nat.leb sp (length (fn_segs f))); [|discriminate].
      destruct (ss_is_empty b && Nat.leb (length (fn_segs f)) 1); [discriminate|].
      injection Etp as <-.
      apply (publish_inv fm _ _ _ _ _ _ _ _ _ _ HN _ keep
                         (pubrel_compact fm b sp (negb (Nat.eqb sp 0)) (Some f) (or_introl eq_refl))
                         Hkeep).
  Qed.

  Lemma cstep_ppublish_inv c bs cs cs' :
    SInv c bs cs -> cstep fm c cs CPPublish = Some cs' -> SInv c bs cs'.
  Proof.
    intros [Ho Hll Hn Ht Hp Hc] Hs.
    cbn [cstep] in Hs.
    destruct (c_pend cs) as [f'|] eqn:Epend; [|discriminate].
    unfold tstep in Hs. rewrite Ho in Hs.
    destruct (t_persister (c_t cs)) eqn:Ep; try discriminate.
    destruct (t_base (c_t cs)) as [b|] eqn:Eb; try discriminate.
    injection Hs as <-.
    destruct Hp as (b0 & f & ch & E1 & Ell & Etp & E2).
    injection E1 as <-. assert (f' = c_store cs) by congruence. subst f'.
    assert (Hlc : has_ll c = true) by (rewrite <- Hll, Ell; reflexivity).
    rewrite Ell in Hn.
    constructor; cbn.
    - reflexivity.
    - now rewrite Hlc.
    - apply (persist_inv _ _ _ _ _ _ _ _ _ _ _ _ _ Hn Etp).
      intros Hk. apply andb_true_iff in Hk. destruct Hk as [_ Hk]. now apply negb_true_iff in Hk.
    - exact Ht.
    - reflexivity.
    - discriminate.
  Qed.

  Theorem cstep_inv c bs cs l cs' :
    SInv c bs cs -> Forall (fun b => tb_good b = true) (clabel_batches l) ->
    cstep fm c cs l = Some cs' -> SInv c (bs ++ clabel_batches l) cs'.
  Proof.
    intros HI Hg Hs.
    destruct l; cbn [clabel_batches]; rewrite ?app_nil_r;
      try (cbn [cstep] in Hs; unfold clift in Hs;
           match type of Hs with
           | match ?x with _ => _ end = _ => destruct x as [s'|] eqn:Et; [|discriminate]
           end; injection Hs as <-).
    - inversion Hg; subst. eapply tstep_batch_inv; eauto.
    - eapply tstep_ingest_inv; eauto.
    - eapply tstep_swap_inv; eauto.
    - eapply tstep_handover_inv; eauto.
    - eapply cstep_pbegin_inv; eauto.
    - eapply cstep_pbeginfail_inv; eauto.
    - eapply cstep_ppublish_inv; eauto.
    - eapply tstep_snap_inv; eauto.
  Qed.

  Theorem crun_inv c ls : forall bs cs cs',
    SInv c bs cs -> Forall (fun b => tb_good b = true) (cbatches ls) ->
    crun fm c cs ls = Some cs' -> SInv c (bs ++ cbatches ls) cs'.
  Proof.
    induction ls as [|l ls IH]; intros bs cs cs' HI Hg Hr; cbn [crun] in Hr.
    - injection Hr as <-. cbn. now rewrite app_nil_r.
    - destruct (cstep fm c cs l) as [cs1|] eqn:Es; [|discriminate].
      rewrite cbatches_cons in *. rewrite app_assoc.
      apply Forall_app in Hg. destruct Hg as [Hg1 Hg2].
      eapply IH; eauto. eapply cstep_inv; eauto.
  Qed.
End StepInv.

(* ======================================================================= *)
(* K1. stacks and footers all of whose children are live                    *)
(* ======================================================================= *)
Section FnInd.
  Variable P : fnode -> Prop.
  Hypothesis H : forall a i kids, (forall n c, In (n, c) kids -> P c) -> P (FN a i kids).
  Lemma fnode_ind' : forall f, P f.
  Proof.
    fix IH 1. intros [a i kids]. apply H.
    induction kids as [|[n' c'] r IHr]; intros n c Hin.
    - destruct Hin.
    - destruct Hin as [E|Hin].
      + assert (E' : c' = c) by congruence. rewrite <- E'. apply IH.
      + eapply IHr; eauto.
  Qed.
End FnInd.

(* every child of the stack is a child of the bookkeeping node, of the same
   incarnation, hereditarily (what snapshot() builds, and what merging and
   refreshing keep) *)
Inductive SLive : cnode -> sstack -> Prop :=
| SLv m s :
    (forall n c, assoc n (ss_kids s) = Some c -> assoc n (cn_kids m) <> None) ->
    (forall n c cm, assoc n (ss_kids s) = Some c -> assoc n (cn_kids m) = Some cm ->
                    ss_incar c = cn_incar cm) ->
    (forall n c cm, assoc n (ss_kids s) = Some c -> assoc n (cn_kids m) = Some cm -> SLive cm c) ->
    SLive m s.

Inductive FLive : cnode -> fnode -> Prop :=
| FLv m f :
    (forall n y, assoc n (fn_kids f) = Some y -> assoc n (cn_kids m) <> None) ->
    (forall n y cm, assoc n (fn_kids f) = Some y -> assoc n (cn_kids m) = Some cm ->
                    fn_incar y = cn_incar cm) ->
    (forall n y cm, assoc n (fn_kids f) = Some y -> assoc n (cn_kids m) = Some cm -> FLive cm y) ->
    FLive m f.

Definition SLiveO (m : cnode) (o : option sstack) : Prop :=
  match o with Some s => SLive m s | None => True end.
Definition FLiveO (m : cnode) (o : option fnode) : Prop :=
  match o with Some f => FLive m f | None => True end.

Lemma SLive_lleq m s : SLive m s -> forall s', LlEq s s' -> SLive m s'.
Proof.
  induction 1 as [m s H1 H2 H3 IH]. intros s' Hl.
  inversion Hl as [s0 s0' _ _ Hn Hk]; subst.
  assert (Hex : forall n c', assoc n (ss_kids s') = Some c' ->
                             exists c, assoc n (ss_kids s) = Some c /\ LlEq c c').
  { intros n c' E. destruct (assoc n (ss_kids s)) as [c|] eqn:Es.
    - exists c. split; auto. eapply Hk; eauto.
    - apply Hn in Es. congruence. }
  constructor.
  - intros n c' E. destruct (Hex n c' E) as (c & Es & _). eauto.
  - intros n c' cm E Ea. destruct (Hex n c' E) as (c & Es & Hc).
    inversion Hc as [c0 c0' _ Hi _ _]; subst. rewrite <- Hi. eauto.
  - intros n c' cm E Ea. destruct (Hex n c' E) as (c & Es & Hc). eapply IH; eauto.
Qed.

Lemma kids_changed_inv f s :
  kids_changed f s = false ->
  forall n cf, assoc n (fn_kids f) = Some cf ->
               exists cs, assoc n (ss_kids s) = Some cs /\ ss_incar cs = fn_incar cf /\
                          kids_changed cf cs = false.
Proof.
  destruct f as [a i fkids]. cbn [kids_changed fn_kids].
  induction fkids as [|[n' cf'] r IH]; intros H n cf; cbn [assoc]; [discriminate|].
  destruct (assoc n' (ss_kids s)) as [cs|] eqn:Es; [|discriminate].
  apply orb_false_iff in H. destruct H as [H Hr].
  apply orb_false_iff in H. destruct H as [Hi Hc].
  destruct (beqb n' n) eqn:En.
  - apply beqb_true in En. subst n'. intros [= <-]. exists cs. repeat split; auto.
    apply negb_false_iff in Hi. now apply N.eqb_eq in Hi.
  - apply IH; auto.
Qed.

Lemma FLive_noop f : forall m b, SLive m b -> kids_changed f b = false -> FLive m f.
Proof.
  induction f as [a i kids IH] using fnode_ind'. intros m b Hs Hk.
  inversion Hs as [m0 s0 H1 H2 H3]; subst.
  pose proof (kids_changed_inv _ _ Hk) as Hinv. cbn [fn_kids] in *.
  constructor; cbn [fn_kids].
  - intros n y E. destruct (Hinv n y E) as (cs & Es & _). eauto.
  - intros n y cm E Ea. destruct (Hinv n y E) as (cs & Es & Hi & _). rewrite <- Hi. eauto.
  - intros n y cm E Ea. destruct (Hinv n y E) as (cs & Es & Hi & Hc).
    apply assoc_some_in in E. eapply IH; eauto.
Qed.

Section LiveFacts.
  Variable fm : bytes -> value -> bytes -> value.

  Lemma SLive_merge m s : SLive m s -> forall t base, SLive m (merge_node fm t s base).
  Proof.
    induction 1 as [m s H1 H2 H3 IH]. intros t base.
    assert (Hex : forall n c', assoc n (ss_kids (merge_node fm t s base)) = Some c' ->
                   exists c t' b', assoc n (ss_kids s) = Some c /\ c' = merge_node fm t' c b').
    { intros n c' E. rewrite merge_node_kid in E.
      destruct (assoc n (ss_kids s)) as [c|]; [|discriminate]. injection E as <-. eauto. }
    constructor.
    - intros n c' E. destruct (Hex n c' E) as (c & t' & b' & Es & ->). eauto.
    - intros n c' cm E Ea. destruct (Hex n c' E) as (c & t' & b' & Es & ->).
      rewrite merge_node_incar. eauto.
    - intros n c' cm E Ea. destruct (Hex n c' E) as (c & t' & b' & Es & ->). eapply IH; eauto.
  Qed.

  Lemma FLive_append m b : SLive m b -> forall L, FLive m (append_footer L b).
  Proof.
    induction 1 as [m s H1 H2 H3 IH]. intros L.
    assert (Hex : forall n y, assoc n (fn_kids (append_footer L s)) = Some y ->
                   exists c L', assoc n (ss_kids s) = Some c /\ y = append_footer L' c).
    { intros n y E. rewrite append_footer_kid in E.
      destruct (assoc n (ss_kids s)) as [c|]; [|discriminate]. injection E as <-. eauto. }
    constructor.
    - intros n y E. destruct (Hex n y E) as (c & L' & Es & ->). eauto.
    - intros n y cm E Ea. destruct (Hex n y E) as (c & L' & Es & ->).
      rewrite append_footer_incar. eauto.
    - intros n y cm E Ea. destruct (Hex n y E) as (c & L' & Es & ->). eapply IH; eauto.
  Qed.

  Lemma FLive_compact m b : SLive m b -> forall sp incl L, FLive m (compact_node fm sp incl L b).
  Proof.
    induction 1 as [m s H1 H2 H3 IH]. intros sp incl L.
    assert (Hex : forall n y, assoc n (fn_kids (compact_node fm sp incl L s)) = Some y ->
                   exists c L', assoc n (ss_kids s) = Some c /\ y = compact_node fm 0 incl L' c).
    { intros n y E. rewrite compact_node_kid in E.
      destruct (assoc n (ss_kids s)) as [c|]; [|discriminate]. injection E as <-. eauto. }
    constructor.
    - intros n y E. destruct (Hex n y E) as (c & L' & Es & ->). eauto.
    - intros n y cm E Ea. destruct (Hex n y E) as (c & L' & Es & ->).
      rewrite compact_node_incar. eauto.
    - intros n y cm E Ea. destruct (Hex n y E) as (c & L' & Es & ->). eapply IH; eauto.
  Qed.

  Lemma FLive_persist m b f ch f' :
    SLive m b -> tree_persist fm ch b f = Some f' -> FLive m f'.
  Proof.
    intros Hs Etp. destruct ch as [| |sp]; cbn [tree_persist] in Etp.
    - destruct (nothing_to_persist b f) eqn:En; [|discriminate]. injection Etp as <-.
      unfold nothing_to_persist in En. apply andb_true_iff in En. destruct En as [_ En].
      apply negb_true_iff in En. eapply FLive_noop; eauto.
    - destruct (nothing_to_persist b f); [discriminate|]. injection Etp as <-.
      now apply FLive_append.
    - destruct (Nat.leb sp (length (fn_segs f))); [|discriminate].
      destruct (ss_is_empty b && Nat.leb (length (fn_segs f)) 1); [discriminate|].
      injection Etp as <-. now apply FLive_compact.
  Qed.

  Lemma SLive_assemble lr w cap m T M B C L r :
    NodeInv fm lr w cap m T M B C L r ->
    forall os L' lr', SLive m (assemble m (osecs os) L' lr').
  Proof.
    induction 1 as [w cap m T M B C L r HL Hk IH]. intros os L' lr'.
    pose proof (nl_nodup _ _ _ _ _ _ _ _ _ _ _ HL) as Hnd.
    pose proof (nl_names _ _ _ _ _ _ _ _ _ _ _ HL) as Hnm.
    assert (Hex : forall n c, assoc n (ss_kids (assemble m (osecs os) L' lr')) = Some c ->
                   exists cm os' L'', assoc n (cn_kids m) = Some cm /\
                                      c = assemble cm (osecs os') L'' lr').
    { intros n c E. rewrite assemble_kid in E by auto.
      destruct (assoc n (cn_kids m)) as [cm|]; [|discriminate].
      destruct (lr' || _); [|discriminate]. injection E as <-. eauto. }
    constructor.
    - intros n c E. destruct (Hex n c E) as (cm & os' & L'' & Ea & ->). congruence.
    - intros n c cm E Ea. destruct (Hex n c E) as (cm' & os' & L'' & Ea' & ->).
      rewrite assemble_incar. congruence.
    - intros n c cm E Ea. destruct (Hex n c E) as (cm' & os' & L'' & Ea' & ->).
      assert (cm' = cm) by congruence. subst cm'.
      destruct (assoc n (rt_kids r)) as [cr|] eqn:Er; [|apply Hnm in Er; congruence].
      eapply IH; eauto.
  Qed.

  (* a node without anything in memory or beneath it reads nothing *)
  Lemma all_none_empty lr w cap m T M B C L r :
    NodeInv fm lr w cap m T M B C L r -> T = None -> M = None -> B = None -> L = None ->
    rt_empty fm r.
  Proof.
    induction 1 as [w cap m T M B C L r HL Hk IH]. intros -> -> -> ->.
    constructor.
    - intros k. rewrite <- (nl_view _ _ _ _ _ _ _ _ _ _ _ HL k). reflexivity.
    - intros n cr Er.
      destruct (assoc n (cn_kids m)) as [cm|] eqn:Ea;
        [|apply (nl_names _ _ _ _ _ _ _ _ _ _ _ HL) in Ea; congruence].
      eapply IH; eauto.
  Qed.

  (* with nothing in memory a live footer reads, on its own, as the reference *)
  Lemma footer_alone lr w cap m T M B C L r :
    NodeInv fm lr w cap m T M B C L r -> T = None -> M = None -> B = None ->
    forall f, L = Some f -> FLive m f -> fn_reads_mod fm f r.
  Proof.
    induction 1 as [w cap m T M B C L r HL Hk IH]. intros -> -> -> f -> Hf.
    inversion Hf as [m0 f0 F1 F2 F3]; subst.
    pose proof (nl_names _ _ _ _ _ _ _ _ _ _ _ HL) as Hnm.
    constructor.
    - intros k. rewrite <- (nl_view _ _ _ _ _ _ _ _ _ _ _ HL k). reflexivity.
    - intros n cf E Er. apply Hnm in Er. eapply F1; eauto.
    - intros n cf cr E Er.
      destruct (assoc n (cn_kids m)) as [cm|] eqn:Ea; [|apply Hnm in Ea; congruence].
      apply (IH n cm cr Ea Er); auto.
      + cbn [fsel]. rewrite E, (F2 n cf cm E Ea), N.eqb_refl. reflexivity.
      + eapply F3; eauto.
    - intros n cr E Er.
      destruct (assoc n (cn_kids m)) as [cm|] eqn:Ea; [|apply Hnm in Ea; congruence].
      apply (all_none_empty _ _ _ _ _ _ _ _ _ _ (Hk n cm cr Ea Er)); auto.
      cbn [fsel]. now rewrite E.
  Qed.
End LiveFacts.

(* ======================================================================= *)
(* K2. how much of the batch history has reached which section              *)
(* ======================================================================= *)
Section Ghost.
  Variable fm : bytes -> value -> bytes -> value.
  Notation sget := (sget fm).
  Notation fn_get := (fn_get fm).
  Notation NodeInv := (NodeInv fm).
  Notation SInv := (SInv fm).

  (* The history ghost: the lower level holds the first a batches, base over
     it the first b, mid over base over it the first d — each read through
     the collection bookkeeping (names and incarnations) of the moment the
     section was cut off by the merger's ingest. *)
  Definition GInv (c : cfg) (bs : list tbatch) (cs : cst) : Prop :=
    exists a b d ca cb cd,
      a <= b /\ b <= d /\ d <= length bs /\
      NodeInv (has_ll c) false None ca None None None None (t_ll (c_t cs))
              (ref_tree (firstn a bs)) /\
      NodeInv (has_ll c) false None cb None None (t_base (c_t cs)) None (t_ll (c_t cs))
              (ref_tree (firstn b bs)) /\
      NodeInv (has_ll c) false (cap_of (t_merger (c_t cs))) cd None (t_mid (c_t cs))
              (t_base (c_t cs)) None (t_ll (c_t cs)) (ref_tree (firstn d bs)) /\
      FLiveO ca (t_ll (c_t cs)) /\ SLiveO cb (t_base (c_t cs)) /\ SLiveO cd (t_mid (c_t cs)) /\
      (t_top (c_t cs) = None -> d = length bs) /\
      (t_mid (c_t cs) = None -> b = d) /\
      (t_base (c_t cs) = None -> a = b).

  Ltac splits := repeat match goal with |- _ /\ _ => split end.

  Lemma firstn_app_le' {A} n (l1 l2 : list A) : n <= length l1 -> firstn n (l1 ++ l2) = firstn n l1.
  Proof.
    intros H. rewrite firstn_app. replace (n - length l1) with 0 by lia.
    simpl. now rewrite app_nil_r.
  Qed.

  Lemma ginv_init c : GInv c [] (cinit c).
  Proof.
    pose proof (si_node _ _ _ _ (sinv_init fm c)) as H. cbn in H.
    apply (weaken_inv fm) in H.
    exists 0, 0, 0, (CN 0 0 []), (CN 0 0 []), (CN 0 0 []). cbn.
    splits; auto.
    destruct (has_ll c); cbn; auto. constructor; cbn; intros; discriminate.
  Qed.

  Lemma ginv_same c bs cs cs' :
    t_top (c_t cs') = t_top (c_t cs) ->
    t_mid (c_t cs') = t_mid (c_t cs) -> t_base (c_t cs') = t_base (c_t cs) ->
    t_ll (c_t cs') = t_ll (c_t cs) -> cap_of (t_merger (c_t cs')) = cap_of (t_merger (c_t cs)) ->
    GInv c bs cs -> GInv c bs cs'.
  Proof.
    intros E0 E1 E2 E3 E4 (a & b & d & ca & cb & cd & H).
    exists a, b, d, ca, cb, cd. rewrite E0, E1, E2, E3, E4. exact H.
  Qed.

  Theorem cstep_ginv c bs cs l cs' :
    SInv c bs cs -> GInv c bs cs ->
    cstep fm c cs l = Some cs' -> GInv c (bs ++ clabel_batches l) cs'.
  Proof.
    intros [Ho Hll Hn Ht Hp Hc] HG Hs.
    destruct l; cbn [clabel_batches]; rewrite ?app_nil_r; cbn [cstep] in Hs.
    - (* batch *)
      unfold clift, tstep in Hs. rewrite Ho in Hs.
      destruct (tb_ok b && tb_nonempty b); [|discriminate].
      destruct (build_top (t_coll (c_t cs)) b (t_top (c_t cs))) as [coll' top'].
      injection Hs as <-.
      destruct HG as (a & b0 & d & ca & cb & cd & H1 & H2 & H3 & HA & HB & HD & LA & LB & LD & ET & EM & EB).
      exists a, b0, d, ca, cb, cd. cbn.
      rewrite !firstn_app_le' by lia. rewrite app_length. cbn.
      splits; auto; try lia. discriminate.
    - (* ingest *)
      unfold clift, tstep in Hs. rewrite Ho in Hs.
      destruct (t_merger (c_t cs)) eqn:Em; try discriminate.
      injection Hs as <-.
      destruct HG as (a & b0 & d & ca & cb & cd & H1 & H2 & H3 & HA & HB & HD & LA & LB & LD & ET & EM & EB).
      exists a, b0, (length bs), ca, cb, (t_coll (c_t cs)). cbn.
      splits; auto; try lia; try discriminate.
      + rewrite firstn_all. unfold t_assemble. rewrite Hll.
        eapply (weaken_inv fm).
        apply (ingest_inv fm _ _ _ _ _ _ _ _ _ _ Hn eq_refl). left. reflexivity.
      + unfold t_assemble. apply (SLive_assemble fm _ _ _ _ _ _ _ _ _ _ Hn [t_top (c_t cs); t_mid (c_t cs)]).
    - (* swap *)
      unfold clift, tstep in Hs. rewrite Ho in Hs.
      destruct (t_merger (c_t cs)) as [|mb|] eqn:Em; try discriminate.
      destruct (t_mid (c_t cs)) as [ms|] eqn:Emid; try discriminate.
      injection Hs as <-.
      destruct HG as (a & b0 & d & ca & cb & cd & H1 & H2 & H3 & HA & HB & HD & LA & LB & LD & ET & EM & EB).
      exists a, b0, d, ca, cb, cd. cbn.
      rewrite Em, Emid in HD. cbn [cap_of] in HD. rewrite Emid in LD. cbn [SLiveO] in LD.
      splits; auto; try discriminate.
      + destruct (ss_is_empty ms); [apply (drop_cap fm _ _ _ _ _ _ _ _ _ _ HD)|].
        apply (swap_inv fm _ _ _ _ _ _ _ _ _ _ HD mb); [reflexivity|]. right.
        exists ms, t. auto.
      + destruct (ss_is_empty ms); auto. now apply SLive_merge.
    - (* hand-over *)
      unfold clift, tstep in Hs. rewrite Ho in Hs.
      destruct (t_merger (c_t cs)) as [|mb|] eqn:Em; try discriminate.
      destruct (t_base (c_t cs)) as [b|] eqn:Eb.
      { injection Hs as <-. apply (ginv_same c bs cs); cbn; rewrite ?Em; auto. }
      destruct (t_mid (c_t cs)) as [ms|] eqn:Emid.
      2:{ injection Hs as <-. apply (ginv_same c bs cs); cbn; rewrite ?Em; auto. }
      destruct (has_ll c) eqn:Ec.
      2:{ injection Hs as <-. apply (ginv_same c bs cs); cbn; rewrite ?Em; auto. }
      injection Hs as <-.
      destruct (t_ll (c_t cs)) as [f|] eqn:Ell; [|discriminate].
      destruct HG as (a & b0 & d & ca & cb & cd & H1 & H2 & H3 & HA & HB & HD & LA & LB & LD & ET & EM & EB).
      rewrite Emid, Eb, Em, Ell, Ec in *. cbn [cap_of] in HD. cbn [SLiveO] in LD.
      assert (HD' : NodeInv true false None cd None None
                            (Some (refresh_llcap (t_coll (c_t cs)) ms (Some f))) None
                            (Some f) (ref_tree (firstn d bs))).
      { apply (handover_inv fm _ _ _ _ _ _ _ _ _ HD eq_refl eq_refl). cbn. apply refresh_lleq. }
      exists a, d, d, ca, cd, cd. cbn. rewrite ?Ec, ?Ell.
      splits; auto; try lia; try discriminate.
      apply (SLive_lleq _ _ LD). apply refresh_lleq.
    - (* pbegin *)
      unfold tstep in Hs. rewrite Ho in Hs.
      destruct (t_persister (c_t cs)) eqn:Ep; try discriminate.
      destruct (t_base (c_t cs)) as [b|] eqn:Eb; try discriminate.
      destruct (has_ll c) eqn:Ec; try discriminate.
      destruct (c_update fm cs ch); [|discriminate]. injection Hs as <-.
      apply (ginv_same c bs cs); cbn; rewrite ?Ep; auto.
    - (* pbegin, failed *)
      unfold clift, tstep in Hs. rewrite Ho in Hs.
      destruct (t_persister (c_t cs)) eqn:Ep; try discriminate.
      destruct (t_base (c_t cs)) as [b|] eqn:Eb; try discriminate.
      destruct (has_ll c) eqn:Ec; try discriminate.
      cbn in Hs. injection Hs as <-.
      apply (ginv_same c bs cs); cbn; rewrite ?Ep; auto.
    - (* publish *)
      destruct (c_pend cs) as [f'|] eqn:Epend; [|discriminate].
      unfold tstep in Hs. rewrite Ho in Hs.
      destruct (t_persister (c_t cs)) eqn:Ep; try discriminate.
      destruct (t_base (c_t cs)) as [b|] eqn:Eb; try discriminate.
      injection Hs as <-.
      destruct Hp as (b0 & f & ch & E1 & Ell & Etp & E2).
      injection E1 as <-. assert (f' = c_store cs) by congruence. subst f'.
      destruct HG as (a & b1 & d & ca & cb & cd & H1 & H2 & H3 & HA & HB & HD & LA & LB & LD & ET & EM & EB).
      rewrite Ell, Eb in *. cbn [SLiveO] in LB.
      pose proof (persist_inv fm _ _ _ _ _ _ _ _ _ _ _ _ false HB Etp) as HB'.
      pose proof (persist_inv fm _ _ _ _ _ _ _ _ _ _ _ _ false HD Etp) as HD'.
      exists b1, b1, d, cb, cb, cd. cbn.
      splits; auto; try lia; try (apply HB'; discriminate); try (apply HD'; discriminate).
      eapply FLive_persist; eauto.
    - (* snapshot *)
      unfold clift, tstep in Hs. rewrite Ho in Hs. injection Hs as <-.
      apply (ginv_same c bs cs); cbn; auto.
  Qed.

  Theorem crun_ginv c ls : forall bs cs cs',
    SInv c bs cs -> GInv c bs cs -> Forall (fun b => tb_good b = true) (cbatches ls) ->
    crun fm c cs ls = Some cs' -> GInv c (bs ++ cbatches ls) cs'.
  Proof.
    induction ls as [|l ls IH]; intros bs cs cs' HI HG Hg Hr; cbn [crun] in Hr.
    - injection Hr as <-. cbn. now rewrite app_nil_r.
    - destruct (cstep fm c cs l) as [cs1|] eqn:Es; [|discriminate].
      rewrite cbatches_cons in *. rewrite app_assoc.
      apply Forall_app in Hg. destruct Hg as [Hg1 Hg2].
      eapply IH; eauto.
      + eapply cstep_inv; eauto.
      + eapply cstep_ginv; eauto.
  Qed.

  (* with nothing dirty only the lower level is left *)
  Lemma drain_inv lr w cap m T M B C L r :
    NodeInv lr w cap m T M B C L r -> lr = true ->
    hered_empty T -> hered_empty M -> hered_empty B ->
    NodeInv lr false None m None None None None L r.
  Proof.
    induction 1 as [w cap m T M B C L r HL Hk IH]. intros Hlr HT HM HB.
    constructor.
    - destruct HL as [Hv Hc Hcap Hbll Hnd' Hnm Hkb Hb Hpa Hpb Hno Hme].
      constructor; auto; try discriminate; try congruence.
      + intros k. rewrite <- (Hv k).
        now rewrite (hered_empty_segs _ HT), (hered_empty_segs _ HM), (hered_empty_segs _ HB).
      + intros n i Hi. destruct (Hb n i Hi) as (H1 & H2 & H3 & H4). auto.
    - intros n cm cr Ea Er. apply (IH n cm cr Ea Er); auto using hered_empty_sel.
  Qed.
End Ghost.

(* ======================================================================= *)
(* L. the end-to-end theorems                                               *)
(* ======================================================================= *)
Section EndToEnd.
  Variable fm : bytes -> value -> bytes -> value.

  (* Every batch has distinct child names per node (tb_good = tb_distinct; in
     the implementation the child batches of a batch are a Go map).  Then,
     whatever the merge operator and whatever the schedule of batches, merger
     rounds, persistence rounds (append, compaction at any splice point,
     no-op, failed) and snapshots, the current snapshot reads as the reference
     tree: the same value for every key and the same set of child names at the
     root and, recursively, in every child collection — a deleted child is
     gone, a re-created child is a fresh one that does not see its
     predecessor's persisted keys. *)
  Theorem tree_snapshot_reads_reference c ls cs :
    Forall (fun b => tb_good b = true) (cbatches ls) ->
    crun fm c (cinit c) ls = Some cs ->
    reads_as fm (t_cur_snapshot (c_t cs)) (ref_tree (cbatches ls)).
  Proof.
    intros Hg Hr.
    pose proof (crun_inv fm c ls [] (cinit c) cs (sinv_init fm c) Hg Hr) as HI.
    cbn [app] in HI. unfold t_cur_snapshot.
    destruct (t_cached (c_t cs)) as [sn|] eqn:Eca.
    - apply (si_cached _ _ _ _ HI sn Eca).
    - unfold t_mk_snapshot, t_assemble. rewrite (si_ll _ _ _ _ HI).
      apply (assemble_reads_as fm _ _ _ _ _ _ _ _ _ _ (si_node _ _ _ _ HI)).
  Qed.

  (* a freshly assembled snapshot reads the same (the cache is never stale) *)
  Theorem tree_fresh_snapshot_reads_reference c ls cs :
    Forall (fun b => tb_good b = true) (cbatches ls) ->
    crun fm c (cinit c) ls = Some cs ->
    reads_as fm (t_mk_snapshot (c_t cs)) (ref_tree (cbatches ls)).
  Proof.
    intros Hg Hr.
    pose proof (crun_inv fm c ls [] (cinit c) cs (sinv_init fm c) Hg Hr) as HI.
    cbn [app] in HI.
    unfold t_mk_snapshot, t_assemble. rewrite (si_ll _ _ _ _ HI).
    apply (assemble_reads_as fm _ _ _ _ _ _ _ _ _ _ (si_node _ _ _ _ HI)).
  Qed.

  (* reads_as, path by path *)
  Lemma reads_as_at s r : reads_as fm s r -> forall p,
    match ss_at s p, rt_at r p with
    | Some s', Some r' =>
        (forall k, ss_get fm s' k = rt_get fm r' k) /\
        (forall n, In n (map fst (ss_kids s')) <-> In n (map fst (rt_kids r')))
    | None, None => True
    | _, _ => False
    end.
  Proof.
    intros H p. revert s r H. induction p as [|n q IH]; intros s r H.
    - cbn. inversion H; subst. auto.
    - cbn [ss_at rt_at]. inversion H as [s0 r0 Hg Hn Hk]; subst.
      specialize (Hn n). rewrite !assoc_in_iff in Hn.
      destruct (assoc n (ss_kids s)) as [cs0|] eqn:Es, (assoc n (rt_kids r)) as [cr|] eqn:Er.
      + apply IH. eapply Hk; eauto.
      + exfalso. destruct Hn as [Hn _]. apply Hn; [discriminate|reflexivity].
      + exfalso. destruct Hn as [_ Hn]. apply Hn; [discriminate|reflexivity].
      + exact I.
  Qed.

  (* the statement at every path of child names: a child collection exists in
     the snapshot exactly when it exists in the reference; there every key
     reads the reference's value and the child names agree *)
  Theorem tree_snapshot_reads_reference_at_every_path c ls cs p :
    Forall (fun b => tb_good b = true) (cbatches ls) ->
    crun fm c (cinit c) ls = Some cs ->
    match ss_at (t_cur_snapshot (c_t cs)) p, rt_at (ref_tree (cbatches ls)) p with
    | Some s', Some r' =>
        (forall k, ss_get fm s' k = rt_get fm r' k) /\
        (forall n, In n (map fst (ss_kids s')) <-> In n (map fst (rt_kids r')))
    | None, None => True
    | _, _ => False
    end.
  Proof.
    intros Hg Hr. apply reads_as_at. eapply tree_snapshot_reads_reference; eauto.
  Qed.

  Lemma crun_both c ls cs :
    Forall (fun b => tb_good b = true) (cbatches ls) ->
    crun fm c (cinit c) ls = Some cs ->
    SInv fm c (cbatches ls) cs /\ GInv fm c (cbatches ls) cs.
  Proof.
    intros Hg Hr. split.
    - apply (crun_inv fm c ls [] (cinit c) cs (sinv_init fm c) Hg Hr).
    - apply (crun_ginv fm c ls [] (cinit c) cs (sinv_init fm c) (ginv_init fm c) Hg Hr).
  Qed.

  (* (3) The store holds a prefix of the history: at every moment its current
     footer tree — read on its own, without any collection — reads as the
     reference tree after the first a batches, for some a (fn_reads_mod): at
     the root and in every child footer every key reads the reference's value,
     every child footer belongs to a child collection of the reference, and a
     child collection of the reference that has no footer holds no key at any
     depth.  The last clause cannot be strengthened to "has a footer": a
     persistence round is a no-op when the handed-down stack holds no
     operation, also when it carries newly created, empty child collections
     (known finding F10b). *)
  Theorem tree_store_reads_prefix c ls cs :
    has_ll c = true ->
    Forall (fun b => tb_good b = true) (cbatches ls) ->
    crun fm c (cinit c) ls = Some cs ->
    exists a, a <= length (cbatches ls) /\
              fn_reads_mod fm (c_store cs) (ref_tree (firstn a (cbatches ls))).
  Proof.
    intros Hlc Hg Hr. destruct (crun_both c ls cs Hg Hr) as [HI HG].
    destruct HG as (a & b & d & ca & cb & cd & H1 & H2 & H3 & HA & HB & HD & LA & LB & LD & _).
    pose proof (si_pers _ _ _ _ HI) as Hp. rewrite Hlc in *.
    destruct (t_persister (c_t cs)).
    - exists a. split; [lia|]. rewrite (Hp eq_refl) in HA, LA.
      apply (footer_alone fm _ _ _ _ _ _ _ _ _ _ HA eq_refl eq_refl eq_refl _ eq_refl LA).
    - destruct Hp as (b0 & f & ch & Eb & Ell & Etp & _). rewrite Eb, Ell in HB. rewrite Eb in LB.
      pose proof (persist_inv fm _ _ _ _ _ _ _ _ _ _ _ _ false HB Etp ltac:(discriminate)) as HB'.
      exists b. split; [lia|].
      apply (footer_alone fm _ _ _ _ _ _ _ _ _ _ HB' eq_refl eq_refl eq_refl _ eq_refl).
      eapply FLive_persist; eauto.
  Qed.

  (* ... and once everything has been handed down and persisted (no pending
     stack, no merger stack, no stack awaiting persistence, no persistence
     round running) the footer reads as the WHOLE reference tree. *)
  Theorem tree_drained_store_is_reference c ls cs :
    has_ll c = true ->
    Forall (fun b => tb_good b = true) (cbatches ls) ->
    crun fm c (cinit c) ls = Some cs ->
    t_persister (c_t cs) = PIdle ->
    t_top (c_t cs) = None -> t_mid (c_t cs) = None -> t_base (c_t cs) = None ->
    fn_reads_mod fm (c_store cs) (ref_tree (cbatches ls)).
  Proof.
    intros Hlc Hg Hr Hid ET EM EB. destruct (crun_both c ls cs Hg Hr) as [HI HG].
    destruct HG as (a & b & d & ca & cb & cd & H1 & H2 & H3 & HA & HB & HD & LA & LB & LD
                    & FT & FM & FB).
    pose proof (si_pers _ _ _ _ HI) as Hp. rewrite Hid, Hlc in Hp.
    assert (a = length (cbatches ls)) by (rewrite (FB EB), (FM EM); auto). subst a.
    rewrite firstn_all in HA. rewrite (Hp eq_refl) in HA, LA.
    apply (footer_alone fm _ _ _ _ _ _ _ _ _ _ HA eq_refl eq_refl eq_refl _ eq_refl LA).
  Qed.

  (* The same two facts with the footer read THROUGH collection bookkeeping (a
     child footer counts only for a child collection of that name AND
     incarnation): here the child names agree exactly.  The second one holds
     under the weaker premise that the three dirty sections hold no operation
     (zero dirty gauges) — PARTIAL with respect to (3): for the footer on its
     own this weaker premise is not enough, because a batch that only deletes
     a child collection leaves every section without operations while the
     child's footer is still in the store (known finding F10b). *)
  Theorem tree_store_reads_prefix_through_collection c ls cs :
    has_ll c = true ->
    Forall (fun b => tb_good b = true) (cbatches ls) ->
    crun fm c (cinit c) ls = Some cs ->
    exists a ca, a <= length (cbatches ls) /\
                 reads_as fm (assemble ca [] (Some (c_store cs)) true)
                          (ref_tree (firstn a (cbatches ls))).
  Proof.
    intros Hlc Hg Hr. destruct (crun_both c ls cs Hg Hr) as [HI HG].
    destruct HG as (a & b & d & ca & cb & cd & H1 & H2 & H3 & HA & HB & HD & _).
    pose proof (si_pers _ _ _ _ HI) as Hp. rewrite Hlc in *.
    destruct (t_persister (c_t cs)).
    - exists a, ca. split; [lia|]. rewrite (Hp eq_refl) in HA.
      apply (assemble_reads_as fm _ _ _ _ _ _ _ _ _ _ HA).
    - destruct Hp as (b0 & f & ch & Eb & Ell & Etp & _). rewrite Eb, Ell in HB.
      pose proof (persist_inv fm _ _ _ _ _ _ _ _ _ _ _ _ false HB Etp) as HB'.
      exists b, cb. split; [lia|].
      apply (assemble_reads_as fm _ _ _ _ _ _ _ _ _ _ (HB' ltac:(discriminate))).
  Qed.

  Theorem tree_zero_gauges_store_is_reference_partial c ls cs :
    has_ll c = true ->
    Forall (fun b => tb_good b = true) (cbatches ls) ->
    crun fm c (cinit c) ls = Some cs ->
    t_persister (c_t cs) = PIdle ->
    hered_empty (t_top (c_t cs)) -> hered_empty (t_mid (c_t cs)) -> hered_empty (t_base (c_t cs)) ->
    reads_as fm (assemble (t_coll (c_t cs)) [] (Some (c_store cs)) true) (ref_tree (cbatches ls)).
  Proof.
    intros Hlc Hg Hr Hid HT HM HB. destruct (crun_both c ls cs Hg Hr) as [HI _].
    pose proof (si_pers _ _ _ _ HI) as Hp. rewrite Hid in Hp.
    pose proof (si_node _ _ _ _ HI) as HN. rewrite Hlc, (Hp Hlc) in HN.
    apply (assemble_reads_as fm _ _ _ _ _ _ _ _ _ _ (drain_inv fm _ _ _ _ _ _ _ _ _ _ HN eq_refl HT HM HB)).
  Qed.

  (* the prefix invariant a <= b <= d of Prefix.v, for trees: read through the
     bookkeeping of the moment each section was cut off, the lower level holds
     the first a batches, base over it the first b, mid over base over it the
     first d (and top over all of it everything: tree_snapshot_reads_reference) *)
  Theorem tree_sections_hold_prefixes c ls cs :
    Forall (fun b => tb_good b = true) (cbatches ls) ->
    crun fm c (cinit c) ls = Some cs ->
    exists a b d ca cb cd,
      a <= b /\ b <= d /\ d <= length (cbatches ls) /\
      reads_as fm (assemble ca (osecs [None; None; None; None]) (t_ll (c_t cs)) (has_ll c))
               (ref_tree (firstn a (cbatches ls))) /\
      reads_as fm (assemble cb (osecs [None; None; t_base (c_t cs); None]) (t_ll (c_t cs)) (has_ll c))
               (ref_tree (firstn b (cbatches ls))) /\
      reads_as fm (assemble cd (osecs [None; t_mid (c_t cs); t_base (c_t cs); None])
                            (t_ll (c_t cs)) (has_ll c))
               (ref_tree (firstn d (cbatches ls))) /\
      (t_top (c_t cs) = None -> d = length (cbatches ls)) /\
      (t_mid (c_t cs) = None -> b = d) /\
      (t_base (c_t cs) = None -> a = b).
  Proof.
    intros Hg Hr. destruct (crun_both c ls cs Hg Hr) as [HI HG].
    destruct HG as (a & b & d & ca & cb & cd & H1 & H2 & H3 & HA & HB & HD & LA & LB & LD
                    & FT & FM & FB).
    exists a, b, d, ca, cb, cd.
    split; [auto|]. split; [auto|]. split; [auto|].
    split; [apply (assemble_reads_as fm _ _ _ _ _ _ _ _ _ _ HA)|].
    split; [apply (assemble_reads_as fm _ _ _ _ _ _ _ _ _ _ HB)|].
    split; [apply (assemble_reads_as fm _ _ _ _ _ _ _ _ _ _ HD)|]. auto.
  Qed.
End EndToEnd.

(* ---- the witness of finding F28 ---------------------------------------------- *)
(* Before the repair only the ROOT of stackDirtyBase got the current lower-level
   snapshot at hand-over; the child stacks of base kept the child snapshot
   captured when they were ingested.  A persistence round published between
   that ingest and the hand-over was invisible to them, and the next merger
   round resolved the child's Merge operands against base without the
   persisted value.  With the hand-over as it is now the same run reads
   correctly (an instance of tree_snapshot_reads_reference). *)
Definition cex_n : cname := [1%N].
Definition cex_k : bytes := [7%N].
Definition cex_cfg : cfg := {| cache_persisted := false; has_ll := true |}.
Definition cex_b (o : op) : tbatch := TB [] [(cex_n, Some (TB [(cex_k, o)] []))].
Definition cex_lt : lvltree := LT 0 [(cex_n, LT 0 [])].
Definition cex_run : list clabel :=
  [ CBatch (cex_b (OSet [100%N])); CIngest; CSwap cex_lt; CHandover;
    CBatch (cex_b (OMerge [97%N])); CIngest;
    CPBegin PAppend; CPPublish;
    CSwap cex_lt; CHandover;
    CBatch (cex_b (OMerge [98%N])); CBatch (cex_b (OMerge [99%N])); CIngest; CSwap cex_lt ].

Theorem tree_theorem_refuted_pre_fix :
  exists cs s r,
    Forall (fun b => tb_good b = true) (cbatches cex_run) /\
    crun_pre_fix fm_append cex_cfg (cinit cex_cfg) cex_run = Some cs /\
    assoc cex_n (ss_kids (t_cur_snapshot (c_t cs))) = Some s /\
    assoc cex_n (rt_kids (ref_tree (cbatches cex_run))) = Some r /\
    ss_get fm_append s cex_k = Some [58; 97; 58; 98; 58; 99]%N /\
    rt_get fm_append r cex_k = Some [100; 58; 97; 58; 98; 58; 99]%N.
Proof.
  destruct (crun_pre_fix fm_append cex_cfg (cinit cex_cfg) cex_run) as [cs|] eqn:E;
    [|vm_compute in E; discriminate].
  exists cs.
  destruct (assoc cex_n (ss_kids (t_cur_snapshot (c_t cs)))) as [s|] eqn:Es;
    [|vm_compute in E; injection E as <-; vm_compute in Es; discriminate].
  destruct (assoc cex_n (rt_kids (ref_tree (cbatches cex_run)))) as [r|] eqn:Er;
    [|vm_compute in Er; discriminate].
  exists s, r.
  vm_compute in E. injection E as <-. vm_compute in Es. injection Es as <-.
  vm_compute in Er. injection Er as <-.
  repeat split; try reflexivity.
  repeat constructor.
Qed.

Example tree_witness_reads_correctly_now :
  match crun fm_append cex_cfg (cinit cex_cfg) cex_run with
  | Some cs => match assoc cex_n (ss_kids (t_cur_snapshot (c_t cs))) with
               | Some s => ss_get fm_append s cex_k
               | None => None end
  | None => None
  end = Some [100; 58; 97; 58; 98; 58; 99]%N.
Proof. vm_compute. reflexivity. Qed.

Print Assumptions tree_snapshot_reads_reference.
Print Assumptions tree_snapshot_reads_reference_at_every_path.
Print Assumptions tree_store_reads_prefix.
Print Assumptions tree_drained_store_is_reference.
Print Assumptions tree_store_reads_prefix_through_collection.
Print Assumptions tree_sections_hold_prefixes.
Print Assumptions tree_zero_gauges_store_is_reference_partial.
Print Assumptions tree_theorem_refuted_pre_fix.
