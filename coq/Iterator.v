(* Iterator.v — executable model of the moss iterator (iterator.go,
   iterator_single.go, and the segmentCursor part of segment.go).
   Executable definitions ONLY; every lemma is in IteratorFacts.v.

   Conventions
   - segs : list segment is NEWEST FIRST (Go's ss.a is oldest first: Go ssIndex i
     is position (length segs - 1 - i) here; "higher ssIndex wins a tie" is
     "earlier position wins a tie").
   - ll : option (list (bytes*bytes)) is what the lower-level snapshot's own
     iterator would enumerate (ascending); it is cut to the bounds here, has
     op = Set, Go ssIndex -1, and sits at position (length segs): it loses ties.
   - The heap of cursors is modelled positionally: `rem` has one slot per
     segment (plus one for the lower level when present); slot i holds the
     entries that cursor i has not consumed yet, head = the cursor's current
     entry, [] = cursor absent (never added / popped).  container/heap's array
     layout is not modelled: `min_cursor` selects the minimum by iterator.Less. *)
From Moss Require Export Bytes Segment Stack.
From Coq Require Import Arith.

(* ---------------------------------------------------------------------- *)
(* segment.findStartKeyInclusivePos: first position whose key >= probe.
   (Written as "length of the leading run of keys < probe"; on an ascending
   segment that is what the binary search returns.) *)
Fixpoint lower_bound (s : segment) (x : bytes) : nat :=
  match s with
  | [] => 0
  | (k, _) :: r => if bltb k x then S (lower_bound r x) else 0
  end.

Definition lo_key (start : option bytes) : bytes :=
  match start with Some x => x | None => [] end.

(* segmentCursor {s,start,end,curr} *)
Record scursor := mk_sc { sc_seg : segment; sc_start : nat; sc_end : nat; sc_curr : nat }.

(* segment.Cursor(startKeyInclusive, endKeyExclusive) *)
Definition seg_cursor (s : segment) (start end_ : option bytes) : scursor :=
  let a := lower_bound s (lo_key start) in
  let b := match end_ with Some e => lower_bound s e | None => length s end in
  mk_sc s a b a.

(* segmentCursor.Current: (0,nil,nil) = None *)
Definition sc_current (c : scursor) : option entry :=
  if (sc_start c <=? sc_curr c) && (sc_curr c <? sc_end c)
  then nth_error (sc_seg c) (sc_curr c) else None.

(* segmentCursor.Next: bool = false is ErrIteratorDone *)
Definition sc_next (c : scursor) : scursor * bool :=
  let n := S (sc_curr c) in
  (mk_sc (sc_seg c) (sc_start c) (sc_end c) n, negb (sc_end c <=? n)).

(* segmentCursor.Seek *)
Definition sc_seek (x : bytes) (c : scursor) : scursor * bool :=
  let p := lower_bound (sc_seg c) x in
  let n := if p <? sc_start c then sc_start c else p in
  (mk_sc (sc_seg c) (sc_start c) (sc_end c) n, negb (sc_end c <=? n)).

(* entries a cursor will still deliver, current one first *)
Definition sc_rest (c : scursor) : segment :=
  if sc_start c <=? sc_curr c
  then firstn (sc_end c - sc_curr c) (skipn (sc_curr c) (sc_seg c)) else [].

(* the entries of s that a fresh cursor with these bounds delivers *)
Definition slice (start end_ : option bytes) (s : segment) : segment :=
  sc_rest (seg_cursor s start end_).

(* ---------------------------------------------------------------------- *)
Definition kv := (bytes * bytes)%type.

Fixpoint assoc (l : list kv) (k : bytes) : value :=
  match l with
  | [] => None
  | (k', v) :: r => if beqb k' k then Some v else assoc r k
  end.

(* point read of the lower-level snapshot *)
Definition ll_get (ll : option (list kv)) : bytes -> value :=
  fun k => match ll with Some l => assoc l k | None => None end.

(* the lower level as one more (oldest) all-Set segment *)
Definition ll_seg (l : list kv) : segment := map (fun e => (fst e, OSet (snd e))) l.

Definition with_ll (segs : list segment) (ll : option (list kv)) : list segment :=
  match ll with Some l => segs ++ [ll_seg l] | None => segs end.

(* calls and what Go answers *)
Inductive call := CNext | CSeek (x : bytes) | CCurrent.
Inductive result :=
| ROk                              (* Next/SeekTo returned nil *)
| RDone                            (* ErrIteratorDone *)
| RCur (k : bytes) (v : value)     (* Current returned (k, v, nil) *)
| RDeleted.                        (* Current returned (nil, nil, nil): a deletion entry *)

Inductive nres := NOk | NDone | NMax.

(* naiveSeekTo(iter, x, n): n > 0 iterations left; n = 0 is ErrMaxTries.
   curkey s = None           : Current() gave ErrIteratorDone
            = Some None      : Current() gave a nil key (deletion entry)
            = Some (Some k)  : Current() gave key k *)
Fixpoint naive_seek {S : Type} (curkey : S -> option (option bytes))
         (next : S -> S * bool) (n : nat) (x : bytes) (s : S) : S * nres :=
  match n with
  | O => (s, NMax)
  | Datatypes.S n' =>
      match curkey s with
      | None => (s, NDone)
      | Some key =>
          if bleb x (match key with Some k => k | None => [] end) then (s, NOk)
          else let (s', ok) := next s in
               if ok then naive_seek curkey next n' x s' else (s', NDone)
      end
  end.

Definition total (rem : list segment) : nat := fold_right (fun r n => length r + n) 0 rem.

Section WithMerge.
  Variable fm : bytes -> value -> bytes -> value.

  Record config := mk_cfg {
    c_segs : list segment;
    c_ll : option (list kv);
    c_start : option bytes;
    c_end : option bytes;
    c_incl : bool;        (* IteratorOptions.IncludeDeletions *)
    c_tries : nat         (* DefaultNaiveSeekToMaxTries; 0 = unbounded (maxTries <= 0): the model
                             then steps with fuel = 1 + number of entries left, which never runs
                             out (naive_unbounded_heap / naive_unbounded_single in IteratorFacts.v) *)
  }.

  Definition all_segs (cfg : config) : list segment := with_ll (c_segs cfg) (c_ll cfg).

  (* prefixLen as computed by startIterator *)
  Definition prefix_len (start end_ : option bytes) : nat :=
    match start, end_ with
    | Some (a :: s), Some (b :: e) => shared_prefix_len (a :: s) (b :: e)
    | _, _ => 0
    end.

  (* iterator.Less on keys: compare k[prefixLen:] *)
  Definition cmp_strip (pfx : nat) (a b : bytes) : comparison :=
    bcmp (skipn pfx a) (skipn pfx b).

  (* heap minimum: smallest stripped key; on a tie the newer (earlier) slot *)
  Fixpoint min_cursor (pfx : nat) (rem : list segment) : option (nat * entry) :=
    match rem with
    | [] => None
    | r :: rest =>
        let m := option_map (fun p => (S (fst p), snd p)) (min_cursor pfx rest) in
        match r with
        | [] => m
        | e :: _ =>
            match m with
            | None => Some (0, e)
            | Some (j, e') =>
                match cmp_strip pfx (fst e) (fst e') with
                | Gt => Some (j, e')
                | _ => Some (0, e)
                end
            end
        end
    end.

  (* advance cursor i (cursor.sc.Next / lowerLevelIter.Next); an emptied slot is a popped cursor *)
  Fixpoint advance (i : nat) (rem : list segment) : list segment :=
    match rem, i with
    | [], _ => []
    | r :: rest, O => tl r :: rest
    | r :: rest, S j => r :: advance j rest
    end.

  (* the for-loop of iterator.Next; fuel = number of entries left (each
     iteration consumes one, so it never runs out: the fuel = 0 branch is
     shown unreachable in next_loop_spec, IteratorFacts.v) *)
  Fixpoint next_loop (incl : bool) (pfx : nat) (fuel : nat) (lastK : bytes)
           (rem : list segment) : list segment * bool :=
    match fuel with
    | O => (rem, false)
    | S f =>
        match min_cursor pfx rem with
        | None => (rem, false)
        | Some (i, _) =>
            let rem1 := advance i rem in
            match min_cursor pfx rem1 with
            | None => (rem1, false)
            | Some (_, (k, o)) =>
                if beqb k lastK then next_loop incl pfx f lastK rem1
                else if negb incl && is_del o then next_loop incl pfx f k rem1
                else (rem1, true)
            end
        end
    end.

  (* iterator.Next *)
  Definition heap_next (incl : bool) (pfx : nat) (rem : list segment) : list segment * bool :=
    match min_cursor pfx rem with
    | None => (rem, false)
    | Some (_, (k, _)) => next_loop incl pfx (total rem) k rem
    end.

  (* startIterator(lo, end, options): cursors, then skip a leading deletion *)
  Definition heap_start (cfg : config) (lo : option bytes) : list segment :=
    let pfx := prefix_len lo (c_end cfg) in
    let rem := map (slice lo (c_end cfg)) (all_segs cfg) in
    if c_incl cfg then rem
    else match min_cursor pfx rem with
         | Some (_, (_, ODel)) => fst (heap_next false pfx rem)
         | _ => rem
         end.

  Inductive impl :=
  | IHeap (rem : list segment)                     (* *iterator *)
  | ISingle (c : scursor) (cur : option entry)     (* *iteratorSingle: sc and the cached op/k/v *)
  | ILower (all rest : segment).                   (* the lower-level iterator itself *)

  Record iter_state := mk_st { st_cfg : config; st_pfx : nat; st_impl : impl }.

  (* position of the only non-empty slot, if there is exactly one *)
  Fixpoint only_cursor (rem : list segment) : option nat :=
    match rem with
    | [] => None
    | [] :: rest => option_map S (only_cursor rest)
    | (_ :: _) :: rest => if Nat.eqb (total rest) 0 then Some 0 else None
    end.

  (* iterator.optimize at the pinned commit (before the repair): counts the cursors
     that are left AFTER the leading-deletion skip *)
  Definition optimize_pre_fix (cfg : config) (rem : list segment) : impl :=
    match only_cursor rem with
    | None => IHeap rem
    | Some i =>
        let r := nth i rem [] in
        if i <? length (c_segs cfg) then
          let c := seg_cursor (nth i (c_segs cfg) []) (c_start cfg) (c_end cfg) in
          ISingle (mk_sc (sc_seg c) (sc_start c) (sc_end c) (sc_end c - length r)) (hd_error r)
        else
          ILower (slice (c_start cfg) (c_end cfg) (nth i (all_segs cfg) [])) r
    end.

  (* segmentStack.StartIterator at the pinned commit *)
  Definition iter_start_pre_fix (cfg : config) : iter_state :=
    mk_st cfg (prefix_len (c_start cfg) (c_end cfg)) (optimize_pre_fix cfg (heap_start cfg (c_start cfg))).

  (* REPAIRED code.  startIterator records numCursorsAtStart = the number of
     cursors it built BEFORE the leading-deletion skip; optimize() takes a
     fast path only when len(iter.cursors) == 1 && numCursorsAtStart == 1. *)
  Definition num_cursors (rem : list segment) : nat :=
    length (filter (fun r : segment => match r with [] => false | _ => true end) rem).

  Definition num_cursors_at_start (cfg : config) (lo : option bytes) : nat :=
    num_cursors (map (slice lo (c_end cfg)) (all_segs cfg)).

  Definition optimize (cfg : config) (num_at_start : nat) (rem : list segment) : impl :=
    if Nat.eqb num_at_start 1 then optimize_pre_fix cfg rem else IHeap rem.

  (* segmentStack.StartIterator, repaired *)
  Definition iter_start (cfg : config) : iter_state :=
    mk_st cfg (prefix_len (c_start cfg) (c_end cfg))
          (optimize cfg (num_cursors_at_start cfg (c_start cfg)) (heap_start cfg (c_start cfg))).

  (* ------------------------------------------------------------------ *)
  (* iteratorSingle *)

  Fixpoint single_next_aux (incl : bool) (fuel : nat) (c : scursor) : scursor * option entry * bool :=
    let (c', ok) := sc_next c in
    if ok then
      match sc_current c' with
      | Some (k, ODel) =>
          if incl then (c', Some (k, ODel), true)
          else match fuel with
               | O => (c', None, false)
               | S f => single_next_aux incl f c'
               end
      | Some e => (c', Some e, true)
      | None => (c', None, true)      (* cannot happen: ok means start <= curr < end *)
      end
    else (c', None, false).

  Definition single_next (incl : bool) (c : scursor) : scursor * option entry * bool :=
    single_next_aux incl (sc_end c - sc_curr c) c.

  Definition entry_result (older : bytes -> value) (e : entry) : result :=
    match e with
    | (k, OSet v) => RCur k (Some v)
    | (k, ODel) => RDeleted
    | (k, OMerge v) => RCur k (fm k (older k) v)
    end.

  (* key returned by Current(): nil for a deletion entry *)
  Definition entry_key (e : entry) : option bytes :=
    match e with (_, ODel) => None | (k, _) => Some k end.

  Definition naive_fuel (tries : nat) (remaining : nat) : nat :=
    if Nat.eqb tries 0 then S remaining else tries.

  Definition single_seek (cfg : config) (x : bytes) (c : scursor) (cur : option entry)
    : scursor * option entry * bool :=
    let incl := c_incl cfg in
    let fall (c : scursor) :=
        let (c', ok) := sc_seek x c in
        if ok then
          match sc_current c' with
          | Some (k, ODel) => if incl then (c', Some (k, ODel), true) else single_next incl c'
          | o => (c', o, true)
          end
        else (c', None, false) in
    match match cur with Some e => entry_key e | None => None end with
    | Some k =>
        match bcmp x k with
        | Eq => (c, cur, true)
        | Gt =>
            match naive_seek (fun s : scursor * option entry => option_map entry_key (snd s))
                             (fun s => let '(c', cur', ok) := single_next incl (fst s) in ((c', cur'), ok))
                             (naive_fuel (c_tries cfg) (sc_end c - sc_curr c)) x (c, cur) with
            | (s, NOk) => (fst s, snd s, true)
            | (s, NDone) => (fst s, snd s, false)
            | (s, NMax) => fall (fst s)
            end
        | Lt => fall c
        end
    | None => fall c
    end.

  (* ------------------------------------------------------------------ *)
  (* *iterator (heap) *)

  Definition heap_current_ex (pfx : nat) (rem : list segment) : option entry :=
    option_map snd (min_cursor pfx rem).

  Definition heap_current (cfg : config) (pfx : nat) (rem : list segment) : result :=
    match min_cursor pfx rem with
    | None => RDone
    | Some (i, e) =>
        (* getMerged(key, val, ssIndex-1, ...): strictly older segments, then the lower level *)
        entry_result (sget fm (skipn (S i) (c_segs cfg)) (ll_get (c_ll cfg))) e
    end.

  Definition heap_seek (cfg : config) (pfx : nat) (x : bytes) (rem : list segment)
    : list segment * bool :=
    let incl := c_incl cfg in
    let restart :=
        let x' := match c_start cfg with
                  | Some s => if bltb x s then s else x
                  | None => x
                  end in
        let rem' := heap_start cfg (Some x') in
        (rem', negb (Nat.eqb (total rem') 0)) in
    match match heap_current_ex pfx rem with Some e => entry_key e | None => None end with
    | Some k =>
        match bcmp x k with
        | Eq => (rem, true)
        | Gt =>
            match naive_seek (fun r => option_map entry_key (heap_current_ex pfx r))
                             (heap_next incl pfx)
                             (naive_fuel (c_tries cfg) (total rem)) x rem with
            | (r, NOk) => (r, true)
            | (r, NDone) => (r, false)
            | (_, NMax) => restart
            end
        | Lt => restart
        end
    | None => restart
    end.

  (* ------------------------------------------------------------------ *)
  (* dispatch *)

  Definition iter_next (st : iter_state) : iter_state * bool :=
    let cfg := st_cfg st in
    match st_impl st with
    | IHeap rem =>
        let (rem', ok) := heap_next (c_incl cfg) (st_pfx st) rem in
        (mk_st cfg (st_pfx st) (IHeap rem'), ok)
    | ISingle c cur =>
        let '(c', cur', ok) := single_next (c_incl cfg) c in
        (mk_st cfg (st_pfx st) (ISingle c' cur'), ok)
    | ILower all rest =>
        (mk_st cfg (st_pfx st) (ILower all (tl rest)),
         match tl rest with [] => false | _ => true end)
    end.

  Definition iter_current_ex (st : iter_state) : option entry :=
    match st_impl st with
    | IHeap rem => heap_current_ex (st_pfx st) rem
    | ISingle _ cur => cur
    | ILower _ rest => hd_error rest
    end.

  Definition iter_current (st : iter_state) : result :=
    match st_impl st with
    | IHeap rem => heap_current (st_cfg st) (st_pfx st) rem
    | ISingle _ cur =>
        match cur with
        | None => RDone
        | Some e => entry_result (fun _ => None) e     (* FullMerge(k, nil, [v]) *)
        end
    | ILower _ rest =>
        match rest with
        | [] => RDone
        | e :: _ => entry_result (fun _ => None) e     (* always a Set *)
        end
    end.

  Definition iter_seek (x : bytes) (st : iter_state) : iter_state * bool :=
    let cfg := st_cfg st in
    match st_impl st with
    | IHeap rem =>
        let (rem', ok) := heap_seek cfg (st_pfx st) x rem in
        (mk_st cfg (st_pfx st) (IHeap rem'), ok)
    | ISingle c cur =>
        let '(c', cur', ok) := single_seek cfg x c cur in
        (mk_st cfg (st_pfx st) (ISingle c' cur'), ok)
    | ILower all rest =>
        (* the lower-level iterator's own SeekTo: lower bound, clamped to its start *)
        let rest' := skipn (lower_bound all x) all in
        (mk_st cfg (st_pfx st) (ILower all rest'),
         match rest' with [] => false | _ => true end)
    end.

  Definition is_ok (b : bool) : result := if b then ROk else RDone.

  Fixpoint run_calls (st : iter_state) (prog : list call) : list result :=
    match prog with
    | [] => []
    | CNext :: p => let (st', ok) := iter_next st in is_ok ok :: run_calls st' p
    | CSeek x :: p => let (st', ok) := iter_seek x st in is_ok ok :: run_calls st' p
    | CCurrent :: p => iter_current st :: run_calls st p
    end.

  (* CurrentEx after 0, 1, 2, ... Next calls, until Next reports Done (fuel: calls made) *)
  Fixpoint scan_ex (fuel : nat) (st : iter_state) : list entry :=
    match iter_current_ex st with
    | None => []
    | Some e =>
        e :: match fuel with
             | O => []
             | S f => let (st', ok) := iter_next st in if ok then scan_ex f st' else []
             end
    end.
End WithMerge.

(* ---------------------------------------------------------------------- *)
(* SPECIFICATION (also executable, so it can be extracted and compared). *)

Definition in_range (start end_ : option bytes) (k : bytes) : bool :=
  bleb (lo_key start) k && match end_ with Some e => bltb k e | None => true end.

(* newest op for k (ODel as a placeholder when no segment has k; never used on such k) *)
Definition nop (ss : list segment) (k : bytes) : op :=
  match newest ss k with Some o => o | None => ODel end.

(* all keys with their newest op, ascending *)
Definition view (ss : list segment) : segment := map (fun k => (k, nop ss k)) (all_keys ss).

(* visible entries: deletions are shown only with IncludeDeletions *)
Definition vis (incl : bool) (s : segment) : segment :=
  filter (fun e => incl || negb (is_del (snd e))) s.

Fixpoint drop_lt {A} (x : bytes) (l : list (bytes * A)) : list (bytes * A) :=
  match l with
  | [] => []
  | e :: r => if bltb (fst e) x then drop_lt x r else l
  end.

(* SeekTo target after clamping to the start bound *)
Definition seek_bound (start : option bytes) (x : bytes) : bytes :=
  match start with Some s => if bltb x s then s else x | None => x end.

Section Spec.
  Variable fm : bytes -> value -> bytes -> value.

  (* keys in [start,end) with their newest op over segs-then-ll *)
  Definition raw_range (cfg : config) : segment :=
    filter (fun e => in_range (c_start cfg) (c_end cfg) (fst e)) (view (all_segs cfg)).

  Definition full_get (cfg : config) : bytes -> value :=
    sget fm (c_segs cfg) (ll_get (c_ll cfg)).

  (* what an iterator without IncludeDeletions must enumerate *)
  Definition live_range (cfg : config) : list (bytes * value) :=
    map (fun e => (fst e, full_get cfg (fst e))) (vis false (raw_range cfg)).

  Definition spec_current (l : list (bytes * value)) : result :=
    match l with [] => RDone | (k, v) :: _ => RCur k v end.

  Definition nonempty {A} (l : list A) : bool := match l with [] => false | _ => true end.

  Fixpoint run_spec_from (cfg : config) (l : list (bytes * value)) (prog : list call) : list result :=
    match prog with
    | [] => []
    | CNext :: p => is_ok (nonempty (tl l)) :: run_spec_from cfg (tl l) p
    | CSeek x :: p =>
        let l' := drop_lt (seek_bound (c_start cfg) x) (live_range cfg) in
        is_ok (nonempty l') :: run_spec_from cfg l' p
    | CCurrent :: p => spec_current l :: run_spec_from cfg l p
    end.

  Definition run_spec (cfg : config) (prog : list call) : list result :=
    run_spec_from cfg (live_range cfg) prog.

  Definition run_model (cfg : config) (prog : list call) : list result :=
    run_calls fm (iter_start cfg) prog.

  (* the model of the pinned commit (optimize() before the repair) *)
  Definition run_model_pre_fix (cfg : config) (prog : list call) : list result :=
    run_calls fm (iter_start_pre_fix cfg) prog.
End Spec.

(* extraction entry point, REPAIRED iterator *)
Definition run_iter (fm : bytes -> value -> bytes -> value) (max_tries : nat)
           (include_deletions : bool) (segs : list segment) (ll : option (list kv))
           (start end_ : option bytes) (prog : list call) : list result :=
  run_calls fm (iter_start (mk_cfg segs ll start end_ include_deletions max_tries)) prog.

(* extraction entry point, iterator of the pinned commit (before the repair) *)
Definition run_iter_pre_fix (fm : bytes -> value -> bytes -> value) (max_tries : nat)
           (include_deletions : bool) (segs : list segment) (ll : option (list kv))
           (start end_ : option bytes) (prog : list call) : list result :=
  run_calls fm (iter_start_pre_fix (mk_cfg segs ll start end_ include_deletions max_tries)) prog.
