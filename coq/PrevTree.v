(* PrevTree.v — the chain of footers inside one data file when a footer is a TREE
   (top-level collection + child collections, store_footer.go): SnapshotPrevious
   (store_previous.go) and SnapshotRevert (store_revert.go) over whole histories.

   A footer of the chain is: the persisted tree (as observed: the persistence step
   itself is the subject of C04/C07/C11), the batches whose reference tree is its
   content, and the back link PrevFooterOffset (an index into the file's footers).

   What the code can do with a footer depends on whether the footer's tree holds a
   persisted segment ANYWHERE: the data file is only reachable through the mmapRef of
   a segment (the Footer has no file reference of its own).
     - snapshotPrevious: the file is looked up in the tree (top-level collection
       first, then child collections, recursively: Footer.fileRef/childFileRef);
       without any segment the answer is nil.
     - snapshotRevert: the file is looked up in the target's tree, then in the
       current footer's tree; the new footer copies the target tree as it is and
       links to the footer that was current.
   The pinned code looked only at the FIRST SEGMENT OF THE TOP-LEVEL COLLECTION
   (previous) and demanded a segment in EVERY collection of the target (revert):
   th_previous_pinned / th_revert_pinned, refuted in PrevTreeFacts (F37, F38).
   Executable definitions only. *)
From Moss Require Export Tree TreeRun.

Fixpoint fn_any_segs (f : fnode) : bool :=
  match f with
  | FN a _ kids =>
      match a with [] => false | _ => true end ||
      (fix go (l : list (cname * fnode)) : bool :=
         match l with [] => false | (_, c) :: r => fn_any_segs c || go r end) kids
  end.

Fixpoint fn_all_segs (f : fnode) : bool :=
  match f with
  | FN a _ kids =>
      match a with [] => false | _ => true end &&
      (fix go (l : list (cname * fnode)) : bool :=
         match l with [] => true | (_, c) :: r => fn_all_segs c && go r end) kids
  end.

Definition fn_top_segs (f : fnode) : bool := match fn_segs f with [] => false | _ => true end.

Record tfooter := { tf_node : fnode; tf_bs : list tbatch; tf_prev : option nat }.
Definition tfile := list tfooter.

Definition tcurrent (f : tfile) : option nat :=
  match f with [] => None | _ => Some (length f - 1) end.

Definition tcur_footer (f : tfile) : option tfooter :=
  match tcurrent f with Some i => nth_error f i | None => None end.

Definition tcur_bs (f : tfile) : list tbatch :=
  match tcur_footer f with Some x => tf_bs x | None => [] end.

(* how a persistence round ended: appended to the file (back link to the footer that
   was current), compacted into the same file (no back link), or written as the first
   footer of a new file (full compaction, or the store moved on because nothing of the
   old footer was kept) *)
Inductive tkind := TKAppend | TKPartial | TKNewFile.

Definition th_round (k : tkind) (f : tfile) (b : tbatch) (node' : fnode) : tfile :=
  let x prev := {| tf_node := node'; tf_bs := tcur_bs f ++ [b]; tf_prev := prev |} in
  match k with
  | TKAppend => f ++ [x (tcurrent f)]
  | TKPartial => f ++ [x None]
  | TKNewFile => [x None]
  end.

(* SnapshotPrevious of footer i *)
Definition th_previous (f : tfile) (i : nat) : option nat :=
  match nth_error f i with
  | Some fi => if fn_any_segs (tf_node fi) then tf_prev fi else None
  | None => None
  end.

Fixpoint th_walk (fuel : nat) (f : tfile) (i : nat) : list nat :=
  match fuel with
  | O => []
  | S k => match th_previous f i with
           | Some j => j :: th_walk k f j
           | None => []
           end
  end.

(* SnapshotRevert to footer t of the current file *)
Definition th_revert (f : tfile) (t : nat) : option tfile :=
  match nth_error f t, tcur_footer f with
  | Some ft, Some fc =>
      if fn_any_segs (tf_node ft) || fn_any_segs (tf_node fc)
      then Some (f ++ [{| tf_node := tf_node ft; tf_bs := tf_bs ft; tf_prev := tcurrent f |}])
      else None
  | _, _ => None
  end.

(* ---- the pinned code (before 8f6c423) ---------------------------------------- *)
Definition th_previous_pinned (f : tfile) (i : nat) : option nat :=
  match nth_error f i with
  | Some fi => if fn_top_segs (tf_node fi) then tf_prev fi else None
  | None => None
  end.

Definition th_revert_pinned (f : tfile) (t : nat) : option tfile :=
  match nth_error f t with
  | Some ft =>
      if fn_all_segs (tf_node ft)
      then Some (f ++ [{| tf_node := tf_node ft; tf_bs := tf_bs ft; tf_prev := tcurrent f |}])
      else None
  | None => None
  end.

(* F42 (repaired, f656f50): the pinned code wrote PrevFooterOffset = the old footer's offset in the
   OLD file into the first footer of a new file; scanning the new file backwards from that
   offset finds that very footer: it is its own predecessor *)
Definition th_round_newfile_pinned (f : tfile) (b : tbatch) (node' : fnode) : tfile :=
  [{| tf_node := node'; tf_bs := tcur_bs f ++ [b]; tf_prev := Some 0 |}].

(* ---- histories ------------------------------------------------------------------ *)
Inductive tev :=
| ERound (k : tkind) (b : tbatch) (node' : fnode)
| ERevert (t : nat).

Definition th_step (f : tfile) (e : tev) : option tfile :=
  match e with
  | ERound k b n => Some (th_round k f b n)
  | ERevert t => th_revert f t
  end.

Fixpoint th_run (f : tfile) (evs : list tev) : option tfile :=
  match evs with
  | [] => Some f
  | e :: r => match th_step f e with Some f' => th_run f' r | None => None end
  end.

(* the SPECIFICATION of the walk, written over the history alone (no links, no
   indices): the contents the store exposed since the last compaction (or new file),
   newest first, the head being the current content.  A revert exposes the target's
   content again; `tcontent` looks the target up in everything exposed in this file. *)
Definition spec_step (st : list (list tbatch) * list (list tbatch)) (e : tev)
  : list (list tbatch) * list (list tbatch) :=
  (* st = (chain since the last cut, newest first ; every content of the current file, oldest first) *)
  let '(chain, file) := st in
  let cur := match chain with c :: _ => c | [] => [] end in
  match e with
  | ERound TKAppend b _ => ((cur ++ [b]) :: chain, file ++ [cur ++ [b]])
  | ERound TKPartial b _ => ([cur ++ [b]], file ++ [cur ++ [b]])
  | ERound TKNewFile b _ => ([cur ++ [b]], [cur ++ [b]])
  | ERevert t => match nth_error file t with
                 | Some c => (c :: chain, file ++ [c])
                 | None => st
                 end
  end.

Definition spec_run (evs : list tev) : list (list tbatch) * list (list tbatch) :=
  fold_left spec_step evs ([], []).

(* the walk from the current footer, as contents *)
Definition walk_contents (f : tfile) : list (list tbatch) :=
  match tcurrent f with
  | Some i => map (fun j => match nth_error f j with Some x => tf_bs x | None => [] end)
                  (th_walk (length f) f i)
  | None => []
  end.
