(* BatchBufFacts.v — proofs about BatchBuf.v (the in-memory batch buffer).

   Main results
     step_entries            one legal call: entries afterwards = entries before ++ what
                             the call contributes (nothing when it is rejected)
     run_entries             every legal call sequence: entries = accepted operations in
                             call order, byte for byte
     fill_read / fill_read_other   what the caller wrote is what the handle reads; other
                             disjoint handles are not touched
     alloc_handle_fresh      a new handle is live, reads zeros, and is disjoint from every
                             registered range and every live handle
     rejected_alloc_call_unchanged / rejected_plain_call   what a rejected call leaves
     hrun_entries            batches built from plain and Alloc-built operations in any
                             mixture: entries = the operations that returned nil
     sort_batch_entries      after sort: entries = Segment.sort_seg of the entries before
     batch_find_start_spec / batch_find_key_spec / batch_get_spec   the binary searches of
                             a sorted batch = the linear specifications
     stale_handle_refuted    a handle obtained from Alloc of this batch and filled before
                             use registers a WRONG entry once a plain operation has outgrown
                             the capacity in between (finding; reproduced on the Go code)
     detached_value_refuted  AllocSet with a value handle that does not follow the key
                             handle registers other bytes as the value (no error)
     rejected_plain_keeps_bytes   a rejected plain operation stays in buf *)
From Coq Require Import ZArith NArith List Bool Lia ZifyN ZifyNat ZifyBool.
From Moss Require Import Bytes BytesFacts Segment SegmentFacts Codec CodecFacts
  FileFormat FileFormatFacts BatchBuf.
From Moss Require Index IndexFacts.
Open Scope N_scope.

Arguments N.mul : simpl never.
Arguments N.add : simpl never.
Arguments N.sub : simpl never.
Arguments N.div : simpl never.
Arguments N.modulo : simpl never.
Arguments N.pow : simpl never.

(* ------------------------------------------------------------------ *)
(* byte lists                                                          *)

Lemma subs_app_l a b lo hi : lo <= hi -> hi <= blen a -> subs (a ++ b) lo hi = subs a lo hi.
Proof.
  intros H1 H2. unfold subs. rewrite drop_app_l by lia.
  apply take_app_l. rewrite blen_drop. lia.
Qed.

Lemma subs_app_r a b lo hi :
  blen a <= lo -> subs (a ++ b) lo hi = subs b (lo - blen a) (hi - blen a).
Proof.
  intros H1. unfold subs.
  replace (drop lo (a ++ b)) with (drop (lo - blen a) b).
  - f_equal. lia.
  - rewrite <- (drop_app_exact a b) at 1. rewrite drop_drop. f_equal. lia.
Qed.

Lemma blen_subs b lo hi : lo <= hi -> hi <= blen b -> blen (subs b lo hi) = hi - lo.
Proof. intros H1 H2. unfold subs. apply blen_take. rewrite blen_drop. lia. Qed.

Lemma split3 b lo hi : lo <= hi -> hi <= blen b ->
  b = take lo b ++ subs b lo hi ++ drop hi b.
Proof.
  intros H1 H2. unfold subs.
  rewrite <- (take_drop lo b) at 1. f_equal.
  rewrite <- (take_drop (hi - lo) (drop lo b)) at 1. f_equal.
  rewrite drop_drop. f_equal. lia.
Qed.

Lemma subs_split b lo mid hi : lo <= mid -> mid <= hi -> hi <= blen b ->
  subs b lo hi = subs b lo mid ++ subs b mid hi.
Proof.
  intros H1 H2 H3. unfold subs.
  rewrite <- (take_drop (mid - lo) (take (hi - lo) (drop lo b))).
  f_equal.
  - rewrite take_take by lia. reflexivity.
  - replace (hi - lo) with ((mid - lo) + (hi - mid)) by lia.
    rewrite drop_take, drop_drop. do 2 f_equal. lia.
Qed.

Lemma blen_zeros n : blen (zeros n) = n.
Proof. apply zeros_blen. Qed.

Lemma blen_write buf lo d : lo + blen d <= blen buf -> blen (write_bytes buf lo d) = blen buf.
Proof.
  intro H. unfold write_bytes. rewrite !blen_app, blen_take, blen_drop by lia. lia.
Qed.

Lemma sub_checked_some b lo hi x :
  sub_checked b lo hi = Some x <-> lo <= hi /\ hi <= blen b /\ x = subs b lo hi.
Proof.
  unfold sub_checked.
  destruct (N.leb_spec lo hi); destruct (N.leb_spec hi (blen b)); cbn [andb]; split;
    try discriminate; try (intros [= <-]; auto); try (intros (? & ? & ?); lia).
  intros (_ & _ & ->). reflexivity.
Qed.

(* appending does not disturb a slice inside the old length *)
Lemma sub_checked_app b x lo hi e :
  sub_checked b lo hi = Some e -> sub_checked (b ++ x) lo hi = Some e.
Proof.
  intro H. apply sub_checked_some in H as (H1 & H2 & ->).
  apply sub_checked_some. rewrite blen_app. repeat split; try lia.
  symmetry. apply subs_app_l; assumption.
Qed.

(* an in-place write does not disturb a slice outside the written range *)
Lemma subs_write buf lo d a b :
  lo + blen d <= blen buf -> a <= b -> b <= blen buf -> (b <= lo \/ lo + blen d <= a) ->
  subs (write_bytes buf lo d) a b = subs buf a b.
Proof.
  intros Hin Hab Hb [Hd|Hd]; unfold write_bytes.
  - assert (E : subs buf a b = subs (take lo buf ++ drop lo buf) a b)
      by (rewrite take_drop; reflexivity).
    rewrite E.
    rewrite !subs_app_l by (try rewrite blen_take; lia). reflexivity.
  - assert (E : subs buf a b =
                subs ((take lo buf ++ subs buf lo (lo + blen d)) ++ drop (lo + blen d) buf) a b)
      by (rewrite <- app_assoc, <- split3 by lia; reflexivity).
    rewrite E, app_assoc.
    rewrite (subs_app_r (take lo buf ++ d)) by (rewrite blen_app, blen_take; lia).
    rewrite (subs_app_r (take lo buf ++ subs buf lo (lo + blen d)))
      by (rewrite blen_app, blen_take, blen_subs; lia).
    rewrite !blen_app, !blen_take, blen_subs by lia.
    f_equal; lia.
Qed.

Lemma sub_checked_write buf lo d a b e :
  lo + blen d <= blen buf -> (b <= lo \/ lo + blen d <= a) ->
  sub_checked buf a b = Some e -> sub_checked (write_bytes buf lo d) a b = Some e.
Proof.
  intros Hin Hd H. apply sub_checked_some in H as (H1 & H2 & ->).
  apply sub_checked_some. rewrite blen_write by assumption. repeat split; try lia.
  symmetry. apply subs_write; assumption.
Qed.

(* the written range reads back *)
Lemma subs_write_same buf lo d :
  lo + blen d <= blen buf -> subs (write_bytes buf lo d) lo (lo + blen d) = d.
Proof.
  intro H. unfold write_bytes. apply subs_mid; rewrite blen_take by lia; reflexivity.
Qed.

(* ------------------------------------------------------------------ *)
(* kvs as pairs; decoding pair by pair                                 *)

Lemma list_ind2 {A} (P : list A -> Prop) :
  P [] -> (forall a, P [a]) -> (forall a b r, P r -> P (a :: b :: r)) -> forall l, P l.
Proof.
  intros H0 H1 H2. fix IH 1. intros [|a [|b r]]; [exact H0 | apply H1 | apply H2, IH].
Qed.

Definition dec (buf : bytes) (p : N * N) : option entry :=
  get_operation_key_val buf (fst p) (snd p).

Fixpoint dec_all (buf : bytes) (ps : list (N * N)) : option segment :=
  match ps with
  | [] => Some []
  | p :: r =>
      match dec buf p, dec_all buf r with
      | Some e, Some s => Some (e :: s)
      | _, _ => None
      end
  end.

Lemma entries_of_pairs buf ws : entries_of ws buf = dec_all buf (pairs_of ws).
Proof.
  induction ws as [|a|a b r IH] using list_ind2; try reflexivity.
  cbn [entries_of pairs_of dec_all]. unfold dec. cbn [fst snd]. rewrite IH. reflexivity.
Qed.

Lemma pairs_flat ps : pairs_of (flat ps) = ps.
Proof. induction ps as [|[a b] r IH]; [reflexivity|]. cbn [flat pairs_of]. now rewrite IH. Qed.

Lemma pairs_flat_app ps w s : pairs_of (flat ps ++ [w; s]) = ps ++ [(w, s)].
Proof.
  induction ps as [|[a b] r IH]; [reflexivity|].
  cbn [flat app pairs_of]. now rewrite IH.
Qed.

Lemma flat_app ps qs : flat (ps ++ qs) = flat ps ++ flat qs.
Proof.
  induction ps as [|[a b] r IH]; [reflexivity|]. cbn [flat app]. now rewrite IH.
Qed.

Lemma pairs_of_snoc ws w s :
  flat (pairs_of ws) = ws -> pairs_of (ws ++ [w; s]) = pairs_of ws ++ [(w, s)].
Proof. intro H. rewrite <- H at 1. apply pairs_flat_app. Qed.

Lemma flat_pairs_snoc ws w s :
  flat (pairs_of ws) = ws -> flat (pairs_of (ws ++ [w; s])) = ws ++ [w; s].
Proof.
  intro H. rewrite pairs_of_snoc by assumption. rewrite flat_app, H. reflexivity.
Qed.

Lemma dec_all_snoc buf ps p :
  dec_all buf (ps ++ [p]) =
  match dec_all buf ps, dec buf p with
  | Some s, Some e => Some (s ++ [e])
  | _, _ => None
  end.
Proof.
  induction ps as [|a r IH]; cbn [app dec_all].
  - destruct (dec buf p); reflexivity.
  - rewrite IH. destruct (dec buf a), (dec_all buf r), (dec buf p); reflexivity.
Qed.

Lemma dec_all_ext buf buf' ps : forall es,
  (forall p e, In p ps -> dec buf p = Some e -> dec buf' p = Some e) ->
  dec_all buf ps = Some es -> dec_all buf' ps = Some es.
Proof.
  induction ps as [|a r IH]; intros es Hx H; [exact H|].
  cbn [dec_all] in *.
  destruct (dec buf a) as [e|] eqn:Ea; [|discriminate].
  destruct (dec_all buf r) as [s|] eqn:Er; [|discriminate].
  rewrite (Hx a e (or_introl eq_refl) Ea).
  rewrite (IH s); [exact H| |reflexivity].
  intros p e' Hin. apply Hx. now right.
Qed.

(* a decodable pair lies inside buf *)
Lemma dec_range buf p e : dec buf p = Some e ->
  fst (pair_range p) <= snd (pair_range p) /\ snd (pair_range p) <= blen buf.
Proof.
  unfold dec, get_operation_key_val, pair_range.
  destruct (decode (fst p)) as [[code kl] vl]. cbv beta iota. cbn [fst snd].
  destruct (sub_checked buf (snd p) (snd p + kl)) as [k|] eqn:E1; [|discriminate].
  destruct (sub_checked buf (snd p + kl) (snd p + kl + vl)) as [v|] eqn:E2; [|discriminate].
  intros _. apply sub_checked_some in E1, E2. lia.
Qed.

Lemma dec_key buf p k o : dec buf p = Some (k, o) -> pair_key buf p = k.
Proof.
  unfold dec, get_operation_key_val, pair_key.
  destruct (decode (fst p)) as [[code kl] vl]. cbv beta iota.
  destruct (sub_checked buf (snd p) (snd p + kl)) as [k'|] eqn:E1; [|discriminate].
  destruct (sub_checked buf (snd p + kl) (snd p + kl + vl)) as [v|] eqn:E2; [|discriminate].
  destruct (mk_op code v); [|discriminate]. intros [= <- _].
  apply sub_checked_some in E1 as (_ & _ & ->). reflexivity.
Qed.

Lemma dec_app buf x p e : dec buf p = Some e -> dec (buf ++ x) p = Some e.
Proof.
  unfold dec, get_operation_key_val.
  destruct (decode (fst p)) as [[code kl] vl]. cbv beta iota.
  destruct (sub_checked buf (snd p) (snd p + kl)) as [k|] eqn:E1; [|discriminate].
  destruct (sub_checked buf (snd p + kl) (snd p + kl + vl)) as [v|] eqn:E2; [|discriminate].
  rewrite (sub_checked_app _ x _ _ _ E1), (sub_checked_app _ x _ _ _ E2). auto.
Qed.

Lemma dec_write buf lo d p e :
  lo + blen d <= blen buf -> range_disjoint (pair_range p) lo (lo + blen d) ->
  dec buf p = Some e -> dec (write_bytes buf lo d) p = Some e.
Proof.
  unfold dec, get_operation_key_val, pair_range, range_disjoint.
  destruct (decode (fst p)) as [[code kl] vl]. cbv beta iota. cbn [fst snd].
  intros Hin Hd.
  destruct (sub_checked buf (snd p) (snd p + kl)) as [k|] eqn:E1; [|discriminate].
  destruct (sub_checked buf (snd p + kl) (snd p + kl + vl)) as [v|] eqn:E2; [|discriminate].
  assert (D1 : snd p + kl <= lo \/ lo + blen d <= snd p) by lia.
  assert (D2 : snd p + kl + vl <= lo \/ lo + blen d <= snd p + kl) by lia.
  rewrite (sub_checked_write _ _ _ _ _ _ Hin D1 E1).
  rewrite (sub_checked_write _ _ _ _ _ _ Hin D2 E2). auto.
Qed.

Lemma entries_pairs st : entries st = dec_all (b_buf st) (pairs_of (b_kvs st)).
Proof. apply entries_of_pairs. Qed.

(* every registered range of a decodable batch lies inside buf *)
Lemma ranges_inside st es : entries st = Some es ->
  Forall (fun r => fst r <= snd r /\ snd r <= blen (b_buf st)) (ranges st).
Proof.
  rewrite entries_pairs. unfold ranges.
  generalize (pairs_of (b_kvs st)) as ps. intros ps; revert es.
  induction ps as [|p r IH]; intros es H; [constructor|].
  cbn [dec_all map] in *.
  destruct (dec (b_buf st) p) as [e|] eqn:Ep; [|discriminate].
  destruct (dec_all (b_buf st) r) as [s|] eqn:Er; [|discriminate].
  constructor; [eapply dec_range; eauto | eapply IH; eauto].
Qed.

(* ------------------------------------------------------------------ *)
(* registering one entry                                               *)

Lemma guard_ok_limits kl vl : guard_ok kl vl = true ->
  mutate_guard kl vl = None /\ kl <= maxKeyLength /\ vl <= maxValLength.
Proof.
  unfold guard_ok, mutate_guard.
  destruct (N.ltb_spec maxKeyLength kl); [discriminate|].
  destruct (N.ltb_spec maxValLength vl); [discriminate|]. auto.
Qed.

Lemma mutate_ex_rejected st code ks kl vl : guard_ok kl vl = false ->
  fst (mutate_ex st code ks kl vl) = st /\ exists e, snd (mutate_ex st code ks kl vl) = RErr e.
Proof.
  unfold guard_ok, mutate_ex. destruct (mutate_guard kl vl) as [[|]|]; try discriminate;
    intros _; (split; [reflexivity | eexists; reflexivity]).
Qed.

Lemma register_entry st k o pre post es :
  wf st -> b_buf st = pre ++ (k ++ op_val o) ++ post ->
  guard_ok (blen k) (blen (op_val o)) = true -> entries st = Some es ->
  mutate_ex st (op_code o) (blen pre) (blen k) (blen (op_val o)) =
    (mkB (b_buf st) (b_cap st) (b_gen st)
         (b_kvs st ++ [encode (op_code o) (blen k) (blen (op_val o));
                       u64 (key_start_rule (blen pre) (blen k) (blen (op_val o)))]), ROk) /\
  entries (fst (mutate_ex st (op_code o) (blen pre) (blen k) (blen (op_val o)))) =
    Some (es ++ [(k, o)]).
Proof.
  intros (Hc & Hi & Hf) Hb Hg He.
  apply guard_ok_limits in Hg as (Hg & Hk & Hv).
  unfold mutate_ex. rewrite Hg. split; [reflexivity|]. cbn [fst].
  rewrite entries_pairs in *. cbn [b_buf b_kvs].
  rewrite pairs_of_snoc by assumption. rewrite dec_all_snoc, He.
  unfold dec. cbn [fst snd].
  rewrite (entry_decodes (b_buf st) pre k o post Hb Hk Hv); [reflexivity|].
  unfold two64. lia.
Qed.

(* ------------------------------------------------------------------ *)
(* plain operations                                                    *)

Lemma append_buf_buf st d oc : b_buf (append_buf st d oc) = b_buf st ++ d.
Proof. unfold append_buf. destruct (_ <=? _); reflexivity. Qed.

Lemma append_buf_kvs st d oc : b_kvs (append_buf st d oc) = b_kvs st.
Proof. unfold append_buf. destruct (_ <=? _); reflexivity. Qed.

Lemma append_buf_wf st d oc : wf st -> fits_int st (blen d) oc -> wf (append_buf st d oc).
Proof.
  intros (Hc & Hi & Hf) Hfit. unfold fits_int in Hfit. unfold wf, append_buf.
  destruct (N.leb_spec (blen (b_buf st ++ d)) (b_cap st)) as [H|H]; cbn [b_buf b_cap b_kvs];
    rewrite ?blen_app in *; repeat split; try assumption; lia.
Qed.

Lemma append_buf_entries st d oc es : entries st = Some es ->
  entries (append_buf st d oc) = Some es.
Proof.
  rewrite !entries_pairs, append_buf_buf, append_buf_kvs.
  apply dec_all_ext. intros p e _. apply dec_app.
Qed.

Lemma plain_entry_entries st k o oc es :
  wf st -> fits_int st (blen k + blen (op_val o)) oc -> entries st = Some es ->
  entries (fst (plain_entry st k o oc)) =
    Some (es ++ if guard_ok (blen k) (blen (op_val o)) then [(k, o)] else []).
Proof.
  intros Hw Hfit He. unfold plain_entry, mutate.
  set (st1 := append_buf st (k ++ op_val o) oc).
  assert (Hw1 : wf st1) by (apply append_buf_wf; [assumption | now rewrite blen_app]).
  assert (He1 : entries st1 = Some es) by (now apply append_buf_entries).
  destruct (guard_ok (blen k) (blen (op_val o))) eqn:Hg.
  - apply (register_entry st1 k o (b_buf st) [] es Hw1); try assumption.
    unfold st1. rewrite append_buf_buf, app_nil_r. reflexivity.
  - destruct (mutate_ex_rejected st1 (op_code o) (blen (b_buf st)) _ _ Hg) as [-> _].
    rewrite app_nil_r. exact He1.
Qed.

(* ------------------------------------------------------------------ *)
(* Alloc, copy                                                         *)

Lemma alloc_entries st n es : entries st = Some es -> entries (fst (alloc st n)) = Some es.
Proof.
  unfold alloc. destruct (_ <? _); cbn [fst]; [auto|].
  rewrite !entries_pairs. cbn [b_buf b_kvs].
  apply dec_all_ext. intros p e _. apply dec_app.
Qed.

Lemma alloc_wf st n : wf st -> wf (fst (alloc st n)).
Proof.
  intros (Hc & Hi & Hf). unfold alloc.
  destruct (N.ltb_spec (b_cap st - blen (b_buf st)) n); cbn [fst]; unfold wf;
    cbn [b_buf b_cap b_kvs]; rewrite ?blen_app, ?blen_zeros; repeat split; try assumption; lia.
Qed.

Lemma fill_wf st h d : wf st -> wf (fill st h d).
Proof.
  intros (Hc & Hi & Hf). unfold fill.
  destruct (N.eqb_spec (h_gen h) (b_gen st)); cbn [andb]; [|repeat split; assumption].
  destruct (N.leb_spec (h_lo h + blen (take (h_len h) d)) (blen (b_buf st)));
    [|repeat split; assumption].
  unfold wf. cbn [b_buf b_cap b_kvs]. rewrite blen_write by assumption. auto.
Qed.

Lemma fill_entries st h d es :
  call_legal st (CFill h d) -> entries st = Some es -> entries (fill st h d) = Some es.
Proof.
  intros Hl He. unfold fill.
  destruct (N.eqb_spec (h_gen h) (b_gen st)) as [Eg|Eg]; cbn [andb]; [|exact He].
  destruct (N.leb_spec (h_lo h + blen (take (h_len h) d)) (blen (b_buf st))) as [Hin|Hin];
    [|exact He].
  destruct Hl as [Hl|[(_ & _ & Hlo & Hhi) Hd]]; [contradiction|].
  rewrite entries_pairs in *. cbn [b_buf b_kvs].
  revert He. apply dec_all_ext. intros p e Hp. apply dec_write; [assumption|].
  unfold ranges in Hd. rewrite Forall_forall in Hd.
  specialize (Hd (pair_range p) (in_map _ _ _ Hp)).
  pose proof (blen_take_le (h_len h) d). unfold h_len in *.
  unfold range_disjoint in *. lia.
Qed.

(* ------------------------------------------------------------------ *)
(* AllocSet / AllocDel / AllocMerge                                    *)

Lemma subs_empty b lo hi : hi - lo = 0 -> subs b lo hi = [].
Proof. intro H. unfold subs. rewrite H. reflexivity. Qed.

Lemma alloc_mutate_entries st o kh vh es :
  wf st -> h_live st kh -> val_follows st kh vh -> op_val o = read st vh ->
  entries st = Some es ->
  entries (fst (alloc_mutate st (op_code o) kh vh)) =
    Some (es ++ if guard_ok (h_len kh) (h_len vh) then [(read st kh, o)] else []).
Proof.
  intros Hw (Hg & Ha & Hlo & Hhi) Hv Ho He. unfold alloc_mutate.
  destruct (guard_ok (h_len kh) (h_len vh)) eqn:Hgd.
  2:{ destruct (mutate_ex_rejected st (op_code o) (b_cap st - h_cap kh) _ _ Hgd) as [-> _].
      now rewrite app_nil_r. }
  pose proof Hw as (Hc & Hi & Hf).
  assert (Hvl : blen (op_val o) = h_len vh /\
                b_buf st = take (h_lo kh) (b_buf st) ++ (read st kh ++ op_val o) ++
                           drop (h_hi kh + h_len vh) (b_buf st)).
  { rewrite Ho. unfold read. destruct Hv as [Hz|[(_ & _ & Hvlo & Hvhi) Hadj]].
    - unfold h_len in Hz. rewrite (subs_empty _ _ _ Hz). unfold h_len. rewrite Hz.
      split; [reflexivity|]. rewrite app_nil_r, N.add_0_r. apply split3; assumption.
    - unfold h_len. rewrite blen_subs by assumption. split; [reflexivity|].
      rewrite Hadj. rewrite <- subs_split by lia.
      replace (h_hi kh + (h_hi vh - h_hi kh)) with (h_hi vh) by lia.
      apply split3; lia. }
  destruct Hvl as [Hvl Hsplit].
  assert (Hkl : blen (read st kh) = h_len kh) by (unfold read, h_len; now apply blen_subs).
  assert (Hks : b_cap st - h_cap kh = blen (take (h_lo kh) (b_buf st))).
  { unfold h_cap. rewrite Ha, blen_take by lia. lia. }
  rewrite Hks, <- Hkl, <- Hvl.
  apply (register_entry st (read st kh) o _ _ es Hw Hsplit); [|assumption].
  now rewrite Hkl, Hvl.
Qed.

Lemma alloc_mutate_wf st code kh vh : wf st -> wf (fst (alloc_mutate st code kh vh)).
Proof.
  intros (Hc & Hi & Hf). unfold alloc_mutate, mutate_ex.
  destruct (mutate_guard _ _) as [[|]|]; cbn [fst]; try (repeat split; assumption).
  unfold wf. cbn [b_buf b_cap b_kvs]. repeat split; try assumption.
  now apply flat_pairs_snoc.
Qed.

Lemma mutate_wf st code k v oc : wf st -> fits_int st (blen k + blen v) oc ->
  wf (fst (mutate st code k v oc)).
Proof.
  intros Hw Hfit. unfold mutate.
  assert (Hw1 : wf (append_buf st (k ++ v) oc))
    by (apply append_buf_wf; [assumption | now rewrite blen_app]).
  destruct Hw1 as (Hc & Hi & Hf). unfold mutate_ex.
  destruct (mutate_guard _ _) as [[|]|]; cbn [fst]; try (repeat split; assumption).
  unfold wf. cbn [b_buf b_cap b_kvs]. repeat split; try assumption.
  now apply flat_pairs_snoc.
Qed.

(* ------------------------------------------------------------------ *)
(* one call, every call sequence                                       *)

Lemma read_nil st : read st h_nil = [].
Proof. reflexivity. Qed.

Theorem step_wf st c : wf st -> call_legal st c -> wf (fst (step st c)).
Proof.
  intros Hw Hl. destruct c; cbn [step fst call_legal] in *.
  - now apply mutate_wf.
  - apply mutate_wf; [assumption|]. change (blen []) with 0. now rewrite N.add_0_r.
  - now apply mutate_wf.
  - now apply alloc_wf.
  - now apply fill_wf.
  - now apply alloc_mutate_wf.
  - now apply alloc_mutate_wf.
  - now apply alloc_mutate_wf.
Qed.

Theorem step_entries st c es :
  wf st -> call_legal st c -> entries st = Some es ->
  entries (fst (step st c)) = Some (es ++ accepted st c).
Proof.
  intros Hw Hl He. destruct c; cbn [step accepted call_legal] in *.
  - exact (plain_entry_entries st k (OSet v) obscap es Hw Hl He).
  - refine (plain_entry_entries st k ODel obscap es Hw _ He).
    cbn [op_val]. change (blen []) with 0. now rewrite N.add_0_r.
  - exact (plain_entry_entries st k (OMerge v) obscap es Hw Hl He).
  - rewrite app_nil_r. now apply alloc_entries.
  - rewrite app_nil_r. cbn [fst]. now apply fill_entries.
  - destruct Hl as [Hk Hv].
    exact (alloc_mutate_entries st (OSet (read st vh)) kh vh es Hw Hk Hv eq_refl He).
  - refine (alloc_mutate_entries st ODel kh h_nil es Hw Hl _ eq_refl He). now left.
  - destruct Hl as [Hk Hv].
    exact (alloc_mutate_entries st (OMerge (read st vh)) kh vh es Hw Hk Hv eq_refl He).
Qed.

Theorem run_wf cs : forall st, wf st -> run_legal st cs -> wf (run st cs).
Proof.
  induction cs as [|c r IH]; intros st Hw Hl; [exact Hw|].
  destruct Hl as [Hc Hr]. cbn [run fold_left]. apply IH; [now apply step_wf | exact Hr].
Qed.

Theorem run_entries cs : forall st es,
  wf st -> run_legal st cs -> entries st = Some es ->
  entries (run st cs) = Some (es ++ accepted_run st cs).
Proof.
  induction cs as [|c r IH]; intros st es Hw Hl He; cbn [run fold_left accepted_run].
  - now rewrite app_nil_r.
  - destruct Hl as [Hc Hr]. rewrite app_assoc.
    apply IH; [now apply step_wf | exact Hr | now apply step_entries].
Qed.

Lemma new_batch_wf ops n : n < 9223372036854775808 -> wf (new_batch ops n).
Proof. intro H. unfold wf, new_batch. cbn. repeat split; [lia | exact H]. Qed.

Lemma new_batch_entries ops n : entries (new_batch ops n) = Some [].
Proof. reflexivity. Qed.

(* ------------------------------------------------------------------ *)
(* handles: what the caller sees                                       *)

Lemma fill_shape st h d :
  b_gen (fill st h d) = b_gen st /\ b_cap (fill st h d) = b_cap st /\
  b_kvs (fill st h d) = b_kvs st /\ blen (b_buf (fill st h d)) = blen (b_buf st).
Proof.
  unfold fill. destruct (N.eqb_spec (h_gen h) (b_gen st)); cbn [andb]; [|auto].
  destruct (N.leb_spec (h_lo h + blen (take (h_len h) d)) (blen (b_buf st))); [|auto].
  cbn [b_gen b_cap b_kvs b_buf]. rewrite blen_write by assumption. auto.
Qed.

Lemma fill_live st h d h0 : h_live st h0 -> h_live (fill st h d) h0.
Proof.
  destruct (fill_shape st h d) as (Eg & Ec & _ & El).
  unfold h_live. rewrite Eg, Ec, El. auto.
Qed.

(* what was copied into a handle is what it reads *)
Theorem fill_read st h d : h_live st h -> blen d = h_len h -> read (fill st h d) h = d.
Proof.
  intros (Hg & _ & Hlo & Hhi) Hd. unfold fill, read.
  rewrite take_all by lia.
  rewrite Hg, N.eqb_refl. cbn [andb]. unfold h_len in Hd.
  destruct (N.leb_spec (h_lo h + blen d) (blen (b_buf st))); [|lia].
  cbn [b_buf]. replace (h_hi h) with (h_lo h + blen d) by lia.
  apply subs_write_same. assumption.
Qed.

(* ... and no other handle outside its range changes *)
Theorem fill_read_other st h d h' :
  h_lo h' <= h_hi h' -> h_hi h' <= blen (b_buf st) -> h_lo h <= h_hi h ->
  (h_hi h' <= h_lo h \/ h_hi h <= h_lo h') ->
  read (fill st h d) h' = read st h'.
Proof.
  intros H1 H2 H3 Hd. unfold fill, read.
  destruct (N.eqb_spec (h_gen h) (b_gen st)); cbn [andb]; [|reflexivity].
  destruct (N.leb_spec (h_lo h + blen (take (h_len h) d)) (blen (b_buf st))); [|reflexivity].
  cbn [b_buf]. pose proof (blen_take_le (h_len h) d). unfold h_len in *.
  apply subs_write; try assumption. lia.
Qed.

Lemma read_sub st h a b : a <= b -> b <= h_len h -> h_hi h <= blen (b_buf st) ->
  read st (h_sub h a b) = subs (read st h) a b.
Proof.
  intros H1 H2 H3. unfold read, h_sub, h_len in *. cbn [h_lo h_hi]. unfold subs.
  replace (h_hi h - h_lo h) with (a + (h_hi h - h_lo h - a)) by lia.
  rewrite drop_take, take_take by lia. rewrite drop_drop. f_equal. lia.
Qed.

(* a handle just returned by Alloc: live, n zero bytes, behind every registered range and
   behind every live handle (handed-out ranges never overlap) *)
Theorem alloc_handle_fresh st n st' h es :
  wf st -> entries st = Some es -> alloc st n = (st', RHandle h) ->
  h_live st' h /\ h_len h = n /\ h_lo h = blen (b_buf st) /\ read st' h = zeros n /\
  Forall (fun r => range_disjoint r (h_lo h) (h_hi h)) (ranges st') /\
  (forall h0, h_live st h0 -> h_hi h0 <= h_lo h) /\
  b_gen st' = b_gen st /\ b_cap st' = b_cap st /\ b_kvs st' = b_kvs st.
Proof.
  intros (Hc & Hi & Hf) He. unfold alloc.
  destruct (N.ltb_spec (b_cap st - blen (b_buf st)) n) as [Hn|Hn]; [discriminate|].
  intros [= <- <-]. unfold h_live, h_len, read. cbn [h_gen h_lo h_hi h_acap b_gen b_cap b_buf].
  rewrite blen_app, blen_zeros. repeat split; try lia.
  - pose proof (subs_mid (b_buf st) (zeros n) [] (blen (b_buf st)) (blen (b_buf st) + n)
                  eq_refl) as S.
    rewrite app_nil_r, blen_zeros in S. apply S. reflexivity.
  - pose proof (ranges_inside st es He) as R. unfold ranges in *. cbn [b_kvs].
    rewrite Forall_forall in *. intros r Hr. specialize (R r Hr). left. lia.
Qed.

(* handles of this batch never have more capacity than buf *)
Lemma handle_cap_le st h : h_live st h -> h_cap h <= b_cap st.
Proof. intros (_ & Ha & _). unfold h_cap. lia. Qed.

(* ------------------------------------------------------------------ *)
(* rejected calls                                                      *)

Definition is_plain (c : call) : bool :=
  match c with CSet _ _ _ | CDel _ _ | CMerge _ _ _ => true | _ => false end.
Definition call_data (c : call) : bytes :=
  match c with CSet k v _ | CMerge k v _ => k ++ v | CDel k _ => k ++ [] | _ => [] end.

(* Alloc, AllocSet, AllocDel, AllocMerge that return an error leave the batch as it was *)
Theorem rejected_alloc_call_unchanged st c e :
  is_plain c = false -> snd (step st c) = RErr e -> fst (step st c) = st.
Proof.
  destruct c; cbn [is_plain step]; try discriminate; intros _.
  - unfold alloc. destruct (_ <? _); cbn [fst snd]; intro H; [reflexivity|discriminate].
  - unfold alloc_mutate, mutate_ex. destruct (mutate_guard _ _) as [[|]|]; cbn [fst snd];
      intro H; try reflexivity; discriminate.
  - unfold alloc_mutate, mutate_ex. destruct (mutate_guard _ _) as [[|]|]; cbn [fst snd];
      intro H; try reflexivity; discriminate.
  - unfold alloc_mutate, mutate_ex. destruct (mutate_guard _ _) as [[|]|]; cbn [fst snd];
      intro H; try reflexivity; discriminate.
Qed.

(* a rejected Set / Del / Merge registers nothing, but its bytes stay in buf (they were
   appended before the guards ran) and are written out with the segment *)
Theorem rejected_plain_keeps_bytes st c e :
  is_plain c = true -> snd (step st c) = RErr e ->
  b_kvs (fst (step st c)) = b_kvs st /\ b_buf (fst (step st c)) = b_buf st ++ call_data c.
Proof.
  destruct c; cbn [is_plain step call_data]; try discriminate; intros _;
    unfold mutate, mutate_ex; destruct (mutate_guard _ _) as [[|]|]; cbn [fst snd];
    intro H; try discriminate; rewrite append_buf_buf, append_buf_kvs; auto.
Qed.

(* growth: only a plain operation that does not fit moves buf to a new array *)
Definition call_bytes (c : call) : N := blen (call_data c).

Theorem step_same_array st c :
  blen (b_buf st) + call_bytes c <= b_cap st ->
  b_gen (fst (step st c)) = b_gen st /\ b_cap (fst (step st c)) = b_cap st.
Proof.
  intro H. unfold call_bytes in H.
  assert (A : forall d oc, blen (b_buf st) + blen d <= b_cap st ->
              b_gen (append_buf st d oc) = b_gen st /\ b_cap (append_buf st d oc) = b_cap st).
  { intros d oc Hd. unfold append_buf. rewrite blen_app.
    destruct (N.leb_spec (blen (b_buf st) + blen d) (b_cap st)); [auto|lia]. }
  assert (M : forall s code ks kl vl, b_gen (fst (mutate_ex s code ks kl vl)) = b_gen s /\
                                      b_cap (fst (mutate_ex s code ks kl vl)) = b_cap s).
  { intros. unfold mutate_ex. destruct (mutate_guard _ _) as [[|]|]; auto. }
  destruct c; cbn [step call_data] in *; unfold mutate, alloc_mutate;
    try (destruct (M (append_buf st (k ++ v) obscap) OperationSet (blen (b_buf st)) (blen k) (blen v)) as [-> ->]; now apply A);
    try (destruct (M (append_buf st (k ++ v) obscap) OperationMerge (blen (b_buf st)) (blen k) (blen v)) as [-> ->]; now apply A);
    try (destruct (M (append_buf st (k ++ []) obscap) OperationDel (blen (b_buf st)) (blen k) (blen [])) as [-> ->]; now apply A);
    try apply M.
  - unfold alloc. destruct (_ <? _); auto.
  - cbn [fst]. destruct (fill_shape st h d) as (-> & -> & _). auto.
Qed.

Theorem step_keeps_live st c h :
  wf st -> h_live st h -> blen (b_buf st) + call_bytes c <= b_cap st ->
  blen (b_buf st) <= blen (b_buf (fst (step st c))) -> h_live (fst (step st c)) h.
Proof.
  intros Hw (Hg & Ha & Hlo & Hhi) Hfit Hmono.
  destruct (step_same_array st c Hfit) as [Eg Ec].
  unfold h_live. rewrite Eg, Ec. repeat split; try assumption. lia.
Qed.

(* ------------------------------------------------------------------ *)
(* batches built from plain and Alloc-built operations                 *)

Lemma mutate_ex_snd {A} (x : list A) st c ks kl vl :
  (if guard_ok kl vl then x else []) =
  match snd (mutate_ex st c ks kl vl) with ROk => x | _ => [] end.
Proof. unfold guard_ok, mutate_ex. destruct (mutate_guard kl vl) as [[|]|]; reflexivity. Qed.

Theorem plain_entry_roundtrip st k o oc es :
  wf st -> fits_int st (blen k + blen (op_val o)) oc -> entries st = Some es ->
  entries (fst (plain_entry st k o oc)) =
    Some (es ++ match snd (plain_entry st k o oc) with ROk => [(k, o)] | _ => [] end).
Proof.
  intros Hw Hf He. rewrite (plain_entry_entries st k o oc es Hw Hf He).
  unfold plain_entry, mutate. now rewrite <- mutate_ex_snd.
Qed.

Theorem alloc_entry_roundtrip st k o es :
  wf st -> entries st = Some es ->
  entries (fst (alloc_entry st k o)) =
    Some (es ++ match snd (alloc_entry st k o) with ROk => [(k, o)] | _ => [] end) /\
  wf (fst (alloc_entry st k o)).
Proof.
  intros Hw He. unfold alloc_entry.
  set (n := blen k + blen (op_val o)).
  destruct (alloc st n) as [st1 r] eqn:Ea.
  assert (Hw1 : wf st1) by (pose proof (alloc_wf st n Hw) as W; now rewrite Ea in W).
  assert (He1 : entries st1 = Some es)
    by (pose proof (alloc_entries st n es He) as W; now rewrite Ea in W).
  destruct r as [|e|h].
  - exfalso. unfold alloc in Ea. destruct (_ <? _); discriminate.
  - cbn [fst snd]. rewrite app_nil_r. auto.
  - destruct (alloc_handle_fresh st n st1 h es Hw He Ea)
      as (Hl & Hn & Hlo & _ & Hdis & _).
    set (d := k ++ op_val o).
    assert (Hd : blen d = h_len h) by (unfold d; rewrite blen_app; lia).
    set (st2 := fill st1 h d).
    assert (Hw2 : wf st2) by (now apply fill_wf).
    assert (He2 : entries st2 = Some es)
      by (apply fill_entries; [right; split; assumption | assumption]).
    assert (Hl2 : h_live st2 h) by (now apply fill_live).
    assert (Hr : read st2 h = d) by (now apply fill_read).
    pose proof Hl2 as (Hg2 & Ha2 & Hlo2 & Hhi2).
    assert (Hk : read st2 (h_sub h 0 (blen k)) = k).
    { rewrite read_sub by lia. rewrite Hr, subs_0_take. apply take_app_exact. }
    assert (Hv : read st2 (h_sub h (blen k) (h_len h)) = op_val o).
    { rewrite read_sub by lia. rewrite Hr. unfold subs, d. rewrite drop_app_exact.
      apply take_all. lia. }
    assert (Hkl : h_live st2 (h_sub h 0 (blen k))).
    { unfold h_live, h_sub, h_len in *. cbn [h_gen h_lo h_hi h_acap]. repeat split; lia. }
    assert (Hvl : h_live st2 (h_sub h (blen k) (h_len h))).
    { unfold h_live, h_sub, h_len in *. cbn [h_gen h_lo h_hi h_acap]. repeat split; lia. }
    split; [|now apply alloc_mutate_wf].
    rewrite (alloc_mutate_entries st2 o _ _ es Hw2 Hkl); try assumption.
    + rewrite Hk. unfold alloc_mutate. now rewrite <- mutate_ex_snd.
    + right. split; [assumption|]. unfold h_sub. cbn [h_lo h_hi]. lia.
    + now rewrite Hv.
Qed.

Fixpoint hlegal (st : bstate) (hs : list hop) : Prop :=
  match hs with
  | [] => True
  | h :: r =>
      match h with
      | HPlain k o oc => fits_int st (blen k + blen (op_val o)) oc
      | HAlloc _ _ => True
      end /\ hlegal (fst (hstep st h)) r
  end.

(* every mixture of plain and Alloc-built operations, keys and values of any length and
   content: the batch decodes to exactly the operations that returned nil, in call order *)
Theorem hrun_entries hs : forall st es,
  wf st -> hlegal st hs -> entries st = Some es ->
  entries (hrun st hs) = Some (es ++ haccepted st hs).
Proof.
  induction hs as [|h r IH]; intros st es Hw Hl He; cbn [hrun fold_left haccepted].
  - now rewrite app_nil_r.
  - destruct Hl as [Hh Hr].
    assert (S : entries (fst (hstep st h)) =
                Some (es ++ match snd (hstep st h) with ROk => [hop_entry h] | _ => [] end) /\
                wf (fst (hstep st h))).
    { destruct h as [k o oc|k o]; cbn [hstep hop_entry].
      - split; [now apply plain_entry_roundtrip | now apply mutate_wf].
      - now apply alloc_entry_roundtrip. }
    destruct S as [S W].
    destruct (hstep st h) as [st' res] eqn:E. cbn [fst snd] in *.
    change (fold_left (fun s h => fst (hstep s h)) r st') with (hrun st' r).
    destruct res; rewrite (IH st' _ W Hr S), <- app_assoc; reflexivity.
Qed.

(* ------------------------------------------------------------------ *)
(* sort                                                                *)

Lemma pinsert_dec buf p e : dec buf p = Some e -> forall ps es,
  dec_all buf ps = Some es -> dec_all buf (pinsert buf p ps) = Some (einsert e es).
Proof.
  intros Hp. induction ps as [|a r IH]; intros es H; cbn [dec_all pinsert] in *.
  - injection H as <-. cbn [einsert dec_all]. now rewrite Hp.
  - destruct (dec buf a) as [ea|] eqn:Ea; [|discriminate].
    destruct (dec_all buf r) as [s|] eqn:Er; [|discriminate]. injection H as <-.
    destruct e as [k o], ea as [ka oa].
    rewrite (dec_key _ _ _ _ Hp), (dec_key _ _ _ _ Ea). cbn [einsert fst].
    destruct (bcmp k ka); cbn [dec_all]; rewrite ?Hp, ?Ea, ?Er; try reflexivity.
    now rewrite (IH s eq_refl).
Qed.

Lemma sort_pairs_dec buf ps : forall es,
  dec_all buf ps = Some es -> dec_all buf (sort_pairs buf ps) = Some (sort_seg es).
Proof.
  induction ps as [|p r IH]; intros es H; cbn [dec_all sort_pairs fold_right] in *.
  - injection H as <-. reflexivity.
  - destruct (dec buf p) as [e|] eqn:Ep; [|discriminate].
    destruct (dec_all buf r) as [s|] eqn:Er; [|discriminate]. injection H as <-.
    cbn [sort_seg fold_right]. apply pinsert_dec; [assumption|]. now apply IH.
Qed.

(* sorting permutes kvs pairs only: the batch then decodes to Segment.sort_seg of what it
   decoded to before - the model segment of the rest of the development *)
Theorem sort_batch_entries st es :
  entries st = Some es -> entries (sort_batch st) = Some (sort_seg es).
Proof.
  rewrite !entries_pairs. unfold sort_batch. cbn [b_buf b_kvs]. rewrite pairs_flat.
  apply sort_pairs_dec.
Qed.

Theorem sort_batch_buf st : b_buf (sort_batch st) = b_buf st /\ b_cap (sort_batch st) = b_cap st.
Proof. split; reflexivity. Qed.

Lemma dec_all_keys buf ps : forall es,
  dec_all buf ps = Some es -> map (pair_key buf) ps = keys es.
Proof.
  induction ps as [|p r IH]; intros es H; cbn [dec_all] in *.
  - injection H as <-. reflexivity.
  - destruct (dec buf p) as [[k o]|] eqn:Ep; [|discriminate].
    destruct (dec_all buf r) as [s|] eqn:Er; [|discriminate]. injection H as <-.
    cbn [map keys fst]. rewrite (dec_key _ _ _ _ Ep). f_equal. now apply IH.
Qed.

Lemma batch_keys_entries st es : entries st = Some es -> batch_keys st = keys es.
Proof. rewrite entries_pairs. apply dec_all_keys. Qed.

(* a sorted batch with unique keys is a segment in the sense of Segment.v *)
Theorem sorted_batch_is_segment st es :
  entries st = Some es -> NoDup (keys es) ->
  entries (sort_batch st) = Some (sort_seg es) /\ asc (keys (sort_seg es)) /\
  (forall x, In x (sort_seg es) <-> In x es) /\
  (forall k, find (sort_seg es) k = find es k).
Proof.
  intros He Hn. repeat split.
  - now apply sort_batch_entries.
  - now apply sort_seg_asc.
  - apply sort_seg_in.
  - apply sort_seg_in.
  - intro k. now apply find_sort_seg.
Qed.

(* ------------------------------------------------------------------ *)
(* the binary searches of a sorted batch                               *)

Theorem batch_find_start_spec st es key :
  entries st = Some es -> NoDup (keys es) ->
  batch_find_start (sort_batch st) key = Index.lower_bound (keys (sort_seg es)) key.
Proof.
  intros He Hn. unfold batch_find_start.
  rewrite (batch_keys_entries _ _ (sort_batch_entries st es He)).
  apply IndexFacts.find_start_pos_correct; [now apply sort_seg_asc|].
  intros l r [= <- <-]. apply IndexFacts.window_full.
Qed.

Theorem batch_find_key_spec st es key :
  entries st = Some es -> NoDup (keys es) ->
  batch_find_key (sort_batch st) key = Index.position (keys (sort_seg es)) key.
Proof.
  intros He Hn. unfold batch_find_key.
  rewrite (batch_keys_entries _ _ (sort_batch_entries st es He)).
  apply IndexFacts.find_key_pos_correct; [now apply sort_seg_asc|].
  intros l r [= <- <-]. apply IndexFacts.window_full.
Qed.

Lemma find_position es key :
  find es key = match Index.position (keys es) key with
                | Some p => option_map snd (nth_error es p)
                | None => None
                end.
Proof.
  induction es as [|[k o] r IH]; [reflexivity|].
  cbn [find keys map fst Index.position]. fold (keys r).
  destruct (beqb k key); [reflexivity|]. rewrite IH.
  destruct (Index.position (keys r) key); reflexivity.
Qed.

(* Segment.Get on the sorted batch = the specification lookup in what was put in *)
Theorem batch_get_spec st es key :
  entries st = Some es -> NoDup (keys es) -> batch_get (sort_batch st) key = find es key.
Proof.
  intros He Hn. unfold batch_get.
  rewrite (batch_find_key_spec st es key He Hn), (sort_batch_entries st es He).
  rewrite <- (find_sort_seg es key Hn). rewrite (find_position (sort_seg es) key).
  destruct (Index.position _ _); reflexivity.
Qed.

(* ------------------------------------------------------------------ *)
(* refuted: what does NOT hold                                         *)

Definition b_k1v1 : bytes := [107; 49; 118; 49].                          (* "k1v1" *)
Definition b_plainkey : bytes := [112; 108; 97; 105; 110; 107; 101; 121].  (* "plainkey" *)
Definition b_plainval : bytes := [112; 108; 97; 105; 110; 118; 97; 108].   (* "plainval" *)

(* b := NewBatch(4, 8); h := b.Alloc(4); copy(h, "k1v1");
   b.Set("plainkey", "plainval")      -- 16 bytes do not fit behind the 4 allocated ones:
                                         append moves buf to a new array (observed cap 32)
   b.AllocSet(h[:2], h[2:])           -- keyStart = 32 - cap(h) = 32 - 8 = 24, not 0
   The handle came from Alloc of this batch and was filled before use; every call
   returns nil; yet the batch does not hold ("k1" -> "v1"): the recorded start offset is
   24, beyond len(buf) = 20 (the model's entries faults; Go reads zero bytes inside the
   capacity and Get answers ErrSegmentCorrupted).  Reproduced on the Go code. *)
Definition stale_h : handle := mkH 0 0 4 8.
Definition stale_calls : list call :=
  [CAlloc 4; CFill stale_h b_k1v1; CSet b_plainkey b_plainval 32;
   CAllocSet (h_sub stale_h 0 2) (h_sub stale_h 2 4)].

Theorem stale_handle_refuted :
  snd (alloc (new_batch 4 8) 4) = RHandle stale_h /\
  read (run (new_batch 4 8) [CAlloc 4; CFill stale_h b_k1v1]) stale_h = b_k1v1 /\
  map (fun c => res_code (snd (step (new_batch 4 8) c))) [CAlloc 4] = [0] /\
  b_gen (run (new_batch 4 8) stale_calls) = 1 /\
  b_kvs (run (new_batch 4 8) stale_calls) =
    [encode OperationSet 8 8; 4; encode OperationSet 2 2; 24] /\
  blen (b_buf (run (new_batch 4 8) stale_calls)) = 20 /\
  entries (run (new_batch 4 8) stale_calls) <>
    Some [(b_plainkey, OSet b_plainval); ([107; 49], OSet [118; 49])].
Proof. vm_compute. repeat split; discriminate. Qed.

(* AllocSet looks at the LENGTH of the value slice only: a value that was allocated
   elsewhere is not what gets registered, and no error is returned.
   k := Alloc(2) "k1"; x := Alloc(2) "xx"; v := Alloc(2) "v1"; AllocSet(k, v) *)
Definition detached_calls : list call :=
  [CAlloc 2; CFill (mkH 0 0 2 16) [107; 49]; CAlloc 2; CFill (mkH 0 2 4 16) [120; 120];
   CAlloc 2; CFill (mkH 0 4 6 16) [118; 49]; CAllocSet (mkH 0 0 2 16) (mkH 0 4 6 16)].

Theorem detached_value_refuted :
  entries (run (new_batch 2 16) detached_calls) = Some [([107; 49], OSet [120; 120])] /\
  snd (step (run (new_batch 2 16) (removelast detached_calls))
            (CAllocSet (mkH 0 0 2 16) (mkH 0 4 6 16))) = ROk.
Proof. vm_compute. split; reflexivity. Qed.

(* ------------------------------------------------------------------ *)
(* the hypotheses are satisfiable on non-trivial states                *)

Ltac nsolve := vm_compute; first [reflexivity | discriminate | (intro; discriminate)].

Definition ex_h : handle := mkH 0 2 6 16.
Definition ex_calls : list call :=
  [CSet [97] [0] 16; CAlloc 4; CFill ex_h b_k1v1;
   CAllocSet (h_sub ex_h 0 2) (h_sub ex_h 2 4); CDel [255] 16].

Example run_entries_example :
  wf (new_batch 4 16) /\ run_legal (new_batch 4 16) ex_calls /\
  snd (alloc (fst (step (new_batch 4 16) (CSet [97] [0] 16))) 4) = RHandle ex_h /\
  entries (run (new_batch 4 16) ex_calls) =
    Some [([97], OSet [0]); ([107; 49], OSet [118; 49]); ([255], ODel)] /\
  accepted_run (new_batch 4 16) ex_calls =
    [([97], OSet [0]); ([107; 49], OSet [118; 49]); ([255], ODel)].
Proof.
  split; [apply new_batch_wf; nsolve|].
  split; [|vm_compute; repeat split; reflexivity].
  cbn [run_legal call_legal ex_calls].
  split; [nsolve|]. split; [exact I|]. split.
  { right. split; [repeat split; nsolve|].
    vm_compute. apply Forall_cons; [left; vm_compute; intro; discriminate | apply Forall_nil]. }
  split.
  { split; [repeat split; nsolve|]. right. split; [repeat split; nsolve | nsolve]. }
  split; [nsolve | exact I].
Qed.

Definition ex_hops : list hop :=
  [HPlain [] (OSet []) 0; HAlloc [99; 0] (OMerge [255]); HPlain [98] ODel 64;
   HAlloc [97] ODel; HAlloc [100; 100; 100; 100; 100; 100; 100; 100] (OSet [1])].

(* capacity 3: the plain Del of "b" outgrows it (new array, capacity 64 observed); the
   Alloc-built operations before and after it round-trip all the same *)
Example hrun_entries_example :
  wf (new_batch 4 3) /\ hlegal (new_batch 4 3) ex_hops /\
  entries (hrun (new_batch 4 3) ex_hops) =
    Some [([], OSet []); ([99; 0], OMerge [255]); ([98], ODel); ([97], ODel);
          ([100; 100; 100; 100; 100; 100; 100; 100], OSet [1])] /\
  b_gen (hrun (new_batch 4 3) ex_hops) = 1.
Proof.
  split; [apply new_batch_wf; nsolve|].
  split; [|vm_compute; split; reflexivity].
  cbn [hlegal ex_hops]. repeat split; nsolve.
Qed.

Example sort_example :
  let st := hrun (new_batch 4 3) ex_hops in
  entries (sort_batch st) =
    Some [([], OSet []); ([97], ODel); ([98], ODel); ([99; 0], OMerge [255]);
          ([100; 100; 100; 100; 100; 100; 100; 100], OSet [1])] /\
  batch_find_start (sort_batch st) [98; 0] = 3%nat /\
  batch_get (sort_batch st) [99; 0] = Some (OMerge [255]).
Proof. vm_compute. repeat split; reflexivity. Qed.
